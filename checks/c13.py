"""C13 - endpoint policies apply only to requests matching their declared endpoint.

spec:     specs/c13_endpoint_policy  EndpointPolicyP (property), EndpointPolicyI (transcription of urltree insert/lookup,
          BuildEndpointPolicyTree, getRemedies), SpaceC13 + MC_C13 (exhaustive I => P and case generation),
          EndpointPolicyTrace (trace validation of what the real code answered)
binding:  harness/cmd/c13 runs config.BuildEndpointPolicyTree + runner.getRemedies/getDiagnoses (export_verif.go) +
          EndpointPolicyTree.Lookup on every generated (declaration set, declaration order, request)
oracle:   TLC only.  A case whose real outcome equals the model's outcome carries the verdict TLC computed for exactly
          that input and outcome (EndpointPolicyP.Verdict, written into the case file by MC_C13); every other real outcome,
          a seeded sample of all outcomes, every non-"ok" case and all random configurations are judged by
          TLC trace validation against EndpointPolicyTrace.
"""
import glob, json, os, shutil
from vlib import Broken, write_ndjson, parallel

SPEC = "c13_endpoint_policy"
KF_CLASS = "best-pattern-shadowed"


# ----------------------------------------------------------------------------- helpers
def render(h, p):
    return ".".join(h) + ("/" + "/".join(p) if p else "")


def norm_sel(sel):
    """canonical, order-free form of a selection list (model side or real side)"""
    return sorted((s["r"], s["norm"], tuple(sorted((q[0], q[1]) for q in s.get("params", [])))) for s in sel)


def norm_lk(lk):
    return (bool(lk["match"]), lk["norm"], tuple(sorted((q[0], q[1]) for q in lk["params"])))


def ndecl(max_body):
    # 2 methods x (bodies with and without trailing wildcard + the catch-all + two patterns on the longer host), SpaceC13.Patterns
    return 2 * (2 * sum(3 ** k for k in range(max_body + 1)) + 3)


def write_picks(path, tuples):
    with open(path, "w") as f:
        for t in tuples:
            f.write(json.dumps(list(t)) + "\n")


def load_groups(sd, prefix):
    gs = []
    for fn in sorted(glob.glob(os.path.join(sd, prefix + "*.json"))):
        gs.append(json.load(open(fn)))
    return gs


def execute(ctx, binary, groups, tag):
    d = ctx.sub("run-" + tag)
    inp, outp = os.path.join(d, "groups.ndjson"), os.path.join(d, "out.ndjson")
    with open(inp, "w") as f:
        for g in groups:
            f.write(json.dumps({"decls": [{"m": x["m"], "h": x["h"], "p": x["p"], "t": x["t"], "pl": x.get("pl", "on")} for x in g["decls"]],
                                "orders": g["orders"],
                                "reqs": [{"m": r["m"], "h": r["h"], "p": r["p"]} for r in g["reqs"]]}) + "\n")
    ctx.run_harness(binary, ["run", inp, outp], timeout=1200)
    res = [json.loads(l) for l in open(outp) if l.strip()]
    if len(res) != len(groups):
        raise Broken("executor answered %d groups for %d" % (len(res), len(groups)))
    return res


def events_of(g, real, ri_list):
    """trace events of one group restricted to the requests ri_list: group, (req, out per order)*"""
    ev = [{"ev": "group", "decls": [{"m": d["m"], "h": d["h"], "p": d["p"], "r": d["r"], "g": d["g"], "pl": d.get("pl", "on")}
                                    for d in g["decls"]]}]
    for ri in ri_list:
        rq = g["reqs"][ri]
        ev.append({"ev": "req", "m": rq["m"], "h": rq["h"], "p": rq["p"]})
        for oi, o in enumerate(real["orders"]):
            if o["err"]:
                continue
            out = o["outs"][ri]
            ev.append({"ev": "out", "ord": g["orders"][oi], "sel": out["sel"], "dsel": out["dsel"],
                       "lk": {"match": out["lk"]["match"], "norm": out["lk"]["norm"], "params": out["lk"]["params"]}})
    return ev


def tlc_validate(ctx, blocks, tag, strict=False):
    """validate blocks (lists of events, each starting with a group event) with EndpointPolicyTrace.
    Returns (n_out_events_accepted, rejections, shadow_hits) where a rejection / shadow hit is (block_index, event, kind).
    A rejected request (req + its outs) is removed and the rest validated again."""
    sd = ctx.spec_dir(SPEC)
    wd = os.path.join(ctx.scratch, "tv-" + tag)
    if not os.path.isdir(wd):
        shutil.copytree(sd, wd, ignore=shutil.ignore_patterns("*.json", "*.ndjson", "states", "meta-*"))
    blocks = [list(b) for b in blocks]
    rejections, rounds = [], 0
    while True:
        rounds += 1
        flat, owner = [{"ev": "config"}], [None]
        for bi, b in enumerate(blocks):
            for e in b:
                flat.append(e)
                owner.append(bi)
        p = os.path.join(wd, "trace.ndjson")
        write_ndjson(p, flat)
        # the readings of the open points this implementation may still be using (see compare_and_judge)
        modeset = sorted(getattr(ctx, "c13_modeset", None) or (0, 1, 2, 3))
        cfgname = "EndpointPolicyTrace_run%s.cfg" % ("_strict" if strict else "")
        with open(os.path.join(wd, cfgname), "w") as f:
            f.write("CONSTANTS\n  ModeSet = {%s}\n  TolerateShadow = %s\nSPECIFICATION TraceSpec\nCONSTRAINT HWM\nPOSTCONDITION Post\nCHECK_DEADLOCK FALSE\n"
                    % (", ".join(str(m) for m in modeset), "FALSE" if strict else "TRUE"))
        ok, hwm, r = ctx.tlc_trace(wd, "EndpointPolicyTrace", p, cfg=cfgname, timeout=900)
        final = set(modeset)
        for line in r.out.splitlines():
            if line.startswith('<<"MODES", '):
                final = set(int(x) for x in line[line.index("{") + 1:line.index("}")].split(",") if x.strip())
        shadow = []
        for line in r.out.splitlines():
            if line.startswith('<<"KF-SHADOW", '):
                k = int(line.split(",")[1].strip(" >"))
                shadow.append((owner[k - 1], flat[k - 1]))
        if ok:
            n_out = sum(1 for e in flat if e["ev"] == "out")
            if not strict and tag not in ("repro", "selftest", "replay"):
                ctx.__dict__.setdefault("c13_final_modes", []).append(final)
            return n_out, rejections, shadow
        if hwm < 1 or hwm >= len(flat):
            raise Broken("trace validation made no progress (%s): %r\n%s" % (tag, r, r.out[-2000:]))
        bad = flat[hwm]          # 0-based index hwm = line hwm+1 = first unexplained event
        kind = "not-accepted"
        for line in r.out.splitlines():
            if line.startswith('<<"ORDER-DEP", %d>>' % (hwm + 1)):
                kind = "order-dependent"
        bi = owner[hwm]
        # the request the rejected event belongs to
        b = blocks[bi]
        k = hwm - owner.index(bi)            # index inside the block
        if b[k]["ev"] != "out":
            raise Broken("trace validation rejected a non-out event (%s): %s" % (tag, json.dumps(b[k])[:300]))
        s = k
        while b[s]["ev"] != "req":
            s -= 1
        e = s + 1
        while e < len(b) and b[e]["ev"] == "out":
            e += 1
        rejections.append({"block": bi, "group": b[0], "req": b[s], "outs": b[s + 1:e], "at": k - s - 1, "kind": kind})
        del b[s:e]
        if rounds >= 3:
            # give up on this chunk: report what was rejected; the events before the last rejection were accepted
            return -sum(1 for e in flat[:hwm] if e["ev"] == "out"), rejections, shadow


def describe(group_ev, req_ev):
    return {"decls": ["%s %s -> %s%s" % (d["m"], render(d["h"], d["p"]), d["r"],
                                         "" if d.get("pl", "on") == "on" else " [plugins: %s]" % d["pl"]) for d in group_ev["decls"]],
            "request": "%s %s" % (req_ev["m"], render(req_ev["h"], req_ev["p"]))}


def report_rejection(ctx, binary, rej, origin):
    """a real outcome rejected by the property spec: reproduce it (deterministic: one re-execution) and report"""
    g = {"decls": [dict(d, t=i + 1) for i, d in enumerate(rej["group"]["decls"])],
         "orders": [o["ord"] for o in rej["outs"]],
         "reqs": [{"m": rej["req"]["m"], "h": rej["req"]["h"], "p": rej["req"]["p"]}]}
    # keep the remedy types of the original group when known
    if "types" in rej:
        for d, t in zip(g["decls"], rej["types"]):
            d["t"] = t
    real = execute(ctx, binary, [g], "repro")[0]
    ev = events_of(dict(g, decls=[dict(d) for d in g["decls"]]), real, [0])
    _, rej2, _ = tlc_validate(ctx, [ev], "repro", strict=True)
    w = describe(rej["group"], rej["req"])
    w["class"] = rej["kind"]
    w["origin"] = origin
    w["outs"] = [{"ord": o["ord"], "sel": o["sel"], "lk": o["lk"]} for o in rej["outs"]][:6]
    if not rej2:
        # tolerated class?  (strict validation rejects shadow; if even strict accepts, it did not reproduce)
        raise Broken("rejection not reproduced: %s" % json.dumps(w)[:800])
    ctx.violation(w, {"group": g, "trace": ev})


def report_shadow(ctx, hit_group, hit_req, origin):
    w = describe(hit_group, hit_req)
    w["class"] = KF_CLASS
    w["origin"] = origin
    return ctx.violation(w, {"group_event": hit_group, "req_event": hit_req})


# ----------------------------------------------------------------------- random configurations
HOSTS = [["a", "com"], ["api", "a", "com"], ["b", "com"]]
LITS = ["x", "y", "v1", "users", "me"]
PNAMES = ["p", "q", "r", "id"]


def rand_pattern(rng):
    n = rng.choice([0, 1, 1, 2, 2, 3, 3, 4])
    path = []
    for i in range(n):
        path.append("{%s}" % PNAMES[i] if rng.random() < 0.35 else rng.choice(LITS))
    if rng.random() < 0.35:
        path.append("*")
    return rng.choice(HOSTS[:2] if rng.random() < 0.8 else HOSTS), path


def rand_group(rng, nreq):
    k = rng.randint(3, 7)
    decls, seen = [], set()
    base_h, base_p = rand_pattern(rng)
    while len(decls) < k:
        if rng.random() < 0.6 and base_p:
            # a relative of the base pattern: overlapping declarations are the interesting ones
            h, p = base_h, list(base_p)
            i = rng.randrange(len(p))
            x = rng.random()
            if p[i] == "*":
                p = p[:i] + ([rng.choice(LITS)] if x < 0.5 else [])
            elif x < 0.35:
                p[i] = "{%s}" % PNAMES[i] if i < 4 else p[i]
            elif x < 0.6:
                p[i] = rng.choice(LITS)
            elif x < 0.8:
                p = p[:i + 1] + ["*"]
            else:
                p = p[:i + 1] + [rng.choice(LITS)]
            p = p[:4] + (["*"] if len(p) > 4 and p[-1] == "*" else [])
        else:
            h, p = rand_pattern(rng)
        if "*" in p[:-1]:
            continue
        m = rng.choice(["GET", "GET", "POST", "PUT"])
        key = (m, render(h, p))
        if key in seen:
            continue
        seen.add(key)
        i = len(decls) + 1
        decls.append({"m": m, "h": h, "p": p, "t": i, "r": "d%d" % i, "g": "g%d" % i,
                      "pl": rng.choice(["on", "on", "on", "on", "off", "none", "donly"])})
    reqs, rs = [], set()
    tries = 0
    while len(reqs) < nreq and tries < 200:
        tries += 1
        d = rng.choice(decls)
        h, p = list(d["h"]), []
        for s in d["p"]:
            if s == "*":
                p += [rng.choice(LITS + ["zz"]) for _ in range(rng.choice([0, 1, 1, 2]))]
            elif s.startswith("{"):
                p.append(rng.choice(LITS + ["zz", "42"]))
            else:
                p.append(s)
        x = rng.random()
        if rng.random() < 0.18 and p:
            # degenerate spellings the tree takes as text: an empty segment ("//"), "." / "..", an encoded slash -
            # inserted before a segment or in place of one (never last: trailing slashes / dots are trimmed)
            j = rng.randrange(len(p))
            odd = rng.choice(["", "", "", ".", "..", "%2F", "x%2Fy"])
            if rng.random() < 0.5 and j < len(p) - 1:
                p[j] = odd
            else:
                p.insert(j, odd)
        if x < 0.15 and p:
            p[rng.randrange(len(p))] = rng.choice(LITS + ["zz"])
        elif x < 0.25 and p:
            p = p[:-1]
        elif x < 0.35:
            p = p + [rng.choice(LITS + ["zz"])]
        elif x < 0.40:
            h = rng.choice(HOSTS)
        elif x < 0.48:
            # host-shape variants: one more label (taken from the path vocabulary), one label fewer
            h = h + [rng.choice(LITS + ["evil", "net"])] if rng.random() < 0.6 else h[:-1] or h
        elif x < 0.52 and p:
            # the first path segment written as a further host label
            h, p = h + [p[0]], p[1:]
        while p and (p[-1] == "" or p[-1].endswith(".")):
            p.pop()            # the tree trims trailing "/" and ".": that would be another spelling of a shorter URL
        m = d["m"] if rng.random() < 0.7 else rng.choice(["GET", "POST", "PUT"])
        key = (m, render(h, p))
        if key in rs:
            continue
        rs.add(key)
        reqs.append({"m": m, "h": h, "p": p})
    ident = list(range(1, k + 1))
    orders = [ident, ident[::-1]]
    for _ in range(2):
        o = ident[:]
        rng.shuffle(o)
        if o not in orders:
            orders.append(o)
    return {"decls": decls, "orders": orders, "reqs": reqs}


# ------------------------------------------------------------------------------------ run
ALL_MODES = frozenset((0, 1, 2, 3))


def compare_and_judge(ctx, binary, groups, reals, origin, sample_frac, seen_cases):
    """model outcome vs real outcome per case.  Returns (drift, blocks for trace validation, n shadow, modeset):
    modeset = the readings of the open points (EndpointPolicyP modes) under which TLC accepted EVERY case whose real
    outcome equals the model's - one reading must explain the whole implementation; if there is none, the reading with the
    fewest failures, and the failing cases go to trace validation (which then rejects them)."""
    drift, nshadow = 0, 0
    classes = ctx.cov.setdefault("input_classes", {})
    must = [set() for _ in groups]
    recs = []          # (group index, request index, am, sm) of cases that do not accept every reading
    for gi, (g, real) in enumerate(zip(groups, reals)):
        live = []
        for oi in range(len(g["orders"])):
            rej, err = bool(g["exp"][oi]["rej"]), bool(real["orders"][oi]["err"])
            if rej != err:
                drift += 1
                if err:
                    ctx.notes.append("configuration refused by the real loader but not by the model: %s" % real["orders"][oi]["err"][:160])
                else:
                    must[gi].update(range(len(g["reqs"])))     # loaded although the model refuses it: judge every outcome
            elif not rej:
                live.append(oi)
        for ri, rq in enumerate(g["reqs"]):
            outs = []
            for oi in live:
                exp, out = g["exp"][oi]["outs"][ri], real["orders"][oi]["outs"][ri]
                ctx.cov["evaluations"] += 1
                if not (exp["sel"] or out["sel"] or exp["dsel"] or out["dsel"] or exp["lk"]["match"] or out["lk"]["match"]):
                    same = True       # nothing matched, nothing selected on either side (the bulk of the space)
                else:
                    same = (norm_sel(exp["sel"]) == norm_sel(out["sel"]) and norm_sel(exp["dsel"]) == norm_sel(out["dsel"])
                            and norm_lk(exp["lk"]) == norm_lk(out["lk"]))
                for c in exp["cls"]:
                    classes[c] = classes.get(c, 0) + 1
                if not same:
                    drift += 1
                    must[gi].add(ri)
                elif len(exp["am"]) < 4:
                    recs.append((gi, ri, frozenset(exp["am"]), frozenset(exp["sm"])))
                outs.append(out)
            if any(o != outs[0] for o in outs) and any(
                    (norm_sel(o["sel"]), norm_sel(o["dsel"]), norm_lk(o["lk"])) !=
                    (norm_sel(outs[0]["sel"]), norm_sel(outs[0]["dsel"]), norm_lk(outs[0]["lk"])) for o in outs):
                must[gi].add(ri)
            key = (tuple(sorted((d["m"], render(d["h"], d["p"])) for d in g["decls"])), rq["m"], render(rq["h"], rq["p"]))
            if key not in seen_cases:
                seen_cases.add(key)
                if rq.get("nm", 0) >= 2:
                    ctx.cov["distinct_nontrivial"] += 1
    fails = {mt: sum(1 for r in recs if mt not in r[3]) for mt in range(4)}
    modeset = [mt for mt in range(4) if fails[mt] == 0]
    if not modeset:
        best = min(range(4), key=lambda mt: (fails[mt], mt))
        ctx.notes.append("no reading of the open points explains every generated case (failures per reading: %s); judging under reading %d" % (fails, best))
        modeset = [best]
    ms = frozenset(modeset)
    for gi, ri, am, sm in recs:
        if not (sm & ms):
            must[gi].add(ri)              # TLC's verdict for exactly this input and outcome: rejected under the implementation's reading
        elif not (am & ms):
            # the recorded finding class (a sample of these is also sent through trace validation below)
            nshadow += 1
            classes["shadow"] = classes.get("shadow", 0) + 1
            if nshadow <= 3 or ctx.rng.random() < 0.05:
                must[gi].add(ri)
            if nshadow == 1:
                report_shadow(ctx, {"decls": groups[gi]["decls"]}, groups[gi]["reqs"][ri], origin)
    blocks = []
    for gi, (g, real) in enumerate(zip(groups, reals)):
        pick = set(must[gi])
        for ri in range(len(g["reqs"])):
            if ctx.rng.random() < sample_frac:
                pick.add(ri)
        if pick and any(not o["err"] for o in real["orders"]):
            blocks.append(events_of(g, real, sorted(pick)))
    return drift, blocks, nshadow, modeset


def judge_blocks(ctx, binary, blocks, origin, tag, reproduce=True):
    """TLC trace validation of blocks in parallel chunks; reports rejections (reproduced) and known-finding hits"""
    if not blocks:
        return 0
    chunks, cur, n = [], [], 0
    for b in blocks:
        cur.append(b)
        n += len(b)
        if n >= 4000:
            chunks.append(cur)
            cur, n = [], 0
    if cur:
        chunks.append(cur)
    res = parallel(lambda it: tlc_validate(ctx, it[1], "%s%d" % (tag, it[0])), list(enumerate(chunks)), n=4)
    total = 0
    for (n_ok, rejections, shadow), chunk in zip(res, chunks):
        total += abs(n_ok)
        for bi, e in shadow:
            # the request this out event belongs to
            b = chunk[bi]
            k = b.index(e)
            while b[k]["ev"] != "req":
                k -= 1
            report_shadow(ctx, b[0], b[k], origin)
        for rej in rejections[:2]:
            if not reproduce:
                # a concurrent recording: the outcome depends on the interleaving and cannot be re-executed exactly; the recorded
                # outcome itself was rejected by TLC, it is confirmed by validating that single recorded outcome once more
                ev = [rej["group"], rej["req"]] + rej["outs"][rej["at"]:rej["at"] + 1]
                _, rej2, _ = tlc_validate(ctx, [ev], "repro", strict=True)
                if not rej2:
                    raise Broken("rejected concurrent outcome accepted on its own: %s" % json.dumps(describe(rej["group"], rej["req"]))[:400])
                w = describe(rej["group"], rej["req"])
                w.update({"class": "not-accepted", "origin": origin, "outs": [{"sel": o["sel"], "lk": o["lk"]} for o in rej["outs"][:2]]})
                if len(ctx.violations) < 6:
                    ctx.violation(w, {"concurrent": True, "trace": ev, "storm_group": ctx.c13_storm_groups[rej["group"]["src"]],
                                      "group": {"decls": [dict(d, t=i + 1) for i, d in enumerate(rej["group"]["decls"])],
                                                "orders": [rej["outs"][0]["ord"]], "reqs": [{"m": rej["req"]["m"], "h": rej["req"]["h"], "p": rej["req"]["p"]}]}})
            elif len(ctx.violations) < 6:       # each report costs a re-execution and a TLC run; a handful of witnesses is enough
                report_rejection(ctx, binary, rej, origin)
            else:
                ctx.notes.append("further rejection not individually reproduced: %s" % json.dumps(describe(rej["group"], rej["req"]))[:300])
        if rejections and n_ok < 0:
            ctx.notes.append("%s: more than %d rejected requests in one chunk, remaining events not validated" % (origin, len(rejections)))
    ctx.cov["traces_validated_against_impl"] += total
    return total


def run(ctx):
    T = ctx.thorough
    binary = ctx.build_harness("c13")
    sd = ctx.spec_dir(SPEC)
    ctx.cov["rule"] = ("case = (declaration set, declaration order, request); evaluations = cases executed on the real code; "
                       "distinct_nontrivial = distinct (declaration set, request) pairs of the generated spaces in which at least "
                       "two declared patterns match the request URL (overlap: specificity, wildcard fallback, method isolation "
                       "are exercised); traces_validated = out events (one per case) accepted by TLC trace validation")
    ctx.cov["checker_cmd"] = ("tlc -config MC_quick.cfg|MC_pairs.cfg|GenC13.cfg MC_C13.tla ; "
                              "tlc -config EndpointPolicyTrace.cfg EndpointPolicyTrace.tla")
    ctx.cov["trusted_base"] = ["TLC", "CommunityModules Json/SequencesExt", "Go toolchain",
                               "harness/cmd/c13 (renders <<host,path>> to text, copies the dispatcher's answer)",
                               "runner/export_verif.go (calls getRemedies/getDiagnoses unchanged)"]
    ctx.assumptions += ["request URLs have literal segments only (no '{x}' or '*' segment in a request)",
                        "one parameter name per path position (the code rejects two names at one trie position)",
                        "every declaration carries one enabled remedy of its own remedy type and one enabled diagnosis "
                        "(declarations with remedies of the same type on overlapping URLs are rejected by the loader and not part of the space)",
                        "whether 'a.com/x/*' matches 'a.com/x' and whether 'most specific' ranges over all declared patterns or "
                        "those of the request's method is left open by the statement: both accepted"]

    # (1) exhaustive I => P (+ case emission) on the bounded instance;
    # (2) the same on a seeded sample of the larger space (<= 3 declarations, patterns with <= 2 segments);
    # non-vacuity: the model of the code before the two fixes must be refuted; the shadow class must be in the space.
    # The five TLC runs are independent and run side by side.
    nd = ndecl(2)
    npairs, ntriples = (20, 35) if not T else (0, 2000)
    picks = set()
    while len(picks) < npairs:
        picks.add(tuple(sorted(ctx.rng.sample(range(1, nd + 1), 2))))
    while len(picks) < npairs + ntriples:
        picks.add(tuple(sorted(ctx.rng.sample(range(1, nd + 1), 3))))
    write_picks(os.path.join(sd, "s_picks.ndjson"), sorted(picks))
    for pre in ("", "g_", "p_", "k_"):
        write_picks(os.path.join(sd, pre + "picks.ndjson"), [])
    # quick: a seeded sample of the 3-declaration sets of the small space (thorough enumerates them: MC_small3)
    nd1 = ndecl(1)
    small = set()
    while not T and len(small) < 40:
        small.add(tuple(sorted(ctx.rng.sample(range(1, nd1 + 1), 3))))
    write_picks(os.path.join(sd, "q_picks.ndjson"), sorted(small))
    deep = set()
    nd3 = ndecl(3)
    while T and len(deep) < 450:
        deep.add(tuple(sorted(ctx.rng.sample(range(1, nd3 + 1), ctx.rng.choice([2, 3, 3])))))
    write_picks(os.path.join(sd, "t_picks.ndjson"), sorted(deep))
    W = 4 if not T else 6

    def job(j):
        kind, cfg, what = j
        if kind == "mc":
            return ctx.tlc_exhaustive(sd, "MC_C13", cfg, timeout=1800, label=what, heap="6g", workers=W)
        r = ctx.tlc(sd, "MC_C13", cfg, timeout=600, label="non-vacuity: %s must be refuted" % what, workers=2)
        if r.violated is None:
            raise Broken("non-vacuity run %s was not refuted: %r" % (cfg, r))
        return r
    jobs = [("mc", "MC_quick.cfg", "I=>P exhaustive (<= 2 declarations, small space) + case generation"),
            ("mc", "GenC13.cfg", "I=>P on the seeded sample of the larger space + case generation")]
    if T:
        jobs += [("mc", "MC_pairs.cfg", "I=>P exhaustive (<= 2 declarations, larger space) + case generation"),
                 ("mc", "MC_small3.cfg", "I=>P exhaustive (<= 3 declarations, small space) + case generation"),
                 ("mc", "GenC13_deep.cfg", "I=>P on the seeded sample of the deeper space + case generation")]
    else:
        jobs += [("mc", "GenC13_small.cfg", "I=>P on the seeded sample of 3-declaration sets of the small space + case generation")]
    jobs += [("nv", "MC_nv_o5.cfg", "method map found by Lookup (O5)"),
             ("nv", "MC_nv_hostwild.cfg", "path wildcard swallowing host labels"),
             ("nv", "MC_nv_collision.cfg", "host label and path segment of one text sharing a node")]
    if T:       # (quick: the shadow class is asserted through the input-class coverage of the replayed cases)
        jobs += [("nv", "MC_nv_norm.cfg", "fabricated normalised URL"),
                 ("nv", "MC_nv_shadow.cfg", "shadow class present")]
    parallel(job, jobs, n=3)       # at most 3 JVMs side by side (the box is shared)

    groups = []
    for pre in ("g_", "q_", "s_") + (("p_", "k_", "t_") if T else ()):
        groups += load_groups(sd, pre)
    if len(groups) < 100:
        raise Broken("case generation produced %d groups" % len(groups))
    ctx.log("generated %d groups, %d cases" % (len(groups), sum(len(g["orders"]) * len(g["reqs"]) for g in groups)))
    ctx.cov["exhaustive"] = True      # the generated sets are replayed completely

    # (3) spec -> code: every generated case on the real code
    reals = execute(ctx, binary, groups, "gen")
    seen = set()
    ncases = sum(len(g["orders"]) * len(g["reqs"]) for g in groups)
    nreqs = sum(len(g["reqs"]) for g in groups)
    frac = min(1.0, (6000.0 if not T else 40000.0) / max(1, ncases + nreqs))
    drift, blocks, nshadow, modeset = compare_and_judge(ctx, binary, groups, reals, "generated", frac, seen)
    ctx.c13_modeset = modeset
    ctx.log("executed %d cases; %d real outcomes differ from the model's; %d in the known shadow class; %d blocks to validate; readings open: %s"
            % (ncases, drift, nshadow, len(blocks), modeset))
    missing = [c for c in ("none", "exact-literal", "param", "wild-tail", "wild-zero", "param+wild", "method-hidden", "overlap", "shadow",
                           "winner-disabled", "host-shape", "empty-segment", "empty-segment-matched") if not ctx.cov["input_classes"].get(c)]
    if missing:
        raise Broken("generated cases do not cover the input classes %s (vacuous replay)" % missing)
    if drift:
        ctx.cov["model_drift"] = True
        ctx.notes.append("%d real outcomes differ from EndpointPolicyI's (judged by trace validation)" % drift)
    g0, r0 = groups[len(groups) // 2], reals[len(groups) // 2]
    ctx.sample({"kind": "generated-case", "decls": describe({"decls": g0["decls"]}, g0["reqs"][1])["decls"],
                "request": describe({"decls": []}, g0["reqs"][1])["request"], "order": g0["orders"][0],
                "model": g0["exp"][0]["outs"][1] if not g0["exp"][0]["rej"] else "refused", "real": r0["orders"][0]["outs"][1]["sel"]})
    n1 = judge_blocks(ctx, binary, blocks, "generated", "gen")
    ctx.log("trace validation: %d real outcomes of generated cases accepted" % n1)

    # (4) code -> spec: seeded random larger configurations, all judged by trace validation
    ng, nreq = (60, 14) if not T else (600, 20)
    rgroups = [rand_group(ctx.rng, nreq) for _ in range(ng)]
    rreals = execute(ctx, binary, rgroups, "rand")
    rblocks = []
    for g, real in zip(rgroups, rreals):
        if all(o["err"] for o in real["orders"]):
            ctx.notes.append("random configuration refused by BuildEndpointPolicyTree: %s" % real["orders"][0]["err"][:120])
            continue
        if any(o["err"] for o in real["orders"]):
            ctx.notes.append("random configuration refused in some declaration orders only: %s" % [o["err"][:80] for o in real["orders"] if o["err"]][:1])
        ctx.cov["evaluations"] += len(g["orders"]) * len(g["reqs"])
        rblocks.append(events_of(g, real, range(len(g["reqs"]))))
    ctx.sample({"kind": "recorded-trace", "events": rblocks[0][:4]})
    n2 = judge_blocks(ctx, binary, rblocks, "random", "rand")
    ctx.log("trace validation: %d real outcomes of random configurations accepted" % n2)
    if n1 + n2 == 0 and not ctx.violations:
        raise Broken("no real outcome was validated")
    # one reading for the whole implementation: the readings left open by the validation runs must have one in common
    common = set(modeset)
    for fm in getattr(ctx, "c13_final_modes", []):
        common &= fm
    if not common and not ctx.violations:
        ctx.notes.append("the validation runs leave no common reading (%s): judging everything under reading %d" % (
            getattr(ctx, "c13_final_modes", []), min(modeset)))
        ctx.c13_modeset = [min(modeset)]
        judge_blocks(ctx, binary, blocks + rblocks, "one-reading", "one")
        if not ctx.violations:
            raise Broken("no common reading of the open points, but no single outcome rejected under reading %d" % min(modeset))
    ctx.cov["readings_consistent_with_every_outcome"] = sorted(common)

    # (4c) C13 with several dispatches in flight
    storm(ctx, binary)

    # (5) binding self-test (thorough): corrupted recordings must be rejected
    if T:
        selftest(ctx, blocks + rblocks)


def execute_storm(ctx, binary, groups):
    d = ctx.sub("storm")
    inp, outp = os.path.join(d, "groups.ndjson"), os.path.join(d, "out.ndjson")
    with open(inp, "w") as f:
        for g in groups:
            f.write(json.dumps({"decls": [{"m": x["m"], "h": x["h"], "p": x["p"], "t": x["t"], "pl": x.get("pl", "on")} for x in g["decls"]],
                                "orders": g["orders"], "reqs": g["reqs"]}) + "\n")
    ctx.run_harness(binary, ["storm", inp, outp], timeout=900)
    return [json.loads(l) for l in open(outp) if l.strip()]


def storm_events(g, r):
    ev = [{"ev": "group", "decls": [{"m": x["m"], "h": x["h"], "p": x["p"], "r": x["r"], "g": x["g"], "pl": x.get("pl", "on")} for x in g["decls"]]}]
    for rq, outs in zip(g["reqs"], r["outs"]):
        for o in outs:
            ev.append({"ev": "req", "m": rq["m"], "h": rq["h"], "p": rq["p"]})
            ev.append({"ev": "out", "ord": g["orders"][0], "sel": o["sel"], "dsel": o["dsel"],
                       "lk": {"match": o["lk"]["match"], "norm": o["lk"]["norm"], "params": o["lk"]["params"]}})
    return ev


def storm(ctx, binary):
    """C13 with several dispatches in flight: 8 goroutines dispatch the requests of a configuration simultaneously through
    the real getRemedies / getDiagnoses, yield, then read what they were given; every DISTINCT outcome any of them saw
    for a request is judged on its own by the sequential property spec (trace validation)."""
    T = ctx.thorough
    groups = []
    for _ in range(8 if not T else 60):
        g = rand_group(ctx.rng, 12)
        # many different endpoints with something to select: every request hits another declaration
        for d in g["decls"]:
            d["pl"] = "on"
        g["orders"] = g["orders"][:1]
        groups.append(g)
    res = execute_storm(ctx, binary, groups)
    blocks, ndist, nmulti = [], 0, 0
    for g, r in zip(groups, res):
        if r["err"]:
            continue
        ev = [{"ev": "group", "src": len(ctx.__dict__.setdefault("c13_storm_groups", [])),
               "decls": [{"m": x["m"], "h": x["h"], "p": x["p"], "r": x["r"], "g": x["g"], "pl": x["pl"]} for x in g["decls"]]}]
        ctx.c13_storm_groups.append({"decls": g["decls"], "orders": g["orders"], "reqs": g["reqs"]})
        for rq, outs in zip(g["reqs"], r["outs"]):
            nmulti += len(outs) > 1
            for o in outs:
                ndist += 1
                ev.append({"ev": "req", "m": rq["m"], "h": rq["h"], "p": rq["p"]})
                ev.append({"ev": "out", "ord": g["orders"][0], "sel": o["sel"], "dsel": o["dsel"],
                           "lk": {"match": o["lk"]["match"], "norm": o["lk"]["norm"], "params": o["lk"]["params"]}})
        blocks.append(ev)
    if not blocks:
        raise Broken("no configuration of the concurrent-dispatch storm was loaded")
    ctx.cov["evaluations"] += sum(len(g["reqs"]) for g in groups) * 8 * 40
    n = judge_blocks(ctx, binary, blocks, "concurrent-dispatch", "storm", reproduce=False)
    ctx.log("concurrent dispatches: %d configurations, 8 goroutines x 40 rounds, %d distinct outcomes (%d requests with more than one) accepted: %d"
            % (len(blocks), ndist, nmulti, n))


def selftest(ctx, blocks):
    def find(pred):
        for b in blocks:
            for i, e in enumerate(b):
                if e["ev"] == "out" and pred(b, e):
                    return b, i
        raise Broken("self-test: no suitable event recorded")
    results = []
    # (a) the selected remedy replaced by the remedy of another declaration
    b, i = find(lambda b, e: len(e["sel"]) == 1 and len(b[0]["decls"]) >= 2)
    bad = json.loads(json.dumps(b))
    other = [d["r"] for d in bad[0]["decls"] if d["r"] != bad[i]["sel"][0]["r"]][0]
    bad[i]["sel"][0]["r"] = other
    results.append(("remedy swapped", bad))
    # (b) the normalised URL corrupted
    bad = json.loads(json.dumps(b))
    bad[i]["sel"][0]["norm"] += "/zz"
    results.append(("normalised URL corrupted", bad))
    # (c) a path parameter value corrupted
    b2, i2 = find(lambda b, e: len(e["sel"]) == 1 and e["sel"][0]["params"])
    bad = json.loads(json.dumps(b2))
    bad[i2]["sel"][0]["params"][0][1] += "x"
    results.append(("path parameter corrupted", bad))
    # (d) a selection dropped
    bad = json.loads(json.dumps(b))
    bad[i]["sel"] = []
    results.append(("selection dropped", bad))
    # (e) the normalised URL reported by Lookup corrupted
    bad = json.loads(json.dumps(b))
    bad[i]["lk"]["norm"] += "/zz"
    results.append(("Lookup's normalised URL corrupted", bad))
    for name, blk in results:
        n_ok, rej, _ = tlc_validate(ctx, [blk], "selftest", strict=False)
        if not rej:
            raise Broken("self-test: corrupted recording accepted (%s)" % name)
    ctx.notes.append("self-test: %d corrupted recordings rejected (%s)" % (len(results), ", ".join(n for n, _ in results)))


def replay(ctx, path):
    obj = json.load(open(path))
    binary = ctx.build_harness("c13")
    if obj["replay"].get("storm_group"):
        # a concurrent recording: the storm is run again (up to 20 times) on the stored configuration
        g = obj["replay"]["storm_group"]
        for attempt in range(20):
            r = execute_storm(ctx, binary, [g])[0]
            _, rej, _ = tlc_validate(ctx, [storm_events(g, r)], "replay", strict=False)
            if rej:
                print("VIOLATION property=C13 replay=%s" % path)
                print("   rejected (attempt %d): %s" % (attempt + 1, json.dumps(rej[0]["outs"][rej[0]["at"]])[:400]))
                return 1
        print("replay: 20 storms accepted by the specification")
        return 0
    g = obj["replay"]["group"]
    real = execute(ctx, binary, [g], "replay")[0]
    gg = dict(g, decls=[dict(d, r=d.get("r", "d%d" % (i + 1)), g=d.get("g", "g%d" % (i + 1))) for i, d in enumerate(g["decls"])])
    ev = events_of(gg, real, range(len(g["reqs"])))
    for e in ev:
        print(json.dumps(e))
    n_ok, rej, shadow = tlc_validate(ctx, [ev], "replay", strict=False)
    if rej:
        print("VIOLATION property=C13 replay=%s" % path)
        print("   rejected (%s): %s" % (rej[0]["kind"], json.dumps(rej[0]["outs"][rej[0]["at"]])[:400]))
        return 1
    if shadow:
        print("replay accepted only as the recorded finding class %s" % KF_CLASS)
        return 0
    print("replay accepted by the specification")
    return 0
