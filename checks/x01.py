"""X01 - policy-mode dispatch: the life of a transaction through the remedy / diagnosis plugins (growth item; the policy-mode
counterpart of GATEWAY).  Not one of the listed properties: no meta file, `bin/check X01`.

spec:     specs/x01_policy_dispatch  PolicyTxnP (property: a monitor over sets of states, composed from EndpointPolicyP (C13),
          ActionsP (C07), ThrottleP (C09) and the pinning rule of C11), PolicyTxnI (implementation-shaped: composed from
          EndpointPolicyI, ActionsI, ThrottleI + the plugins and the dispatcher), MC_X01 (exhaustive I => P, witnesses, walks),
          PolicyTxnTrace (trace validation)
binding:  harness/cmd/x01 drives the REAL routing.Handler of a policy-mode HandlingDataManager (real accessor from a policies.yaml,
          real plugins, real diagnosis worker, real POST /apply_policies) through histories of requests / responses / reloads /
          clock advances and records what every remedy did, what was answered and what the diagnoses exported
oracle:   TLC only (PolicyTxnTrace: an event is accepted iff the monitor's state set stays non-empty)
"""
import json, os, re, shutil, copy
from vlib import Broken, read_ndjson, write_ndjson, validate_history_trace, parallel, split_histories, tlc_vh_lines, VERIF

SPEC = "x01_policy_dispatch"
LEVEL = "model_checking"
HOST = ["api", "test"]
HOST2 = ["b", "test"]
TTL = 60                      # retention of a pinned version: 30 s in ticks of 500 ms
REUSED = ("c13_endpoint_policy/EndpointPolicyP.tla", "c13_endpoint_policy/EndpointPolicyI.tla", "c07_actions/ActionsP.tla",
          "c07_actions/ActionsI.tla", "c09_policy_throttle/ThrottleP.tla", "c09_policy_throttle/ThrottleI.tla")


# ----------------------------------------------------------------------------- configuration model
def rem(name, k, on=True, st=0, accts=(), acct="-", frm=0, to=0, cd=0, att=0):
    return {"name": name, "on": on, "k": k, "st": st, "accts": list(accts), "acct": acct, "from": frm, "to": to, "cd": cd, "att": att}


def diag(name, k, exp, on=True):
    return {"name": name, "on": on, "exp": exp, "k": k}


def endpoint(m, h, p, rems=(), diags=()):
    return {"m": m, "h": list(h), "p": list(p), "rems": list(rems), "diags": list(diags)}


def version(globals_=(), gdiags=(), endpoints=(), accounts=None, apikeys=None):
    acc = {"-": []}
    acc.update(accounts or {})
    keys = {"-": []}
    keys.update(apikeys or {})
    return {"globals": list(globals_), "gdiags": list(gdiags), "endpoints": list(endpoints), "accounts": acc, "apikeys": keys}


GROUPS = ["-", "g1", "g2", "g3"]


def thr_params(thr):
    """constants of ThrottleP for the throttling remedies {name: dict(w, allowed, def, pct, defpct)}; '-' is a dummy entry"""
    t = {"-": dict(w=2, allowed=1, dflt="none", pct={}, defpct=0)}
    t.update(thr)
    return {"W": {n: x["w"] for n, x in t.items()}, "Allowed": {n: x["allowed"] for n, x in t.items()},
            "DefBehav": {n: x["dflt"] for n, x in t.items()}, "DefPct": {n: x["defpct"] for n, x in t.items()},
            "Pct": {n: {g: x["pct"].get(g, -1) for g in GROUPS} for n, x in t.items()}}


def model(versions, thr):
    return {"versions": versions, "thr": thr_params(thr), "groups": GROUPS, "ttl": TTL, "thrsrc": thr}


def render(h, p):
    return ".".join(h) + ("/" + "/".join(p) if p else "")


# ----------------------------------------------------------------------------- policies.yaml
def to_yaml(o, ind=0):
    sp = "  " * ind
    if isinstance(o, dict):
        if not o:
            return " {}\n"
        s = "\n"
        for k, v in o.items():
            s += "%s%s:%s" % (sp, k, to_yaml(v, ind + 1))
        return s
    if isinstance(o, list):
        if not o:
            return " []\n"
        s = "\n"
        for v in o:
            body = to_yaml(v, ind + 1)
            if body.startswith("\n"):
                lines = body[1:].split("\n")
                first = lines[0][len("  " * (ind + 1)):]
                s += "%s- %s\n" % (sp, first) + "".join(l + "\n" for l in lines[1:] if l)
            else:
                s += "%s-%s" % (sp, body)
        return s
    if isinstance(o, bool):
        return " %s\n" % ("true" if o else "false")
    if isinstance(o, (int, float)):
        return " %s\n" % o
    return " %s\n" % json.dumps(o)


def remedy_yaml(r, thr):
    k = r["k"]
    if k == "fixed":
        cfg = {"fixed_response": {"status_code": r["st"]}}
    elif k == "acct":
        cfg = {"account_orchestration": {"round_robin": r["accts"]}}
    elif k == "auth":
        cfg = {"authentication": {"account": r["acct"]}}
    elif k == "retry":
        cfg = {"retry": {"attempts": r["att"], "initial_cooldown_seconds": r["cd"], "cooldown_multiplier": 2,
                         "conditions": {"status_code": [{"from": r["from"], "to": r["to"]}]}}}
    elif k == "thr":
        t = thr[r["name"]]
        c = {"allowed_request_count": t["allowed"], "window_size_in_seconds": t["w"] // 2}
        if r["st"]:
            c["response_status_code"] = r["st"]
        if t["dflt"] != "none":
            ga = {"group_by": {"header_name": "x-group"},
                  "groups": [{"group_header_value": g, "allocation_percentage": p} for g, p in t["pct"].items()],
                  "default_allocation_percentage": t["defpct"]}
            d = {"allow": "allow", "block": "block", "use_default": "use_default_allocation"}.get(t["dflt"])
            if d:
                ga["default"] = d
            c["group_quota_allocation"] = ga
        cfg = {"strategy_based_throttling": c}
    else:
        raise Broken("unknown remedy kind %r" % k)
    return {"name": r["name"], "enabled": r["on"], "config": cfg}


def diag_yaml(d):
    if d["k"] == "har":
        cfg = {"har_exporter": {"transaction_max_size": 1000000, "obfuscate": {"enabled": False}}}
    else:
        cfg = {"void": {}}
    return {"name": d["name"], "enabled": d["on"], "config": cfg, "export": d["exp"]}


def policies_yaml(v, thr):
    accounts = {}
    for n, toks in v["accounts"].items():
        if n != "-":
            accounts[n] = {"tokens": [{"header": {"name": t[0], "value": t[1]}} for t in toks]}
    for n, toks in v["apikeys"].items():
        if n != "-":
            accounts[n] = {"authentication": {"api_key": {"tokens": [{"name": t[0], "value": t[1]} for t in toks]}}}
    doc = {"global": {"remedies": [remedy_yaml(r, thr) for r in v["globals"]], "diagnosis": [diag_yaml(d) for d in v["gdiags"]]},
           "endpoints": [{"url": render(e["h"], e["p"]), "method": e["m"], "remedies": [remedy_yaml(r, thr) for r in e["rems"]],
                          "diagnosis": [diag_yaml(d) for d in e["diags"]]} for e in v["endpoints"]],
           "accounts": accounts,
           "exporters": {"file": {"file_dir": "/tmp/x01-unused", "file_name": "out"}, "s3": {"bucket_name": "b", "region": "r"},
                         "s3_minio": {"bucket_name": "b", "url": "http://127.0.0.1:9"}}}
    return to_yaml(doc)[1:]


def files_of(cfg):
    return {str(i + 1): policies_yaml(v, cfg["thrsrc"]) for i, v in enumerate(cfg["versions"])}


def public(cfg):
    return {k: v for k, v in cfg.items() if k != "thrsrc"}


# ----------------------------------------------------------------------------- hand-written instances for the exhaustive runs
ACC = {"a1": [["x-key", "ka1"]], "a2": [["x-key", "ka2"]], "b1": [["x-bkey", "kb1"]], "b2": [["x-bkey", "kb2"]], "b3": [["x-bkey", "kb3"]]}
KEYS = {"k1": [["x-auth", "s1"]], "k2": [["x-auth", "s2"]]}


def mc_chain():
    """overlapping endpoints + globals; fixed / acct (two remedies on one chain) / auth / retry; a disabled remedy; diagnoses;
    version 2 changes statuses, the auth account, the retry conditions and drops the diagnoses"""
    v1 = version(
        globals_=[rem("g_acct", "acct", accts=["a1", "a2"]), rem("g_off", "fixed", on=False, st=409), rem("g_retry", "retry", frm=400, to=599, cd=7, att=3)],
        gdiags=[diag("g_har", "har", "s3")],
        endpoints=[endpoint("GET", HOST, ["x", "*"], [rem("e1_fix", "fixed", st=418), rem("e1_auth", "auth", acct="k1")], [diag("e1_void", "void", "file")]),
                   endpoint("GET", HOST, ["x", "{id}"], [rem("e2_acct", "acct", accts=["b1", "b2", "b3"]), rem("e2_off", "fixed", on=False, st=419)], [])],
        accounts=ACC, apikeys=KEYS)
    v2 = version(
        globals_=[rem("g_retry", "retry", frm=500, to=599, cd=9, att=2), rem("g_fix2", "fixed", st=428)],
        gdiags=[diag("g_har", "har", "s3", on=False)],
        endpoints=[endpoint("GET", HOST, ["x", "*"], [rem("e1_auth", "auth", acct="k2")], [diag("e1_har", "har", "file")]),
                   endpoint("GET", HOST, ["x", "{id}"], [rem("e2_acct", "acct", accts=["b1", "b2", "b3"])], [])],
        accounts=ACC, apikeys=KEYS)
    cfg = model([v1, v2], {})
    cfg["mc"] = {"now0": 3, "maxnow": 5, "maxev": 5, "maxtx": 3, "maxap": 1, "steps": [2],
                 "reqs": [{"m": "GET", "h": HOST, "p": ["x", "a", "b"]}, {"m": "GET", "h": HOST, "p": ["x", "7"]}, {"m": "GET", "h": HOST, "p": ["y"]}],
                 "earlies": ["true", ""], "grps": ["-"], "statuses": [200, 500]}
    return cfg


def mc_throttle():
    """throttling on the endpoint and globally (grouped), an answering remedy before and after a throttle, window roll-over"""
    thr = {"e_thr": dict(w=4, allowed=1, dflt="none", pct={}, defpct=0),
           "g_thr": dict(w=8, allowed=2, dflt="block", pct={"g1": 50}, defpct=0)}
    v1 = version(
        globals_=[rem("g_thr", "thr", st=431), rem("g_fix", "fixed", st=418)],
        gdiags=[],
        endpoints=[endpoint("GET", HOST, ["x"], [rem("e_thr", "thr"), rem("e_fix", "fixed", st=417)], [diag("e_void", "void", "s3_minio")]),
                   endpoint("POST", HOST, ["x"], [rem("p_fix", "fixed", st=416)], [])],
        accounts=ACC, apikeys=KEYS)
    cfg = model([v1], thr)
    cfg["mc"] = {"now0": 3, "maxnow": 9, "maxev": 5, "maxtx": 4, "maxap": 0, "steps": [2, 4],
                 "reqs": [{"m": "GET", "h": HOST, "p": ["x"]}, {"m": "GET", "h": HOST, "p": ["z"]}],
                 "earlies": ["true", ""], "grps": ["g1", "g2"], "statuses": [200]}
    return cfg


MC_INSTANCES = {"chain": mc_chain, "throttle": mc_throttle}

# Bug variants of the model I: refuted (TLC must find a violation of Accepted) / accepted (TLC must not)
REFUTED = [("globals_first", "chain"), ("ignore_enabled", "chain"), ("resp_current", "chain"), ("acct_stuck", "chain"),
           ("early_skips_resp", "chain"), ("diag_on_request", "chain"), ("diag_current", "chain"), ("last_early_wins", "throttle")]
ACCEPTED = [("short_circuit", "throttle"), ("acct_per_remedy", "chain"), ("auth_no_memo", "chain")]
# witnesses: invariant that must be VIOLATED on the instance (the situation is reached)
WITNESS = [("PerAlive", "chain"), ("CfgAlive", "chain"), ("NoEarly", "chain"), ("NoEarlyMod", "chain"), ("NoDiag", "chain"),
           ("NoPinnedDiff", "chain"), ("NoBlock", "throttle"), ("NoTwoEarly", "throttle")]


# ----------------------------------------------------------------------------- seeded random configurations and histories
PATTERNS = [["x"], ["x", "{id}"], ["x", "*"], ["x", "a"], ["*"], ["y"], ["y", "*"], ["x", "a", "*"]]
URLS = [["x"], ["x", "a"], ["x", "7"], ["x", "a", "b"], ["x", "7", "c"], ["y"], ["y", "q"], ["z"]]
KINDS = ["fixed", "acct", "thr", "auth", "retry"]
EXPORTS = ["file", "s3", "s3_minio"]


def rand_version(rng, tag, pool):
    """one policies file: 2-4 endpoints with overlapping patterns (+ sometimes a second method / host) and 0-3 globals.
    pool: shared state across the versions of one configuration (throttle parameters by name, status counter)"""
    used = {}                 # (method, first segment) -> remedy kinds used (overlapping endpoints must not share a type)
    eps, names = [], set()

    def fresh(base):
        n = "%s_%s" % (tag, base)
        i = 0
        while n in names:
            i += 1
            n = "%s_%s%d" % (tag, base, i)
        names.add(n)
        return n

    def status():
        pool["st"] += 1
        return pool["st"]

    def make(kind, scope, nthr):
        on = rng.random() < 0.8
        if kind == "fixed":
            return rem(fresh(scope + "fix"), "fixed", on, st=status())
        if kind == "acct":
            n = rng.randint(1, 3)
            fam = rng.choice(["a", "b"])
            accts = rng.sample(["%s%d" % (fam, i) for i in (1, 2, 3)], n)
            return rem(fresh(scope + "acct"), "acct", on, accts=accts)
        if kind == "auth":
            return rem(fresh(scope + "auth"), "auth", on, acct=rng.choice(["k1", "k2", "k3"]))
        if kind == "retry":
            lo = rng.choice([400, 418, 429, 500])
            return rem(fresh(scope + "retry"), "retry", on, frm=lo, to=rng.choice([lo, 499, 599]) if lo < 500 else 599, cd=rng.randint(1, 9), att=rng.choice([0, 2, 3]))
        name = fresh(scope + "thr")
        grouped = rng.random() < 0.4
        pool["thr"][name] = dict(w=rng.choice([4, 8]), allowed=rng.randint(1, 3),
                                 dflt=rng.choice(["allow", "block", "use_default"]) if grouped else "none",
                                 pct={g: rng.choice([34, 50, 100]) for g in rng.sample(["g1", "g2"], rng.randint(1, 2))} if grouped else {},
                                 defpct=rng.choice([34, 50]) if grouped else 0)
        return rem(name, "thr", on, st=rng.choice([0, status()]))

    pats = rng.sample(PATTERNS, rng.randint(2, 4))
    for i, p in enumerate(pats):
        m = "GET" if rng.random() < 0.85 else "POST"
        h = HOST if rng.random() < 0.9 else HOST2
        key = (m, tuple(h), "*" if p[0] == "*" else "any")
        kinds_used = used.setdefault((m, tuple(h)), set())
        avail = [k for k in KINDS if k not in kinds_used]
        ks = rng.sample(avail, min(len(avail), rng.randint(0, 3)))
        kinds_used.update(ks)
        rems = [make(k, "e%d" % i, 0) for k in ks]
        diags = [diag(fresh("e%dd%d" % (i, j)), rng.choice(["har", "void"]), rng.choice(EXPORTS), rng.random() < 0.75)
                 for j in range(rng.choice([0, 0, 1, 1, 2]))]
        eps.append(endpoint(m, h, p, rems, diags))
    gl = [make(k, "g", 0) for k in rng.sample(KINDS, rng.choice([0, 1, 2, 2, 3]))]
    gd = [diag(fresh("gd%d" % j), rng.choice(["har", "void"]), rng.choice(EXPORTS), rng.random() < 0.75) for j in range(rng.choice([0, 0, 1, 2]))]
    return version(gl, gd, eps, None, None)


def rand_config(rng, n):
    pool = {"thr": {}, "st": 410 + 20 * (n % 7)}
    accounts = {"a1": [["x-key", "ka1"]], "a2": [["x-key", "ka2"]], "a3": [["x-key", "ka3"], ["x-org", "o3"]],
                "b1": [["x-bkey", "kb1"]], "b2": [["x-bkey", "kb2"]], "b3": [["x-key", "ka1"]]}     # b3 shares a token with a1
    nv = rng.choice([1, 2, 2, 3])
    vs = []
    for i in range(nv):
        if i > 0 and rng.random() < 0.5:
            # a derived version: the previous file with small edits (statuses, enabled flags, accounts of auth / acct remedies)
            v = copy.deepcopy(vs[-1])
            for r in v["globals"] + [r for e in v["endpoints"] for r in e["rems"]]:
                x = rng.random()
                if x < 0.3:
                    r["on"] = not r["on"]
                elif x < 0.5 and r["k"] == "fixed":
                    pool["st"] += 1
                    r["st"] = pool["st"]
                elif x < 0.6 and r["k"] == "auth":
                    r["acct"] = rng.choice(["k1", "k2", "k3"])
                elif x < 0.7 and r["k"] == "retry":
                    r["cd"] = rng.randint(1, 9)
            for d in v["gdiags"] + [d for e in v["endpoints"] for d in e["diags"]]:
                if rng.random() < 0.3:
                    d["on"] = not d["on"]
            if rng.random() < 0.4 and len(v["endpoints"]) > 1:
                rng.shuffle(v["endpoints"])
            vs.append(v)
        else:
            vs.append(rand_version(rng, "v%d" % (i + 1), pool))
    for v in vs:
        v["accounts"].update(accounts)
        v["apikeys"].update({"k1": [["x-auth", "s1"]], "k2": [["x-auth", "s2"]], "k3": [["x-auth", "s3"], ["x-auth2", "t3"]]})
    return model(vs, pool["thr"])


def rand_history(rng, cfg, n, hid):
    """requests (some answered early), responses of forwarded transactions in any order, reloads, clock advances; < 30 s in all"""
    now = rng.randint(2, 9)
    h = [{"ev": "reset", "now": now}]
    nv = len(cfg["versions"])
    hosts = {tuple(e["h"]) for v in cfg["versions"] for e in v["endpoints"]} | {tuple(HOST)}
    open_tx, k, elapsed, cur = [], 0, 0, 1
    for _ in range(n):
        x = rng.random()
        if x < 0.12 and elapsed < 40:
            d = rng.choice([1, 2, 3, 4, 8])
            elapsed += d
            h.append({"ev": "adv", "d": d})
        elif x < 0.22 and nv > 1:
            cur = rng.choice([v for v in range(1, nv + 1) if v != cur])
            h.append({"ev": "apply", "v": cur, "how": rng.choice(["body", "file"])})
        elif x < 0.72 or not open_tx:
            k += 1
            tid = "t%s_%d" % (hid, k)
            h.append({"ev": "req", "id": tid, "m": "GET" if rng.random() < 0.9 else "POST", "h": list(rng.choice(sorted(hosts))),
                      "p": rng.choice(URLS), "early": rng.choice(["true", "true", "false", ""]), "grp": rng.choice(["-", "-", "g1", "g2", "g3"])})
            open_tx.append(tid)
        else:
            tid = open_tx.pop(rng.randrange(len(open_tx)))
            h.append({"ev": "res", "id": tid, "status": rng.choice([200, 200, 418, 429, 500, 503])})
    return h


# ----------------------------------------------------------------------------- TLC plumbing
def spec_dir(ctx, tag="base"):
    d = os.path.join(ctx.scratch, "spec-x01-" + tag)
    if not os.path.isdir(d):
        os.makedirs(d)
        for sub in (SPEC, "common"):
            for f in os.listdir(os.path.join(VERIF, "specs", sub)):
                shutil.copy(os.path.join(VERIF, "specs", sub, f), d)
        for rel in REUSED:
            shutil.copy(os.path.join(VERIF, "specs", rel), d)
    return d


def mc_run(ctx, inst, bug="none", invariants=("Accepted",), simulate=None, depth=None, label=None, timeout=900, overrides=None, workers=None):
    """one TLC run of MC_X01 on a hand-written instance"""
    tag = "mc-%s-%s-%s" % (inst, bug, "-".join(invariants))
    if simulate:
        tag += "-sim"
    d = spec_dir(ctx, tag)
    cfg = MC_INSTANCES[inst]()
    if overrides:
        cfg["mc"].update(overrides)
    json.dump(public(cfg), open(os.path.join(d, "mc_cfg.json"), "w"))
    cf = "CONSTANTS\n  Bug = \"%s\"\nSPECIFICATION Spec\nVIEW View\nCHECK_DEADLOCK FALSE\n" % bug
    for inv in invariants:
        cf += "INVARIANT %s\n" % inv
    open(os.path.join(d, "MC_run.cfg"), "w").write(cf)
    kw = dict(timeout=timeout, label=label or tag, heap="3g")
    if workers:
        kw["workers"] = workers
    if simulate:
        return ctx.tlc(d, "MC_X01", "MC_run.cfg", workers=1, simulate=simulate, depth=depth, extra=["-seed", str(ctx.seed)], count=False, **{k: v for k, v in kw.items() if k != "workers"}), cfg
    return ctx.tlc(d, "MC_X01", "MC_run.cfg", **kw), cfg


def execute(ctx, binary, scripts, tag):
    d = ctx.sub("run-" + tag)
    sp = os.path.join(d, "scripts.json")
    json.dump(scripts, open(sp, "w"))
    port = str(20000 + (os.getpid() * 7 + len(tag) * 131 + ctx.seed) % 20000)
    last = None
    for attempt in range(4):
        p = ctx.run_harness(binary, ["run", sp, d], timeout=900, check=False,
                            env={"HAPROXY_MANAGE_ENDPOINTS_PORT": port, "LUNAR_HEALTHCHECK_PORT": port, "LOG_LEVEL": "panic"})
        if p.returncode == 0:
            return [read_ndjson(os.path.join(d, "trace-%03d.ndjson" % i)) for i in range(len(scripts))]
        last = p
        if "cannot listen" not in p.stderr:
            break
        port = str(int(port) + 1 + attempt)
    raise Broken("harness failed rc=%d\nstdout: %s\nstderr: %s" % (last.returncode, last.stdout[-1500:], last.stderr[-3000:]))


def validate(ctx, events, tag, max_rounds=3):
    """TLC-validate one trace (config + histories).  Returns (accepted histories, rejected, drift) - rejected: list of
    dict(config, hist, at, clause); drift: number of histories in which the implementation-shaped model predicted another
    event than the one recorded (MODEL-DRIFT, not a verdict).  A rejected history is removed and the rest re-validated."""
    config, hs = split_histories(events)
    rejected, drift = [], 0
    wd = os.path.join(ctx.scratch, "tv-x01-%s" % tag)
    if not os.path.isdir(wd):
        shutil.copytree(spec_dir(ctx), wd)
    rounds = 0
    while hs:
        rounds += 1
        flat = [config] + [e for h in hs for e in h]
        p = os.path.join(wd, "trace.ndjson")
        write_ndjson(p, flat)
        ok, hwm, r = ctx.tlc_trace(wd, "PolicyTxnTrace", p, timeout=900)
        if ok and not r.violated:
            drift += len(re.findall(r'<<"DRIFT"', r.out))
            break
        if hwm < 1:
            raise Broken("trace validation made no progress: %r\n%s" % (r, r.out[-2000:]))
        rl = reject_lines(r.out)
        idx, k = hwm + 1 - 2, 0          # 0-based index of the first unexplained event among the history events
        for hi, h in enumerate(hs):
            if idx < k + len(h):
                rejected.append({"config": config, "hist": h, "at": idx - k, "clause": rl[-1][2] if rl else "?"})
                del hs[hi]
                break
            k += len(h)
        else:
            raise Broken("cannot locate rejected line %d of %d" % (hwm + 1, len(flat)))
        if rounds >= max_rounds:
            break
    return len(hs), rejected, drift


def script_of(cfg, histories):
    return {"config": public(cfg), "files": files_of(cfg), "histories": histories}


def strip(e):
    """script event of a recorded event"""
    if e["ev"] == "reset":
        return {"ev": "reset", "now": e["now"]}
    if e["ev"] == "adv":
        return {"ev": "adv", "d": e["d"]}
    if e["ev"] == "apply":
        return {"ev": "apply", "v": e["v"], "how": e.get("how", "body")}
    if e["ev"] == "req":
        return {"ev": "req", "id": e["id"], "m": e["m"], "h": e["h"], "p": e["p"], "early": e["early"], "grp": e["grp"]}
    return {"ev": "res", "id": e["id"], "status": e["status"]}


def reject_lines(out):
    return re.findall(r'<<"REJECT",\s*(\d+),\s*"([^"]*)",\s*"([^"]*)">>', out)


def judge(ctx, binary, scripts, traces, tag, stats):
    """TLC judges every recorded trace; a rejection is re-executed before it counts"""
    def one(it):
        i, ev = it
        return validate(ctx, ev, "%s%d" % (tag, i))
    res = parallel(one, list(enumerate(traces)), n=8)
    for (acc, rejected, drift), ev, sc in zip(res, traces, scripts):
        cfg, hs = split_histories(ev)
        stats["histories"] += acc
        stats["drift"] += drift
        for h in hs:
            stats["events"] += len(h)
            stats["transactions"] += len([e for e in h if e["ev"] in ("req", "res")])
            if any(e["ev"] == "req" and e["out"]["early"] and e["hasra"] for e in h) and any(e["ev"] == "res" and e["diag"] for e in h):
                stats["nontrivial"] += 1
        for rej in rejected:
            stats["rejected"] += 1
            if len(ctx.violations) + len(ctx.known_hits) >= 3:
                continue                        # the first rejections are re-executed and reported; the rest is counted
            e = rej["hist"][min(rej["at"], len(rej["hist"]) - 1)]
            script = {"config": sc["config"], "files": sc["files"], "histories": [[strip(x) for x in rej["hist"]]]}
            t2 = execute(ctx, binary, [script], "repro")[0]
            shutil.rmtree(os.path.join(ctx.scratch, "tv-x01-repro"), ignore_errors=True)
            _, r2, _ = validate(ctx, t2, "repro", max_rounds=1)
            if not r2:
                raise Broken("rejection not reproduced: %s" % json.dumps({k: v for k, v in e.items() if k not in ("seq", "rseq", "out")})[:600])
            w = {"class": "history-rejected-by-PolicyTxnP", "clause": rej["clause"],
                 "event": {k: v for k, v in e.items() if k in ("ev", "id", "m", "h", "p", "early", "grp", "status", "v")},
                 "seq": [(a["k"], a["st"], a["h"]) for a in e.get("seq", [])][:8], "rseq": [(a["k"], a["h"]) for a in e.get("rseq", [])][:8],
                 "answer": {k: e.get("out", {}).get(k) for k in ("early", "st", "rh", "qh")}, "active": e.get("active"), "diag": e.get("diag")}
            ctx.violation(w, {"script": script, "trace": [rej["config"]] + rej["hist"], "rejected_at": rej["at"]})


# ----------------------------------------------------------------------------- the check
def model_jobs(ctx):
    """all TLC runs on the hand-written instances: exhaustive I => P, variants of I that must be refuted / accepted, witnesses,
    and the -simulate walks for the replay; run side by side in one pool"""
    T = ctx.thorough
    quick = {"chain": {"maxev": 5}, "throttle": {"maxev": 5}}
    deep = {"chain": {"maxev": 6, "maxtx": 4, "maxnow": 7}, "throttle": {"maxev": 7, "maxtx": 5}}
    jobs = [("I=>P", inst, "none", ("Accepted",), (deep if T else quick)[inst]) for inst in MC_INSTANCES]
    jobs += [("walks", inst, "none", ("Accepted", "Emit"), {"maxev": 8, "maxtx": 6, "maxap": 2, "maxnow": 30}) for inst in MC_INSTANCES]
    jobs += [("accepted-variant", inst, bug, ("Accepted",), {}) for bug, inst in (ACCEPTED if T else ACCEPTED[:1])]
    jobs += [("refuted-variant", inst, bug, ("Accepted",), {}) for bug, inst in REFUTED]
    jobs += [("witness", inst, "none", (inv,), {}) for inv, inst in WITNESS]
    nw = 40 if not T else 400

    def one(job):
        kind, inst, bug, invs, ov = job
        if kind == "walks":
            return job, mc_run(ctx, inst, bug, invs, simulate="num=%d" % nw, depth=12, overrides=ov, label="walks " + inst)
        return job, mc_run(ctx, inst, bug, invs, label="%s %s %s %s" % (kind, inst, bug, invs[0]), overrides=ov,
                           workers=2 if kind in ("refuted-variant", "witness") else (8 if T else 4), timeout=1500 if T else 600)
    res = parallel(one, jobs, n=6 if T else 8)
    scripts = []
    for (kind, inst, bug, invs, ov), (r, cfg) in res:
        if kind == "walks":
            if r.violated or r.error:
                raise Broken("walk generation %s: %r\n%s" % (inst, r, r.out[-2000:]))
            hs = tlc_vh_lines(r.out)[:nw]
            if len(hs) < nw // 4:
                raise Broken("only %d walks generated for %s" % (len(hs), inst))
            hist = [[{"ev": "reset", "now": cfg["mc"]["now0"]}] + [dict(x["in"], how="body") if x["in"]["ev"] == "apply" else x["in"] for x in w] for w in hs]
            scripts.append(script_of(cfg, hist))
        elif kind in ("I=>P", "accepted-variant"):
            if not r.ok:
                raise Broken("TLC %s %s/%s: %r\n%s" % (kind, inst, bug, r, r.out[-3000:]))
            if r.distinct <= 1:
                raise Broken("TLC %s %s explored a trivial state space" % (kind, inst))
            if kind == "I=>P":
                ctx.cov["states"] += r.distinct
                ctx.cov["transitions"] += r.generated
            ctx.log("TLC %s %s/%s: %d generated / %d distinct, depth %d, %.1fs" % (kind, inst, bug, r.generated, r.distinct, r.depth, r.wall))
        else:
            if r.violated != invs[0]:
                raise Broken("non-vacuity: %s %s/%s %s was not violated (%r)\n%s" % (kind, inst, bug, invs[0], r, r.out[-2000:]))
    ctx.log("TLC: %d broken variants of I refuted, %d witnesses reached" % (len(REFUTED), len(WITNESS)))
    return scripts


def run(ctx):
    T = ctx.thorough
    binary = ctx.build_harness("x01")
    spec_dir(ctx)
    ctx.cov["rule"] = ("histories of requests / responses / apply_policies / clock advances on one real policy-mode engine per seeded random "
                       "configuration (1-3 policy files, 2-4 endpoints with overlapping patterns + globals; fixed_response, account_orchestration, "
                       "strategy_based_throttling, authentication, retry remedies, some disabled; har / void diagnoses); non-trivial = a history with "
                       "an early response modified by the response side and a diagnosed response")
    ctx.cov["checker_cmd"] = "tlc MC_X01 (exhaustive I => P, witnesses, -simulate walks); tlc -config PolicyTxnTrace.cfg PolicyTxnTrace.tla"
    ctx.cov["trusted_base"] = ["TLC 1.8", "EndpointPolicyP / ActionsP / ThrottleP as checked by C13 / C07 / C09",
                               "harness/cmd/x01 projections (action kinds, decoded SPOE variables, exporter name of an exported message)",
                               "loopback fake of the HAProxy admin API"]
    ctx.assumptions += ["one tick = 500 ms; histories stay inside the 30 s retention of a pinned version", "sequential histories",
                        "every transaction is a new sequence (retry state of C17 not composed)", "api_key authentication only",
                        "patterns of depth <= 3 without the shadowed-best-pattern situation of C13's open finding"]
    stats = {"histories": 0, "events": 0, "transactions": 0, "nontrivial": 0, "drift": 0, "rejected": 0}

    # seeded random configurations and histories are recorded while TLC works on the model
    ncfg, nh, hl = (20, 6, 20) if not T else (100, 16, 30)
    cfgs = [rand_config(ctx.rng, n) for n in range(ncfg)]
    scripts = [script_of(c, [rand_history(ctx.rng, c, hl, "%d_%d" % (n, i)) for i in range(nh)]) for n, c in enumerate(cfgs)]
    both = parallel(lambda f: f(), [lambda: model_jobs(ctx), lambda: execute(ctx, binary, scripts, "rand")], n=2)
    wscripts, traces = both
    ctx.log("model checked, %d random configurations recorded" % len(traces))

    wtraces = execute(ctx, binary, wscripts, "walks")
    judge(ctx, binary, wscripts, wtraces, "w", stats)
    nwalks = stats["histories"]
    ctx.log("walks replayed and judged: %d histories, %d events" % (stats["histories"], stats["events"]))

    keep = [i for i, t in enumerate(traces) if not any(e.get("ev") == "loadfail" for e in t)]
    ctx.notes.append("%d of %d random configurations were rejected by the policies validator and skipped" % (len(traces) - len(keep), len(traces)))
    traces, scripts = [traces[i] for i in keep], [scripts[i] for i in keep]
    if len(traces) < ncfg // 2:
        raise Broken("only %d of %d random configurations loaded" % (len(traces), ncfg))
    ctx.sample({"kind": "policy-mode history", "events": [{k: v for k, v in e.items() if k not in ("out",)} for e in split_histories(traces[0])[1][0][:4]]})
    judge(ctx, binary, scripts, traces, "r", stats)
    ctx.log("random histories judged: %d histories, %d events, %d transactions in all" % (stats["histories"], stats["events"], stats["transactions"]))

    if T:
        selftest(ctx, traces)

    ctx.cov["traces_validated_against_impl"] = stats["histories"]
    ctx.cov["evaluations"] = stats["transactions"]
    ctx.cov["distinct_nontrivial"] = stats["nontrivial"]
    ctx.cov["exhaustive"] = True
    ctx.cov["model_drift"] = stats["drift"] > 0
    ctx.notes.append("walks replayed: %d; recorded events judged: %d; histories on which the model I predicted another event than recorded: %d"
                     % (nwalks, stats["events"], stats["drift"]))
    if stats["rejected"]:
        ctx.notes.append("%d histories rejected by the specification (the first ones re-executed and reported)" % stats["rejected"])
    if stats["nontrivial"] < 3 and not ctx.violations:
        raise Broken("vacuous run: only %d non-trivial histories" % stats["nontrivial"])


def selftest(ctx, traces):
    """binding self-test: a corrupted field / a dropped event must be rejected"""
    done = {"corrupt": False, "drop": False}
    for tr in traces:
        cfg, hs = split_histories(tr)
        for h in hs:
            idx = [i for i, e in enumerate(h) if e["ev"] == "req" and e["out"]["early"]]
            if idx and not done["corrupt"]:
                h2 = copy.deepcopy(h)
                h2[idx[0]]["out"]["st"] += 1
                shutil.rmtree(os.path.join(ctx.scratch, "tv-x01-self"), ignore_errors=True)
                _, rej, _ = validate(ctx, [cfg] + h2, "self", max_rounds=1)
                if not rej:
                    raise Broken("self-test: a corrupted status was accepted")
                done["corrupt"] = True
            reqs = [i for i, e in enumerate(h) if e["ev"] == "req"]
            idx = [i for i in reqs if any(a["k"] == "early" and a["b"] == "Too many requests" for a in h[i]["seq"])]
            if idx and reqs and idx[0] > reqs[0] and not done["drop"]:
                # drop the requests before the first throttled one: the refusal is then not explained
                h2 = [e for i, e in enumerate(h) if not (i < idx[0] and e["ev"] == "req")]
                ids = {x["id"] for x in h2 if x["ev"] == "req"}
                h2 = [e for e in h2 if not (e["ev"] == "res" and e["id"] not in ids)]
                shutil.rmtree(os.path.join(ctx.scratch, "tv-x01-self"), ignore_errors=True)
                _, rej, _ = validate(ctx, [cfg] + h2, "self", max_rounds=1)
                if rej:
                    done["drop"] = True
            if all(done.values()):
                ctx.notes.append("binding self-test: corrupted status rejected, dropped requests rejected")
                return
    if not done["corrupt"]:
        raise Broken("self-test could not be run (no early response recorded)")
    if not done["drop"]:
        raise Broken("self-test: no history in which dropping the earlier requests makes a throttling verdict inexplicable was rejected")


def replay(ctx, path):
    obj = json.load(open(path))
    binary = ctx.build_harness("x01")
    spec_dir(ctx)
    t = execute(ctx, binary, [obj["replay"]["script"]], "replay")[0]
    _, rej, _ = validate(ctx, t, "replay", max_rounds=1)
    if rej:
        print("VIOLATION property=X01 replay=%s" % path)
        print("   clause: %s" % rej[0]["clause"])
        return 1
    print("replay accepted by the specification")
    return 0
