"""X03 - quota spillover and monthly renewal (growth beyond the listed properties; C01 and C09 run with spillover off).

spec:     specs/x03_spillover
            policy mode  SpilloverThrottleP (property), SpilloverThrottleI (single_rate_limit_state.go), SpilloverThrottleIP (product,
                         abstract calendar), SpilloverThrottleTrace, GenX03 / GenX03g
            flows mode   SpilloverFwP (property, set of permitted bookkeeping states), SpilloverFwI (quota.Inc + AtomicIncWindow),
                         SpilloverFwIP, SpilloverFwTrace, GenX03fw
binding:  harness/cmd/x03   policy: real StrategyBasedThrottlingPlugin.OnRequest + limit.RateLimitState (Counters = metric read)
                            flows:  real streams.Stream built from quota YAML with `spillover` / `monthly_renewal`
          both on the mock clock, 1 tick = 1 s, instants from 2023-02-16 00:00 UTC on (real calendar: day of month, month ends).
"""
import json, os, shutil
from vlib import Broken, read_ndjson, validate_history_trace, parallel, tlc_vh_lines, split_histories

SPEC = "x03_spillover"
LEVEL = "model_checking"
HEADER = "x-group"
COST_HEADER = "x-cost"
DAY = 86400

POLICY_BROKEN = ["add_all", "no_first", "renew_ne", "no_share", "assign", "no_renew"]
POLICY_BENIGN = ["gap_full"]
FW_BROKEN = ["nocap", "wrong_key", "ge0"]
FW_BENIGN = ["accumulate", "accumulate3"]


# --------------------------------------------------------------------------- TLC runs (each in its own copy of the spec dir)
def tlc_jobs(ctx, jobs, n=6):
    """jobs: (module, cfg, expect, label) with expect in 'ok' | 'violated'.  Exhaustive 'ok' runs count as coverage."""
    sd = ctx.spec_dir(SPEC)

    def one(job):
        module, cfg, expect, label = job
        d = os.path.join(ctx.scratch, "mc-" + cfg.replace(".cfg", ""))
        if not os.path.isdir(d):
            shutil.copytree(sd, d)
        r = ctx.tlc(d, module, cfg, workers=2 if not ctx.thorough else 4, timeout=1500, label=label, heap="2g")
        return job, r
    for (module, cfg, expect, label), r in parallel(one, jobs, n=n):
        if expect == "ok":
            if not r.ok:
                raise Broken("TLC %s/%s (%s): %r\n%s" % (module, cfg, label, r, r.out[-3000:]))
            if r.distinct <= 1:
                raise Broken("TLC %s/%s explored a trivial state space" % (module, cfg))
            ctx.cov["states"] += r.distinct
            ctx.cov["transitions"] += r.generated
            ctx.log("TLC %s %s: %d generated / %d distinct, depth %d, %.1fs  [%s]" % (module, cfg, r.generated, r.distinct, r.depth, r.wall, label))
        else:
            if r.violated is None:
                raise Broken("vacuous: %s/%s (%s) must be refuted by TLC but was not: %r\n%s" % (module, cfg, label, r, r.out[-1500:]))


# --------------------------------------------------------------------------- policy mode: scripts
PWINDOWS = [1, 1, 2, 3, 5, 7, 60, 3600, DAY]


def p_rand_config(rng, thorough):
    if rng.random() < 0.35:
        groups = ["a", "b"] if rng.random() < 0.7 else ["a", "b", "c"]
        pct = {g: rng.choice([50, 34, 25, 100, 10, 75, 1, 66]) for g in groups}
    else:
        groups, pct = ["-"], {"-": 100}
    a = rng.choice([1, 2, 2, 3, 5] + ([20, 50] if thorough or rng.random() < 0.3 else []))
    return {"groups": groups, "Pct": pct, "A": a, "W": rng.choice(PWINDOWS),
            "RenewDay": rng.choice([0, 17, 17, 18, 18, 19, 28, 1, 31, 29])}


def p_rand_history(rng, cfg, n):
    w, a = cfg["W"], cfg["A"]
    now = max(0, rng.choice([rng.randint(0, 20), DAY - rng.randint(1, 10), rng.randint(0, 3 * DAY), 2 * DAY - rng.randint(0, 3 * w)]))
    h = [{"ev": "reset", "now": now}]
    hot = rng.choice(cfg["groups"])
    for _ in range(n):
        x = rng.random()
        g = hot if rng.random() < 0.75 else rng.choice(cfg["groups"])
        if x < 0.33:
            h.append({"ev": "req", "g": g})
        elif x < 0.55:
            h.append({"ev": "burst", "g": g, "n": a + rng.randint(0, a + 3)})
        elif x < 0.63:
            h.append({"ev": "read"})
        else:
            d = rng.choice([1, 1, w - 1, w, w, w + 1, w - now % w, 2 * w, 3 * w + 1, rng.randint(1, 5 * w),
                            DAY - now % DAY, DAY - now % DAY - 1, DAY, DAY * rng.randint(1, 3), DAY * 28, DAY * 31])
            d = max(1, d)
            now += d
            h.append({"ev": "adv", "d": d})
    return h


def p_midnight_history(rng, cfg):
    """every window around the midnight that begins the renewal day is visited (request, burst or metric read), so no window is
    skipped and the specification is exact about what may be held when the renewal day begins and while it lasts"""
    w, a = cfg["W"], cfg["A"]
    mid = DAY * (cfg["RenewDay"] - 16)
    k = rng.randint(2, 5)
    now = max(0, mid - k * w + rng.randint(0, w - 1))
    h = [{"ev": "reset", "now": now}]
    g = rng.choice(cfg["groups"])
    for i in range(k + rng.randint(1, 4)):
        x = rng.random()
        if i == 0 or x < 0.45:
            h.append({"ev": "req", "g": g})
        elif x < 0.65:
            h.append({"ev": "burst", "g": g, "n": rng.randint(1, a + 2)})
        elif x < 0.85:
            h.append({"ev": "read"})
        else:
            h.append({"ev": "burst", "g": g, "n": 2 * a + 4})
        now += w
        h.append({"ev": "adv", "d": w})
    h.append({"ev": "burst", "g": g, "n": 3 * a + 6})
    return h


def p_script_of_history(hist):
    out = []
    for e in hist:
        if e["ev"] == "reset":
            out.append({"ev": "reset", "now": e["now"]})
        elif e["ev"] == "adv":
            out.append({"ev": "adv", "d": e["d"]})
        elif e["ev"] == "req":
            out.append({"ev": "req", "g": e["g"]})
        elif e["ev"] == "batch":
            out.append({"ev": "burst", "g": e["g"], "n": e["n"]})
        elif e["ev"] == "read":
            out.append({"ev": "read"})
    return out


def p_nontrivial(hist):
    """a policy history exercises spillover when, after a clock advance, some window let more than the allowance pass or a
    request was blocked (budget used up) - judged from what the code answered (bookkeeping for the evidence only)."""
    adv = False
    for e in hist:
        if e["ev"] == "adv":
            adv = True
        elif adv and (e.get("out") == "block" or (e["ev"] == "batch" and e["passes"] < e["n"])):
            return True
    return False


# --------------------------------------------------------------------------- flows mode: configuration -> YAML
UNITS = {"second": 1, "minute": 60, "hour": 3600, "day": DAY, "month": 30 * DAY}

FLOW = """name: flow_%(q)s
filter:
  url: api.test/%(q)s
processors:
  Limiter_%(q)s:
    processor: Limiter
    parameters:
      - key: quota_id
        value: %(q)s
  TooMany_%(q)s:
    processor: GenerateResponse
    parameters:
      - key: status
        value: 429
      - key: body
        value: Too Many Requests
      - key: Content-Type
        value: text/plain
flow:
  request:
    - from:
        stream:
          name: globalStream
          at: start
      to:
        processor:
          name: Limiter_%(q)s
    - from:
        processor:
          name: Limiter_%(q)s
          condition: above_limit
      to:
        processor:
          name: TooMany_%(q)s
    - from:
        processor:
          name: Limiter_%(q)s
          condition: below_limit
      to:
        stream:
          name: globalStream
          at: end
  response:
    - from:
        processor:
          name: TooMany_%(q)s
      to:
        stream:
          name: globalStream
          at: end
"""


def f_files(c):
    """c: Max, interval, unit, grouped, custom, spill (None | max), renew (None | {day,hour,minute})"""
    name = "fixed_window_custom_counter" if c["custom"] else "fixed_window"
    ql = ["quotas:", "  - id: q1", "    filter:", "      url: api.test/*", "    strategy:", "      %s:" % name,
          "        max: %d" % c["Max"], "        interval: %d" % c["interval"], "        interval_unit: %s" % c["unit"]]
    if c["grouped"]:
        ql.append("        group_by_header: %s" % HEADER)
    if c["custom"]:
        ql.append("        counter_value_path: '$.request.headers[\"%s\"]'" % COST_HEADER)
    if c["renew"]:
        ql += ["        monthly_renewal:", "          day: %d" % c["renew"]["day"], "          hour: %d" % c["renew"]["hour"],
               "          minute: %d" % c["renew"]["minute"], "          timezone: UTC"]
    if c["spill"] is not None:
        ql += ["        spillover:", "          max: %d" % c["spill"]]
    return {"quotas/quotas.yaml": "\n".join(ql) + "\n", "flows/flow_q1.yaml": FLOW % {"q": "q1"}}


def f_script(c, histories):
    model = {"groups": ["a", "b", "default"], "grouped": c["grouped"], "Max": c["Max"], "W": c["interval"] * UNITS[c["unit"]],
             "SpillOn": c["spill"] is not None, "SpillMax": c["spill"] or 0}
    s = {"config": model, "files": f_files(c), "header": HEADER, "cost_header": COST_HEADER if c["custom"] else "",
         "histories": histories, "src": c}
    if c["renew"]:
        s["renew"] = c["renew"]
    return s


def f_rand_config(rng, thorough):
    custom = rng.random() < 0.3
    spill = rng.choice([1, 2, 3, 10]) if rng.random() < 0.85 else None
    unit, interval = rng.choice([("second", 1), ("second", 2), ("second", 3), ("second", 5), ("minute", 1), ("hour", 1),
                                 ("day", 1), ("month", 1), ("month", 2)])
    renew = {"day": rng.choice([1, 10, 17, 17, 18, 28]), "hour": rng.choice([0, 0, 5]), "minute": rng.choice([0, 30])}
    if spill is None and rng.random() < 0.5:
        renew = None
    if custom and rng.random() < 0.5:
        renew = None      # the loader demands monthly_renewal with spillover for fixed_window only
    return {"Max": rng.choice([1, 2, 2, 3, 5]), "interval": interval, "unit": unit, "grouped": rng.random() < 0.5,
            "custom": custom, "spill": spill, "renew": renew}


def f_rand_history(rng, c, n):
    w = c["interval"] * UNITS[c["unit"]]
    now = rng.choice([rng.randint(0, 20), DAY - rng.randint(1, 10), rng.randint(0, 3 * DAY)])
    h = [{"ev": "reset", "now": now}]
    hot = rng.choice(["a", "b", "default"])
    costs = [1] if not c["custom"] else [1, 1, 1, 2, 3, 0]
    for _ in range(n):
        x = rng.random()
        if x < 0.58:
            g = hot if rng.random() < 0.75 else rng.choice(["a", "b", "default"])
            h.append({"ev": "arrive", "q": "q1", "g": g, "cost": rng.choice(costs)})
        elif x < 0.62:
            h.append({"ev": "resetin", "q": "q1"})
        else:
            d = rng.choice([1, 1, w - 1, w, w, w + 1, 2 * w, 2 * w + 1, 3 * w + 1, rng.randint(1, 4 * w),
                            DAY - now % DAY, DAY, 3 * DAY, 30 * DAY, 31 * DAY])
            d = max(1, d)
            now += d
            h.append({"ev": "adv", "d": d})
    return h


def f_script_of_history(hist):
    out = []
    for e in hist:
        if e["ev"] == "adv":
            out.append({"ev": "adv", "d": e["d"]})
        else:
            out.append({k: v for k, v in e.items() if k != "out"})
    return out


def f_nontrivial(hist):
    """a flows history exercises the property when a request was refused and, after a clock advance, one was admitted."""
    refused = adv = False
    for e in hist:
        if e.get("out") == "refuse":
            refused = True
        elif e["ev"] == "adv" and refused:
            adv = True
        elif e.get("out") == "admit" and adv:
            return True
    return False


# --------------------------------------------------------------------------- what the recorded histories reached (bookkeeping)
def p_stats(cfg, hist, st):
    """counts, from what the code answered: windows of a key in which more than its plain share passed (spillover was used),
    requests answered on the renewal day after such a window, windows skipped without traffic, metric reads"""
    now, dom, per, over = 0, 0, {}, False
    for e in hist:
        if e["ev"] == "reset":
            now, dom = e["now"], e["dom"]
        elif e["ev"] == "adv":
            now, dom = now + e["d"], e["dom"]
            if e["d"] >= 2 * cfg["W"]:
                st["policy_advances_skipping_windows"] += 1
            if e["crossed"]:
                st["policy_advances_touching_renewal_day"] += 1
        elif e["ev"] == "read":
            st["policy_metric_reads"] += 1
        elif e["ev"] in ("req", "batch"):
            k = (e["g"], now // cfg["W"])
            p = e["passes"] if e["ev"] == "batch" else (1 if e["out"] == "pass" else 0)
            per[k] = per.get(k, 0) + p
            share = -(-cfg["A"] * cfg["Pct"][e["g"]] // 100)
            if per[k] > share and p > 0:
                st["policy_passes_beyond_plain_share"] += 1
                over = True
            if over and dom == cfg["RenewDay"]:
                st["policy_requests_on_renewal_day_after_spillover"] += 1


def f_stats(cfg, hist, st):
    refused = False
    for e in hist:
        if e["ev"] == "adv":
            if e.get("renew"):
                st["flows_advances_over_renewal_instant"] += 1
            if e["d"] >= cfg["W"]:
                st["flows_advances_of_a_window_or_more"] += 1
        elif e["ev"] == "arrive":
            if e["out"] == "refuse":
                refused = True
                st["flows_refusals"] += 1
            if cfg["SpillOn"]:
                st["flows_requests_on_quota_with_spillover"] += 1


# --------------------------------------------------------------------------- execution + judgement
MODES = {
    "policy": {"trace": "SpilloverThrottleTrace", "script_of": p_script_of_history, "nontrivial": p_nontrivial, "stats": p_stats,
               "count": lambda e: e.get("n", 1) if e["ev"] in ("req", "batch") else 0},
    "flows": {"trace": "SpilloverFwTrace", "script_of": f_script_of_history, "nontrivial": f_nontrivial, "stats": f_stats,
              "count": lambda e: 1 if e["ev"] == "arrive" else 0},
}


def execute(ctx, binary, mode, scripts, tag):
    d = ctx.sub("run-%s-%s" % (mode, tag))
    sp = os.path.join(d, "scripts.json")
    json.dump(scripts, open(sp, "w"))
    ctx.run_harness(binary, [mode, sp, d])
    return [read_ndjson(os.path.join(d, "trace-%03d.ndjson" % i)) for i in range(len(scripts))]


def witness_of(mode, rej, tag=""):
    h, at = rej["hist"], rej["at"]
    now = 0
    for e in h[: at + 1]:
        if e["ev"] == "reset":
            now = e["now"]
        elif e["ev"] == "adv":
            now += e["d"]
    return {"class": "%s-verdict-not-allowed-by-spec" % mode, "mode": mode, "found_by": tag, "event": h[at], "now": now,
            "config": rej["config"], "invariant": rej.get("invariant")}


def judge(ctx, binary, mode, scripts, traces, tag, seen):
    m = MODES[mode]

    def one(it):
        i, ev = it
        return validate_history_trace(ctx, SPEC, m["trace"], ev, tag="%s-%s%d" % (mode, tag, i))
    res = parallel(one, list(enumerate(traces)), n=8)
    for (acc, rejected, rounds), ev, sc in zip(res, traces, scripts):
        cfg, hs = split_histories(ev)
        ctx.cov["traces_validated_against_impl"] += acc
        for h in hs:
            for e in h:
                if str(e.get("out", "")).startswith(("error", "other", "block-status")):
                    raise Broken("harness: unexpected answer of the real code: %s" % json.dumps(e))
            ctx.cov["evaluations"] += sum(m["count"](e) for e in h)
            key = json.dumps([mode, cfg, h], sort_keys=True)
            if key not in seen:
                seen.add(key)
                if m["nontrivial"](h):
                    ctx.cov["distinct_nontrivial"] += 1
                m["stats"](cfg, h, ctx.cov["reached"])
        for rej in rejected:
            w = witness_of(mode, rej, tag)
            script = dict(sc)
            script["histories"] = [m["script_of"](rej["hist"])]
            t2 = execute(ctx, binary, mode, [script], "%s-repro" % tag)[0]
            _, r2, _ = validate_history_trace(ctx, SPEC, m["trace"], t2, tag="%s-%s-repro" % (mode, tag), max_rounds=1)
            if not r2:
                raise Broken("rejection not reproduced (%s %s): %s" % (mode, tag, json.dumps(w)))
            ctx.violation(w, {"mode": mode, "script": script, "trace": [rej["config"]] + rej["hist"], "rejected_at": rej["at"]})


def walks(ctx, binary, module, cfg, mode, make_script, n, seen, tag):
    """spec -> code: -simulate walks of the product (the verdicts are the implementation model's); replayed into the real code,
    the real answers judged by TLC; a difference between the model's and the real verdict is MODEL-DRIFT, not a verdict."""
    sd = ctx.spec_dir(SPEC)
    d = os.path.join(ctx.scratch, "gen-" + tag)
    if not os.path.isdir(d):
        shutil.copytree(sd, d)
    g = ctx.tlc(d, module, cfg, workers=1, simulate="num=%d" % n, depth=32, extra=["-seed", str(ctx.seed)], timeout=600,
                label="behaviour generation " + tag)
    bs = tlc_vh_lines(g.out)
    if len(bs) < n // 2:
        raise Broken("behaviour generation %s produced %d walks: %s" % (tag, len(bs), g.out[-1500:]))
    hists = []
    for b in bs:
        h = []
        for e in b:
            e = {k: v for k, v in e.items() if k != "out"}
            if e["ev"] == "arrive":
                e["q"] = "q1"
            h.append(e)
        hists.append(h)
    script = make_script(hists)
    traces = execute(ctx, binary, mode, [script], "gen-" + tag)
    _, real = split_histories(traces[0])
    drift = 0
    for b, h in zip(bs, real):
        if any(se.get("out") != re_.get("out") for se, re_ in zip(b[1:], h[1:]) if "out" in se):
            drift += 1
    ctx.log("%s: replayed %d TLC walks, %d differ from the implementation model's verdicts" % (tag, len(bs), drift))
    if drift:
        ctx.cov["model_drift"] = True
        ctx.notes.append("MODEL-DRIFT %s: %d of %d walks answered differently from the implementation model (the property spec still judges)" % (tag, drift, len(bs)))
    if len(ctx.cov["samples"]) < 2:
        ctx.sample({"kind": "tlc-walk " + tag, "events": bs[0][:10]})
    judge(ctx, binary, mode, [script], traces, "gen-" + tag, seen)


# --------------------------------------------------------------------------- documented-vs-observed probes (bookkeeping only)
def probes(ctx, binary, seen):
    """fixed scripts for the documented scenarios; the traces are judged by TLC like all others (P accepts both readings);
    python only writes down what the code answered, for the report."""
    P1 = {"groups": ["-"], "Pct": {"-": 100}, "A": 2, "W": 1, "RenewDay": 0}
    ps = [
        # documented scenario (integration feature): 1 request, next window 3 pass + 429
        {"config": P1, "histories": [[{"ev": "reset", "now": 5}, {"ev": "req", "g": "-"}, {"ev": "adv", "d": 1}, {"ev": "burst", "g": "-", "n": 4}]]},
        # D1: three windows without traffic
        {"config": P1, "histories": [[{"ev": "reset", "now": 5}, {"ev": "burst", "g": "-", "n": 2}, {"ev": "adv", "d": 4}, {"ev": "burst", "g": "-", "n": 12}]]},
        # D2: renewal day (18th) passes without traffic; one-day windows, spillover 1 held on the 17th
        {"config": dict(P1, W=DAY, RenewDay=18), "histories": [[{"ev": "reset", "now": 5}, {"ev": "req", "g": "-"}, {"ev": "adv", "d": DAY}, {"ev": "read"},
                                                                {"ev": "adv", "d": 2 * DAY}, {"ev": "burst", "g": "-", "n": 9}]]},
        # D3: two groups of 50 % each using their full share every window
        {"config": {"groups": ["a", "b"], "Pct": {"a": 50, "b": 50}, "A": 2, "W": 1, "RenewDay": 0},
         "histories": [[{"ev": "reset", "now": 5}] + sum([[{"ev": "burst", "g": "a", "n": 4}, {"ev": "burst", "g": "b", "n": 4}, {"ev": "adv", "d": 1}] for _ in range(4)], [])]},
    ]
    tr = execute(ctx, binary, "policy", ps, "probe")
    judge(ctx, binary, "policy", ps, tr, "probe", seen)
    b = [[e for e in t if e["ev"] == "batch"] for t in tr]
    obs = {
        "documented scenario (2 per 1 s; 1 request, then 4 in the next window)": "passes=%d (documented: 3)" % b[0][0]["passes"],
        "D1 three windows without traffic after a full one (allowed 2)": "passes=%d (S2: 2 + 3x2 = 8; the code credits skipped windows only when the metric is read)" % b[1][1]["passes"],
        "D2 renewal day passes without traffic (one-day windows, spillover 1 held before)": "passes=%d (S5: at most 2 + 2 for the idle renewal day itself; 5 = the spillover of the 17th survived the renewal day)" % b[2][0]["passes"],
        "D3 groups a,b 50 % of allowed 2, both send 4 per window": "passes per window a/b = %s (share: 1 each; allowed for the remedy: 2)" % [x["passes"] for x in b[3]],
    }
    c = {"Max": 2, "interval": 1, "unit": "second", "grouped": False, "custom": False, "spill": 3, "renew": {"day": 10, "hour": 0, "minute": 0}}
    c5 = {"Max": 2, "interval": 2, "unit": "month", "grouped": False, "custom": False, "spill": 3, "renew": {"day": 18, "hour": 0, "minute": 0}}
    arr = {"ev": "arrive", "q": "q1", "g": "default", "cost": 1}
    fs = [f_script(c, [[{"ev": "reset", "now": 5}, arr, {"ev": "adv", "d": 1}, arr, arr, arr, arr]]),
          f_script(c5, [[{"ev": "reset", "now": 5}, arr, arr, arr, {"ev": "adv", "d": 3 * DAY}, arr]])]
    tr = execute(ctx, binary, "flows", fs, "probe")
    judge(ctx, binary, "flows", fs, tr, "probe", seen)
    o = [[e["out"] for e in t if e["ev"] == "arrive"] for t in tr]
    obs["D4 flows: 2 per 1 s, spillover max 3; 1 request, then 4 in the next window"] = "%s (documented: admit, admit x3, refuse)" % o[0]
    obs["D5 flows: 2 per 2 months, monthly_renewal on the 18th; full, then a request after the renewal instant"] = "%s (F5: the last one admitted)" % o[1]
    ctx.cov["documented_vs_observed"] = obs
    for k, v in obs.items():
        ctx.log("probe  %s: %s" % (k, v))


# --------------------------------------------------------------------------- run
def run(ctx):
    T = ctx.thorough
    binary = ctx.build_harness("x03")
    ctx.cov["rule"] = ("histories = seeded random scripts (policy: requests / bursts per key, metric reads, clock advances onto grid "
                       "boundaries, midnights, month ends; flows: requests with costs, reset-in queries, advances across windows and "
                       "renewal instants) over random configurations + TLC -simulate walks of the products; non-trivial = after a "
                       "clock advance a request was blocked / a refused key admitted again; distinct by (mode, config, events)")
    ctx.cov["checker_cmd"] = ("tlc -config MC_x03_small.cfg SpilloverThrottleIP.tla ; tlc -config MC_x03fw_small.cfg SpilloverFwIP.tla ; "
                              "tlc -config SpilloverThrottleTrace.cfg SpilloverThrottleTrace.tla ; tlc -config SpilloverFwTrace.cfg SpilloverFwTrace.tla")
    ctx.cov["trusted_base"] = ["TLC 1.8", "CommunityModules Json", "Go toolchain", "clock.MockClock", "Go time package (day of month / renewal "
                               "instants of a clock advance, written into the trace as input description)",
                               "harness/cmd/x03 projection (NoOp=pass, EarlyResponse 429=block; early-return action=refuse)"]
    ctx.assumptions += ["1 tick = 1 s, whole-second instants (sub-second anchoring is C01's / C09's subject)", "UTC",
                        "policy: one remedy, listed groups only, no reconfiguration while spillover is held",
                        "flows: one quota (no internal limits), requests handled one at a time",
                        "where code and documentation disagree the property spec accepts both readings (D1, D2, D4, D5) or models the code as it is (D3)"]

    # (1) exhaustive: I => P on bounded instances; broken variants of I must be refuted, benign ones must pass, witnesses must be reached
    jobs = [("SpilloverThrottleIP", "MC_x03_small.cfg" if not T else "MC_x03_large.cfg", "ok", "policy I=>P ungrouped, reads, renewal day"),
            ("SpilloverThrottleIP", "MC_x03_straddle.cfg", "ok", "policy I=>P windows straddling midnight"),
            ("SpilloverThrottleIP", "MC_x03_group.cfg" if not T else "MC_x03_group_large.cfg", "ok", "policy I=>P two groups (code as it is, D3)"),
            ("SpilloverFwIP", "MC_x03fw_small.cfg" if not T else "MC_x03fw_large.cfg", "ok", "flows I=>P spillover configured, renewal instant"),
            ("SpilloverFwIP", "MC_x03fw_off.cfg", "ok", "flows I=>P no spillover section"),
            ("SpilloverFwIP", "MC_x03fw_two.cfg", "ok", "flows I=>P two group keys")]
    jobs += [("SpilloverThrottleIP", "MC_x03_v_%s.cfg" % v, "violated", "non-vacuity: policy variant %s must be refuted" % v) for v in POLICY_BROKEN]
    jobs += [("SpilloverThrottleIP", "MC_x03_v_%s.cfg" % v, "ok", "benign policy variant %s" % v) for v in POLICY_BENIGN]
    jobs += [("SpilloverFwIP", "MC_x03fw_v_%s.cfg" % v, "violated", "non-vacuity: flows variant %s must be refuted" % v) for v in FW_BROKEN]
    jobs += [("SpilloverFwIP", "MC_x03fw_v_%s.cfg" % v, "ok", "benign flows variant %s (documented carrying)" % v) for v in (FW_BENIGN if T else FW_BENIGN[:1])]
    jobs += [("SpilloverThrottleIP", "MC_x03_wit_use.cfg", "violated", "witness: a window passes more than the allowance"),
             ("SpilloverThrottleIP", "MC_x03_wit_renew.cfg", "violated", "witness: a renewal zeroes held spillover"),
             ("SpilloverThrottleIP", "MC_x03_group_witness.cfg", "violated", "D3: the per-share bound does not hold for the code as it is"),
             ("SpilloverFwIP", "MC_x03fw_wit_hyp.cfg", "violated", "witness: P considers carried spillover"),
             ("SpilloverFwIP", "MC_x03fw_wit_use.cfg", "violated", "witness: variant accumulate carries")]
    tlc_jobs(ctx, jobs, n=6 if not T else 4)
    ctx.cov["exhaustive"] = True

    seen = set()
    import collections
    ctx.cov["reached"] = collections.defaultdict(int)
    # (2) spec -> code
    n = 60 if not T else 500
    walks(ctx, binary, "SpilloverThrottleIP", "GenX03.cfg", "policy",
          lambda hs: {"config": {"groups": ["-"], "Pct": {"-": 100}, "A": 1, "W": 2, "RenewDay": 17}, "histories": hs}, n, seen, "policy")
    walks(ctx, binary, "SpilloverThrottleIP", "GenX03g.cfg", "policy",
          lambda hs: {"config": {"groups": ["a", "b"], "Pct": {"a": 50, "b": 34}, "A": 3, "W": 1, "RenewDay": 17}, "histories": hs}, n, seen, "policy-groups")
    cgen = {"Max": 2, "interval": 3, "unit": "second", "grouped": True, "custom": False, "spill": 2, "renew": {"day": 28, "hour": 23, "minute": 30}}
    walks(ctx, binary, "SpilloverFwIP", "GenX03fw.cfg", "flows", lambda hs: f_script(cgen, hs), n, seen, "flows")

    # (3) code -> spec: seeded random scripts
    ncfg, nh, hl = (8, 14, 34) if not T else (40, 40, 40)
    ps = []
    for _ in range(ncfg):
        cfg = p_rand_config(ctx.rng, T)
        hs = [p_rand_history(ctx.rng, cfg, hl) for _ in range(nh)]
        if cfg["RenewDay"] in (17, 18, 19) and DAY % cfg["W"] == 0:
            hs += [p_midnight_history(ctx.rng, cfg) for _ in range(nh // 2)]
        ps.append({"config": cfg, "histories": hs})
    # input classes every run must contain: the renewal day beginning / lasting / ending with every window visited
    for cfg in ({"groups": ["-"], "Pct": {"-": 100}, "A": 2, "W": 1, "RenewDay": 17},
                {"groups": ["-"], "Pct": {"-": 100}, "A": 3, "W": 3600, "RenewDay": 18},
                {"groups": ["a", "b"], "Pct": {"a": 50, "b": 34}, "A": 3, "W": 2, "RenewDay": 18}):
        ps.append({"config": cfg, "histories": [p_midnight_history(ctx.rng, cfg) for _ in range(6 if not T else 30)]})
    tr = execute(ctx, binary, "policy", ps, "rand")
    ctx.sample({"kind": "recorded-trace policy", "events": tr[0][:12]})
    judge(ctx, binary, "policy", ps, tr, "rand", seen)
    fs = []
    for _ in range(ncfg):
        c = f_rand_config(ctx.rng, T)
        fs.append(f_script(c, [f_rand_history(ctx.rng, c, hl) for _ in range(nh)]))
    ftr = execute(ctx, binary, "flows", fs, "rand")
    ctx.sample({"kind": "recorded-trace flows", "events": ftr[0][:12]}, limit=4)
    judge(ctx, binary, "flows", fs, ftr, "rand", seen)

    # (4) the documented scenarios and the disagreements, as observed on this tree
    probes(ctx, binary, seen)

    ctx.cov["reached"] = dict(ctx.cov["reached"])
    # (a run that already found violations is not vacuous; on a broken tree some situations may be unreachable)
    for k in () if ctx.violations else ("policy_passes_beyond_plain_share", "policy_requests_on_renewal_day_after_spillover", "policy_advances_skipping_windows",
              "policy_metric_reads", "flows_advances_over_renewal_instant", "flows_refusals", "flows_requests_on_quota_with_spillover"):
        if ctx.cov["reached"].get(k, 0) < 5:
            raise Broken("vacuous run: the recorded histories reached '%s' only %d times" % (k, ctx.cov["reached"].get(k, 0)))
    if ctx.cov["distinct_nontrivial"] < 50 and not ctx.violations:
        raise Broken("vacuous run: %d non-trivial histories" % ctx.cov["distinct_nontrivial"])

    if T:
        selftest(ctx, binary)


def selftest(ctx, binary):
    # (5) binding self-test (thorough): a corrupted / truncated recording must be rejected.  The recordings are those of a key's
    #     first window (no spillover can be held there under any reading, so the specification is exact)
    if True:
        pself = {"config": {"groups": ["-"], "Pct": {"-": 100}, "A": 2, "W": 5, "RenewDay": 0},
                 "histories": [[{"ev": "reset", "now": 7}] + [{"ev": "req", "g": "-"}] * 3]}
        cself = {"Max": 2, "interval": 5, "unit": "second", "grouped": False, "custom": False, "spill": 3, "renew": {"day": 10, "hour": 0, "minute": 0}}
        fself = f_script(cself, [[{"ev": "reset", "now": 7}] + [{"ev": "arrive", "q": "q1", "g": "default", "cost": 1}] * 3])
        for mode, script, evn, blk, pas in (("policy", pself, "req", "block", "pass"), ("flows", fself, "arrive", "refuse", "admit")):
            tn = MODES[mode]["trace"]
            ev = execute(ctx, binary, mode, [script], "selftest")[0]
            if [e.get("out") for e in ev if e["ev"] == evn] != [pas, pas, blk]:
                raise Broken("self-test (%s): unexpected recording %s" % (mode, json.dumps(ev)))
            _, rej0, _ = validate_history_trace(ctx, SPEC, tn, ev, tag="selftest0-" + mode, max_rounds=1)
            bad = [dict(e) for e in ev]
            bad[-1]["out"] = pas
            _, rej1, _ = validate_history_trace(ctx, SPEC, tn, bad, tag="selftest1-" + mode, max_rounds=1)
            drop = ev[:2] + ev[3:]
            _, rej2, _ = validate_history_trace(ctx, SPEC, tn, drop, tag="selftest2-" + mode, max_rounds=1)
            if rej0 or not rej1 or not rej2:
                raise Broken("self-test (%s): original rejected=%s, corrupted verdict rejected=%s, dropped request rejected=%s" % (
                    mode, bool(rej0), bool(rej1), bool(rej2)))
            ctx.notes.append("self-test %s: recording accepted; corrupted verdict rejected; recording with one admitted request dropped rejected" % mode)


def replay(ctx, path):
    obj = json.load(open(path))
    binary = ctx.build_harness("x03")
    rp = obj["replay"]
    mode = rp["mode"]
    tn = MODES[mode]["trace"]
    _, rej0, _ = validate_history_trace(ctx, SPEC, tn, rp["trace"], tag="replay-rec", max_rounds=1)
    print("recorded trace: %s by the specification" % ("REJECTED" if rej0 else "accepted"))
    t = execute(ctx, binary, mode, [rp["script"]], "replay")[0]
    _, rej, _ = validate_history_trace(ctx, SPEC, tn, t, tag="replay", max_rounds=1)
    if rej:
        for e in t:
            print(json.dumps(e))
        print("VIOLATION property=X03 replay=%s" % path)
        print("   re-execution rejected at event %d: %s" % (rej[0]["at"], json.dumps(rej[0]["hist"][rej[0]["at"]])))
        return 1
    print("re-execution accepted by the specification")
    return 0
