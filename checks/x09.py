"""X09 (growth) - the engine's own metrics agree with the traffic it processed.

spec:     specs/x09_engine_metrics  MetricsP (statement M1-M9 + laws over the recorded history), MetricsI (the managers' bookkeeping),
          MC_X09 (I x P, every interleaving of transactions / flushes / scrapes / reloads / restarts of a bounded instance),
          MetricsTrace (recorded lifetimes judged by P, compared with I), GenX09 (walks for replay)
binding:  harness/cmd/x09 - one real engine process per gateway lifetime: routing.HandlingDataManager.Setup (streams.Stream,
          metrics.NewMetricManager on the process meter / Prometheus registry), routing.Handler fed with SPOE messages, POST /load_flows,
          the aggregation plugin's discovery.Run writing the state file the engine's api_call_count reads, prometheus.DefaultGatherer.
"""
import json, os, re, shutil
from vlib import Broken, read_ndjson, write_ndjson, parallel, tlc_vh_lines, split_histories

SPEC = "x09_engine_metrics"
PARAMS = ["{id}", "{x}"]
ALLG = ["api_call_count", "api_call_size", "transaction_duration", "provider_transaction_duration"]
ALLS = ["active_flows", "flow_invocations", "requests_through_flows", "avg_flow_execution_time", "avg_processor_execution_time"]
GLABELS = ["http_method", "url", "host", "status_code", "consumer_tag"]
PLABELS = ["flow_name", "processor_key", "http_method", "url", "host", "status_code", "consumer_tag"]

# bounded instances of MC_X09 (I x P): name -> (MaxTxn, MaxFlush, MaxReload, MaxRestart, MaxScrape, MaxCollect, files, flow sets, MaxTick)
PROFILES = {
    "quick": {"a": (2, 2, 1, 0, 1, 0, "{1, 2, 3}", "{1, 4}", 0),        # labels / labeled endpoints / lists x reload, parser cache
              "b": (2, 2, 1, 0, 0, 0, "{1}", "{1, 2, 3, 4}", 0),        # flows and processors x reload
              "c": (2, 2, 1, 0, 0, 2, "{1, 3}", "{4}", 0),              # histogram managers
              "d": (2, 2, 0, 1, 1, 1, "{1, 3}", "{1}", 0),              # restart
              "r": (1, 2, 2, 0, 0, 0, "{1, 2, 3}", "{4}", 0),           # two reloads (back to the start-up file)
              "l": (3, 1, 0, 0, 0, 3, "{1}", "{4}", 0),                 # three collections
              "q": (2, 1, 1, 0, 0, 0, "{1}", "{4, 5, 6}", 1)},          # quotas behind limiters, the clock
    "thorough": {"a": (3, 2, 1, 0, 1, 0, "{1, 2, 3}", "{1, 4}", 0),
                 "b": (3, 2, 1, 0, 0, 0, "{1}", "{1, 2, 3, 4}", 0),
                 "c": (3, 2, 1, 0, 0, 2, "{1, 3}", "{4}", 0),
                 "d": (2, 2, 1, 1, 1, 1, "{1, 3}", "{1}", 0),
                 "r": (2, 2, 2, 0, 0, 0, "{1, 2, 3}", "{4}", 0),
                 "l": (3, 2, 0, 0, 0, 3, "{1}", "{4}", 0),
                 "q": (3, 1, 1, 0, 0, 0, "{1}", "{4, 5, 6}", 1)},
}
# variant of MetricsI -> the instance in which it shows
BUGS = {"stale-cache": "a", "tag-dash-kept": "a", "status-dropped": "a", "last-wins": "a", "size-divisor": "a", "gw-missing": "a",
        "path-always": "a", "inv-after-cut": "b", "rtf-per-flow": "b", "proc-count-disabled": "b", "active-stale": "b",
        "hist-swapped": "c", "legacy-total": "l", "quota-used-counts-refused": "q"}
BENIGN = {"size-since-reload": "a", "counters-cumulative": "b", "reload-as-documented": "r", "doc-path": "a", "doc-size": "a",
          "one-instrument-per-kind": "b", "legacy-counts-first-sight": "c", "quota-used-kept-on-refusal": "q", "quota-callbacks-unregistered": "q"}
WITNESSES = {"W_NoEarly": "b", "W_NoPathDev": "a", "W_NoSizeDev": "a", "W_NoReloadDev": "r", "W_NoAlwaysDev": "a", "W_NoDupDev": "b",
             "W_NoCoarse": "a", "W_NoCut": "b", "W_NoLegacyDev": "c", "W_NoLegacy": "c", "W_NoHist2": "c", "W_NoQuotaZero": "q",
             "W_NoQuotaStale": "q", "W_NoUsed2": "q"}


# ------------------------------------------------------------------------------------------------ rendering
def url_of(segs):
    return "/".join(segs)


def _metrics_block(ind, enabled, labels):
    return ["%smetrics:" % ind, "%s  enabled: %s" % (ind, "true" if enabled else "false"),
            "%s  labels: [%s]" % (ind, ", ".join(labels))]


def _edge(frm, to):
    def side(x, key):
        if x in ("start", "end"):
            return ["      %s:" % key, "        stream:", "          name: globalStream", "          at: %s" % x]
        name, cond = x if isinstance(x, tuple) else (x, None)
        out = ["      %s:" % key, "        processor:", "          name: %s" % name]
        if cond:
            out.append("          condition: %s" % cond)
        return out
    a = side(frm, "from")
    a[0] = "    - from:"
    return a + side(to, "to")


def flow_yaml(f):
    """request: start -> F (Filter x-a=1); F hit -> G (GenerateResponse st) when gate else end; F miss -> end
    response: start -> R (Filter status 500-599) -> end when rf, else start -> end; G -> end
    limiter flow (lim): F is a Limiter on quota lq; F above_limit -> G; F below_limit -> end"""
    L = ["name: %s" % f["name"], "filter:", "  url: %s" % url_of(f["pat"]), "processors:"]
    if f["lim"]:
        L += ["  %s:" % f["fk"], "    processor: Limiter"] + _metrics_block("    ", f["fm"], f["fl"]) + \
             ["    parameters:", "      - key: quota_id", "        value: %s" % f["lq"]]
    else:
        L += ["  %s:" % f["fk"], "    processor: Filter"] + _metrics_block("    ", f["fm"], f["fl"]) + \
             ["    parameters:", "      - key: header", "        value: x-a=1"]
    if f["gate"]:
        L += ["  %s:" % f["gk"], "    processor: GenerateResponse"] + _metrics_block("    ", f["gm"], f["gl"]) + \
             ["    parameters:", "      - key: status", "        value: %d" % f["st"], "      - key: body", "        value: answered",
              "      - key: Content-Type", "        value: text/plain"]
    if f["rf"]:
        L += ["  %s:" % f["rk"], "    processor: Filter"] + _metrics_block("    ", f["rm"], f["rl"]) + \
             ["    parameters:", "      - key: status_code_range", "        value: 500-599"]
    L += ["flow:", "  request:"] + _edge("start", f["fk"])
    yes, no = ("above_limit", "below_limit") if f["lim"] else ("hit", "miss")
    L += _edge((f["fk"], yes), f["gk"] if f["gate"] else "end") + _edge((f["fk"], no), "end")
    L += ["  response:"]
    if f["rf"]:
        L += _edge("start", f["rk"]) + _edge((f["rk"], "hit"), "end") + _edge((f["rk"], "miss"), "end")
    else:
        L += _edge("start", "end")
    if f["gate"]:
        L += _edge(f["gk"], "end")
    return "\n".join(L) + "\n"


def flow(name, pat, fm=False, fl=(), gate=False, st=0, gm=False, gl=(), rf=False, rm=False, rl=()):
    return {"name": name, "pat": list(pat), "lim": False, "lq": "-", "fk": "F_" + name, "fm": fm, "fl": list(fl), "gate": gate, "st": st,
            "gk": "G_" + name, "gm": gm, "gl": list(gl), "rf": rf, "rk": "R_" + name, "rm": rm, "rl": list(rl)}


def lim_flow(name, pat, q, fm=False, fl=(), gm=False, gl=()):
    f = flow(name, pat, fm, fl, True, 429, gm, gl)
    f.update({"lim": True, "lq": q})
    return f


def quota(qid, pat, mx, w):
    return {"id": qid, "pat": list(pat), "max": mx, "w": w, "inc": qid + "_QuotaProcessorInc", "grp": qid + "_default"}


def quotas_yaml(qs):
    L = ["quotas:"]
    for q in qs:
        L += ["  - id: %s" % q["id"], "    filter:", "      url: %s" % url_of(q["pat"]), "    strategy:", "      fixed_window:",
              "        max: %d" % q["max"], "        interval: %d" % q["w"], "        interval_unit: second"]
    return "\n".join(L) + "\n"


def cfg_event(ev, c, flows, quotas=()):
    """start / reload event of a script: the metrics file c = {labels, lepp, gm, sm, gw}, the flows and the quotas they refer to"""
    files = {"flows/%s.yaml" % f["name"]: flow_yaml(f) for f in flows}
    for host in sorted({q["pat"][0] for q in quotas}):          # the loader wants one file per host and one host per file
        files["quotas/%s.yaml" % host.replace(".", "_")] = quotas_yaml([q for q in quotas if q["pat"][0] == host])
    return {"ev": ev, "quotas": [dict(q) for q in quotas], "labels": list(c["labels"]), "lepp": [list(p) for p in c["lepp"]], "lep": [url_of(p) for p in c["lepp"]],
            "gm": list(c["gm"]), "sm": list(c["sm"]), "gw": c["gw"], "flows": flows, "legacy": bool(c.get("legacy", True)) and ev == "start",
            "files": files}


def txn_event(i, t):
    e = {"ev": "txn", "id": "t%d" % i, "m": t["m"], "us": list(t["us"]), "url": url_of(t["us"]), "tag": t["tag"], "hx": t["hx"],
         "st": t["st"], "blen": t["blen"], "clen": t["clen"], "d": t.get("d", 10), "td": t.get("td", 12)}
    return e


def script(sid, known, events):
    return {"id": sid, "known": [url_of(p) for p in known], "knownp": [list(p) for p in known], "threshold": 50, "events": events}


# ---------------------------------------------------------------------------------------------- generation
def script_of_walk(sid, walk):
    """a TLC walk of GenX09 (inputs only) -> executable script; the instance of MC_X09 has one known endpoint"""
    ev, n = [], 0
    for e in walk:
        if e["ev"] in ("start", "reload"):
            ev.append(cfg_event(e["ev"], e["c"], e["fs"], e["qs"]))
        elif e["ev"] == "tick":
            ev.append({"ev": "tick", "d": e["d"]})
        elif e["ev"] == "txn":
            n += 1
            ev.append(txn_event(n, e["t"]))
        elif e["ev"] == "flush":
            ev.append({"ev": "flush", "n": e["n"]})
        elif e["ev"] in ("scrape", "collect"):
            ev.append({"ev": e["ev"]})
    ev += [{"ev": "flush", "n": 99}, {"ev": "collect"}, {"ev": "scrape"}]
    return script(sid, [["a.t", "v", "{id}"]], ev)


URLS = [["a.t", "v", "1"], ["a.t", "v", "2"], ["a.t", "w"], ["a.t", "u"], ["b.t", "x"], ["b.t", "y"], ["a.t", "v", "1", "z"], ["c.t", "q"]]
PATS = [["a.t", "*"], ["a.t", "v", "{id}"], ["a.t", "w"], ["b.t", "*"], ["b.t", "x"], ["a.t", "v", "{id}", "z"], ["c.t", "q"]]
KNOWN = [["a.t", "v", "{id}"], ["b.t", "{x}"], ["a.t", "v", "{id}", "z"]]
LEPS = [["a.t", "v", "{id}"], ["a.t", "v", "{x}"], ["b.t", "x"], ["a.t", "{x}"], ["b.t", "{id}"], ["c.t", "q"]]


def rand_file(rng, gw):
    labels = rng.sample(GLABELS, rng.randint(0, 5))
    if rng.random() < 0.25:
        labels.insert(rng.randint(0, len(labels)), rng.choice(["flow_name", "method", "path"]))     # unsupported names add nothing
    gm = [m for m in ALLG if rng.random() < 0.8]
    sm = [m for m in ALLS if rng.random() < 0.8]
    if rng.random() < 0.5:
        gm, sm = list(ALLG), list(ALLS)
    return {"labels": labels, "lepp": rng.sample(LEPS, rng.choice([0, 0, 1, 1, 2])), "gm": gm, "sm": sm, "gw": gw}


def rand_flows(rng, keyed, qn):
    """keyed: every processor lists processor_key among its labels, so that no two processors ever count under one label set
    (otherwise the scrape of the process fails from the first coincidence on - DEV duplicate-series - and shows nothing more)"""
    pats = rng.sample(PATS, rng.choice([0, 1, 2, 2, 3, 3, 4]))
    out = []

    def labels():
        ls = rng.sample(PLABELS, rng.randint(0, 4))
        if keyed and "processor_key" not in ls:
            ls.insert(rng.randint(0, len(ls)), "processor_key")
        return ls
    qs = []
    for i, p in enumerate(pats):
        if rng.random() < 0.25:
            # a limiter flow on a quota of its own (ids are never reused inside a script: `qn` counts them)
            qn[0] += 1
            qs.append(quota("q%d" % qn[0], p, rng.choice([1, 2, 3]), rng.choice([5, 10])))
            out.append(lim_flow("f%d" % (i + 1), p, "q%d" % qn[0], fm=rng.random() < 0.7, fl=labels(), gm=rng.random() < 0.7, gl=labels()))
            continue
        gate = rng.random() < 0.5
        out.append(flow("f%d" % (i + 1), p, fm=rng.random() < 0.7, fl=labels(), gate=gate,
                        st=rng.choice([418, 429, 503]) if gate else 0, gm=rng.random() < 0.7, gl=labels(),
                        rf=rng.random() < 0.5, rm=rng.random() < 0.7, rl=labels()))
    return out, qs


def rand_txn(rng, hot):
    us = rng.choice(hot) if rng.random() < 0.7 else rng.choice(URLS)
    blen = rng.choice([0, 0, 3, 10, 25])
    return {"m": rng.choice(["GET", "GET", "POST", "DELETE"]), "us": us, "tag": rng.choice(["-", "-", "A", "B"]),
            "hx": rng.choice(["", "", "1", "2"]), "st": rng.choice([200, 200, 201, 404, 500, 503]), "blen": blen,
            "clen": rng.choice([-1, -1, blen, blen + 7]), "d": rng.randint(1, 80), "td": rng.randint(90, 120)}


def rand_script(rng, sid, n):
    known = rng.sample(KNOWN, rng.choice([0, 1, 1, 2, 3]))
    gw = rng.choice(["", "gw1", "gw-b"])
    files = [rand_file(rng, gw) for _ in range(3)]
    keyed = rng.random() < 0.85
    qn = [0]
    ev = [cfg_event("start", files[0], *rand_flows(rng, keyed, qn))]
    hot = rng.sample(URLS, 3)
    k, pend = 0, 0
    for _ in range(n):
        x = rng.random()
        if x < 0.55:
            k += 1
            pend += 1
            ev.append(txn_event(k, rand_txn(rng, hot)))
        elif x < 0.70:
            m = rng.randint(1, 4)
            pend = max(0, pend - m)
            ev.append({"ev": "flush", "n": m})
        elif x < 0.76:
            ev.append({"ev": "collect"})
        elif x < 0.79:
            ev.append({"ev": "tick", "d": rng.choice([1, 4, 5, 6, 10, 11])})
        elif x < 0.90:
            ev.append({"ev": "scrape"})
        elif x < 0.96:
            # a reload: often back to a file loaded before (the start-up file among them), sometimes only the flows change
            last = [e for e in ev if e["ev"] in ("start", "reload")][-1]
            fq = rand_flows(rng, keyed, qn) if rng.random() < 0.7 else (last["flows"], last["quotas"])   # the same flows: the same quotas go on
            if fq[1] and fq[1] == last["quotas"]:
                fq = ([f for f in fq[0] if not f["lim"]], [])        # (a quota id is not carried over a reload: see assumptions)
            ev.append(cfg_event("reload", rng.choice(files), *fq))
            ev.append({"ev": "scrape"})
        else:
            ev += [{"ev": "flush", "n": 99}, {"ev": "scrape"}, cfg_event("start", rng.choice(files), *rand_flows(rng, keyed, qn)), {"ev": "scrape"}]
            pend = 0
    ev += [{"ev": "flush", "n": 99}, {"ev": "collect"}, {"ev": "scrape"}]
    return script(sid, known, ev)


def class_scripts(base):
    """input classes every run must contain (a random draw could miss them)"""
    F = flow
    all_on = {"labels": list(GLABELS), "lepp": [["a.t", "v", "{x}"]], "gm": list(ALLG), "sm": list(ALLS), "gw": "gw1"}
    coarse = {"labels": ["host"], "lepp": [], "gm": list(ALLG), "sm": list(ALLS), "gw": "gw1"}
    none_ = {"labels": [], "lepp": [["b.t", "x"]], "gm": ["transaction_duration"], "sm": ["active_flows"], "gw": "gw1"}
    fs = [F("f1", ["a.t", "*"], True, ["flow_name", "http_method", "consumer_tag"], True, 418, True, ["flow_name", "processor_key", "url"]),
          F("f2", ["a.t", "v", "{id}"], True, ["flow_name", "status_code"], False, 0, False, [], True, True, ["status_code", "consumer_tag", "host"])]
    T = lambda m, us, tag, hx, st, blen, clen, d, td: {"m": m, "us": us, "tag": tag, "hx": hx, "st": st, "blen": blen, "clen": clen, "d": d, "td": td}
    t = [T("GET", ["a.t", "v", "1"], "A", "", 200, 10, -1, 10, 100), T("GET", ["a.t", "v", "2"], "-", "1", 200, 10, -1, 20, 110),
         T("POST", ["a.t", "v", "1"], "A", "", 500, 0, 30, 30, 95), T("GET", ["b.t", "x"], "B", "", 200, 4, -1, 40, 90),
         T("GET", ["a.t", "v", "2"], "B", "", 503, 5, 5, 70, 120), T("GET", ["a.t", "w"], "-", "1", 201, 7, 7, 15, 105)]
    out = []
    # 1: labels A -> B -> A (M8), scraped after every step, with traffic flushed in pieces
    ev = [cfg_event("start", all_on, fs)]
    for i, x in enumerate(t):
        ev.append(txn_event(i + 1, x))
    ev += [{"ev": "scrape"}, {"ev": "flush", "n": 2}, {"ev": "collect"}, {"ev": "scrape"}, {"ev": "flush", "n": 9}, {"ev": "collect"}, {"ev": "scrape"},
           cfg_event("reload", coarse, fs), {"ev": "scrape"}, cfg_event("reload", all_on, fs), {"ev": "scrape"},
           txn_event(7, t[0]), txn_event(8, t[2]), {"ev": "flush", "n": 9}, {"ev": "collect"}, {"ev": "scrape"}, {"ev": "collect"}, {"ev": "scrape"},
           cfg_event("reload", none_, fs[1:]), {"ev": "scrape"}, txn_event(9, t[1]), {"ev": "flush", "n": 9}, {"ev": "collect"}, {"ev": "scrape"}]
    out.append(script(base, [["a.t", "v", "{id}"]], ev))
    # 2: the same traffic without known endpoints (the path label of an endpoint discovery does not know), restart in between
    ev = [cfg_event("start", all_on, fs)] + [txn_event(i + 1, x) for i, x in enumerate(t)] + \
         [{"ev": "flush", "n": 9}, {"ev": "collect"}, {"ev": "scrape"}, cfg_event("start", coarse, fs[:1]), {"ev": "collect"}, {"ev": "scrape"}, txn_event(7, t[1]),
          txn_event(8, t[0]), {"ev": "scrape"}, {"ev": "flush", "n": 9}, {"ev": "collect"}, {"ev": "scrape"}]
    out.append(script(base + 1, [], ev))
    # 3: nothing listed, no flows: only what is registered whatever the file says may show
    ev = [cfg_event("start", none_, [])] + [txn_event(i + 1, x) for i, x in enumerate(t[:4])] + [{"ev": "scrape"}, {"ev": "flush", "n": 9}, {"ev": "collect"}, {"ev": "scrape"},
          cfg_event("reload", all_on, fs), {"ev": "scrape"}, txn_event(5, t[0]), txn_event(6, t[1]), {"ev": "flush", "n": 9}, {"ev": "collect"}, {"ev": "scrape"}]
    out.append(script(base + 2, [["a.t", "v", "{id}"]], ev))
    # 4: two filters of different keys counting under one label set (the scrape fails from the first coincidence until the restart)
    dup = [F("f4", ["a.t", "*"], True, ["http_method"]), F("f5", ["a.t", "v", "{id}"], True, ["http_method"], False, 0, False, [], True, True, ["http_method"])]
    ev = [cfg_event("start", coarse, dup), txn_event(1, t[3]), txn_event(2, t[5]), {"ev": "scrape"}, txn_event(3, t[0]), {"ev": "scrape"},
          {"ev": "flush", "n": 9}, {"ev": "scrape"}, cfg_event("reload", all_on, fs), {"ev": "scrape"}, txn_event(4, t[0]), {"ev": "flush", "n": 9},
          {"ev": "scrape"}, cfg_event("start", all_on, dup), {"ev": "scrape"}, txn_event(5, t[5]), {"ev": "flush", "n": 9}, {"ev": "scrape"}]
    out.append(script(base + 3, [["a.t", "v", "{id}"]], ev))
    # 5: a quota of 2 per 10 s behind a limiter: admitted, refused (the gauge after a refusal), window over, admitted again, the
    #    quota replaced by another one at a reload (the gauges of the first), a restart
    q1, q2 = quota("q1", ["a.t", "*"], 2, 10), quota("q2", ["b.t", "*"], 1, 5)
    l1 = [lim_flow("f6", ["a.t", "*"], "q1", True, ["flow_name", "http_method", "processor_key"])]
    l2 = [lim_flow("f7", ["b.t", "*"], "q2", True, ["processor_key"], True, ["processor_key", "url"]), fs[1]]
    ev = [cfg_event("start", all_on, l1, [q1]), {"ev": "scrape"}, txn_event(1, t[0]), {"ev": "scrape"}, txn_event(2, t[2]), {"ev": "scrape"},
          txn_event(3, t[5]), {"ev": "scrape"}, txn_event(4, t[3]), {"ev": "tick", "d": 9}, {"ev": "scrape"}, {"ev": "tick", "d": 1}, {"ev": "scrape"},
          txn_event(5, t[1]), {"ev": "scrape"}, {"ev": "flush", "n": 9}, {"ev": "collect"}, {"ev": "scrape"},
          cfg_event("reload", coarse, l2, [q2]), {"ev": "scrape"}, txn_event(6, t[3]), txn_event(7, t[3]), txn_event(8, t[0]), {"ev": "scrape"},
          {"ev": "tick", "d": 5}, txn_event(9, t[3]), {"ev": "flush", "n": 9}, {"ev": "scrape"},
          cfg_event("start", all_on, fs, []), {"ev": "scrape"}]
    out.append(script(base + 4, [["a.t", "v", "{id}"]], ev))
    return out


# ------------------------------------------------------------------------------------------------- execution
def execute(ctx, binary, scripts, tag, par=4, chunk=40):
    d = ctx.sub("run-" + tag)
    sp = os.path.join(d, "scripts.json")
    json.dump(scripts, open(sp, "w"))
    p = ctx.run_harness(binary, ["run", sp, d, str(par), str(chunk)], timeout=900)
    m = re.search(r'"files":(\d+)', p.stdout)
    if not m:
        raise Broken("harness printed no summary: %s" % p.stdout[-500:])
    traces = []
    for i in range(int(m.group(1))):
        ev = read_ndjson(os.path.join(d, "trace-%03d.ndjson" % i))
        ev[0]["params"] = PARAMS
        traces.append(ev)
    shutil.rmtree(d, ignore_errors=True)
    return traces


def annotate(scripts, traces):
    """the recorded events carry what the harness echoed; add the fields of the script the specification reads (knownp)"""
    by_id = {s["id"]: s for s in scripts}
    for ev in traces:
        for e in ev:
            if e["ev"] == "reset":
                e["knownp"] = by_id[e["id"]]["knownp"]
    return traces


def precheck(traces):
    """an engine that refuses a configuration of the generator is a fault of the generator (C05's subject), not an observation"""
    for ev in traces:
        for e in ev:
            if e["ev"] == "start" and "refused" in e:
                raise Broken("the engine refused a generated configuration: %s" % str(e["refused"])[:300])
            if e["ev"] == "reload" and e.get("code") != 200:
                raise Broken("the engine refused a generated reload: %s" % str(e.get("body"))[:300])


def validate(ctx, events, tag, max_rounds=4):
    """TLC-validate one trace file; returns (accepted scripts, [rejection], drift text, deviation bag)"""
    config, hs = split_histories(events)
    sd = ctx.spec_dir(SPEC)
    wd = os.path.join(ctx.scratch, "tv-%s" % tag)
    if not os.path.isdir(wd):
        shutil.copytree(sd, wd)
    rejected, drift, devs = [], "", {}
    for _ in range(max_rounds):
        flat = [config] + [e for h in hs for e in h]
        p = os.path.join(wd, "trace.ndjson")
        write_ndjson(p, flat)
        ok, hwm, r = ctx.tlc_trace(wd, "MetricsTrace", p, cfg="MetricsTrace.cfg", timeout=900)
        d = re.findall(r'TRACE-DRIFT (.*?)"', r.out)
        if d and d[-1] != "ok":
            drift = d[-1]
        m = re.search(r'<<\s*"TRACE-DEVS",\s*(.*?)>>', r.out, re.S)
        if m:
            for k, v in re.findall(r'(?:([a-z\-]+)"?\s*:>\s*(\d+))', m.group(1).replace('"', '')):
                devs[k] = max(devs.get(k, 0), int(v))
        if ok and not r.violated:
            return len(hs), rejected, drift, devs
        if r.violated is None or hwm < 1:
            raise Broken("trace validation made no progress (%s): %r\n%s" % (tag, r, r.out[-2500:]))
        law = re.findall(r'verdict = "([^"]*)"', r.out)
        law = law[-1] if law else "?"
        idx = hwm - 2          # the state after consuming line hwm broke Accept: 0-based index into the flattened script events
        k = 0
        for hi, hh in enumerate(hs):
            if idx < k + len(hh):
                rejected.append({"hist": hh, "at": idx - k, "law": law})
                del hs[hi]
                break
            k += len(hh)
        else:
            raise Broken("cannot locate rejected line %d of %d" % (hwm, len(flat)))
        if not hs:
            break
    return len(hs), rejected, drift, devs


def nontrivial(hist):
    """a lifetime exercises the statement when some scrape shows a series that stands for >= 2 transactions and the lifetime has
    >= 2 flushes (so that re-reading the state file matters)"""
    fl = sum(1 for e in hist if e["ev"] == "flush" and e.get("n", 0) > 0)
    big = any(s["n"] == "api_call_count_total" and s["v"] >= 2000 for e in hist if e["ev"] == "scrape" for s in e["samples"])
    return fl >= 2 and big


def witness_of(rej):
    h, at = rej["hist"], rej["at"]
    e = h[at]
    w = {"class": "law-" + rej["law"].split("-")[0], "law": rej["law"], "event": e["ev"], "script": h[0].get("id"),
         "reloads_before": sum(1 for x in h[:at] if x["ev"] == "reload"), "restarts_before": sum(1 for x in h[:at] if x["ev"] == "start") - 1,
         "flushes_before": sum(1 for x in h[:at] if x["ev"] == "flush")}
    if e["ev"] == "txn":
        w["txn"] = {k: e.get(k) for k in ("m", "url", "tag", "hx", "st", "ans", "procs")}
    if e["ev"] == "crash":
        w["stderr"] = str(e.get("stderr", ""))[-300:]
    return w


def judge(ctx, binary, scripts, tag, stats, par=4, chunk=40):
    traces = annotate(scripts, execute(ctx, binary, scripts, tag, par=par, chunk=chunk))
    precheck(traces)
    by_id = {s["id"]: s for s in scripts}

    def one(it):
        i, ev = it
        return validate(ctx, ev, "%s%d" % (tag, i))
    res = parallel(one, list(enumerate(traces)), n=4)
    for (acc, rejected, drift, devs), ev in zip(res, traces):
        _, hs = split_histories(ev)
        ctx.cov["traces_validated_against_impl"] += acc
        for hh in hs:
            stats["lifetimes"] += sum(1 for e in hh if e["ev"] == "start")
            stats["txns"] += sum(1 for e in hh if e["ev"] == "txn")
            stats["scrapes"] += sum(1 for e in hh if e["ev"] == "scrape")
            stats["samples"] += sum(len(e["samples"]) for e in hh if e["ev"] == "scrape")
            stats["events"] += len(hh)
            if nontrivial(hh):
                ctx.cov["distinct_nontrivial"] += 1
        for k, v in devs.items():
            stats["devs"][k] = stats["devs"].get(k, 0) + v
        if drift:
            stats["drifts"].append("%s: %s" % (tag, drift))
        for rej in rejected[:3]:
            w = witness_of(rej)
            sc = by_id[rej["hist"][0]["id"]]
            # reproduce: the same script again on the real code (fresh processes), judged again by the specification
            t2 = annotate([sc], execute(ctx, binary, [sc], "%s-repro" % tag, par=1))
            _, rej2, _, _ = validate(ctx, t2[0], "%s-repro%d" % (tag, len(ctx.violations)), max_rounds=1)
            if not rej2:
                raise Broken("rejection not reproduced (%s): %s" % (tag, json.dumps(w)[:600]))
            ctx.violation(w, {"script": sc, "recorded": rej["hist"][max(0, rej["at"] - 4): rej["at"] + 1], "rejected_at": rej["at"], "law": rej["law"]})
    return traces


# ------------------------------------------------------------------------------------------------------ TLC
def write_cfg(sd, name, bug, prof, inv):
    tx, fl, rl, rs, sc, co, files, flows, tk = prof
    open(os.path.join(sd, name), "w").write(
        "SPECIFICATION Spec\nCONSTANTS\n  Params = {\"{id}\", \"{x}\"}\n  Bug = \"%s\"\n  MaxTxn = %d\n  MaxFlush = %d\n  MaxReload = %d\n"
        "  MaxRestart = %d\n  MaxScrape = %d\n  MaxCollect = %d\n  MaxTick = %d\n  FileSel = %s\n  FlowSel = %s\nINVARIANTS %s\nCHECK_DEADLOCK FALSE\n" % (
            bug, tx, fl, rl, rs, sc, co, tk, files, flows, inv))
    return name


def model_checking(ctx):
    T = ctx.thorough
    sd = ctx.spec_dir(SPEC)
    P, Q = PROFILES["thorough" if T else "quick"], PROFILES["quick"]
    jobs = [("ok", write_cfg(sd, "MC_%s.cfg" % k, "none", P[k], "Accept"), "I=>P instance %s %s" % (k, P[k])) for k in sorted(P)]
    if not T:
        # every run refutes some broken variants, accepts a benign one and reaches some witnesses; the thorough tier does all
        rot = lambda names, n: [sorted(names)[(ctx.seed * n + i) % len(names)] for i in range(n)]
        bugs, benign, wit = rot(BUGS, 4), rot(BENIGN, 1), rot(WITNESSES, 3)
    else:
        bugs, benign, wit = sorted(BUGS), sorted(BENIGN), sorted(WITNESSES)
    for b in bugs:
        jobs.append(("refute", write_cfg(sd, "MC_bug_%s.cfg" % b, b, Q[BUGS[b]], "Accept"), "non-vacuity: variant '%s' of I must be refuted" % b))
    for b in benign:
        jobs.append(("accept", write_cfg(sd, "MC_benign_%s.cfg" % b, b, Q[BENIGN[b]], "Accept"), "benign variant '%s' of I must be accepted" % b))
    for w in wit:
        jobs.append(("witness", write_cfg(sd, "MC_%s.cfg" % w, "none", Q[WITNESSES[w]], w), "witness %s must be reachable" % w))

    def one(job):
        kind, cfg, label = job
        return job, ctx.tlc(sd, "MC_X09", cfg, workers=4 if (T and kind == "ok") else 2, timeout=2400 if T else 400, label=label,
                            heap="4g" if (T and kind == "ok") else "2g", count=(kind == "ok"))
    for (kind, cfg, label), r in parallel(one, jobs, n=4):
        if kind == "ok":
            if not r.ok:
                raise Broken("TLC MC_X09/%s: %r\n%s" % (cfg, r, r.out[-3000:]))
            ctx.cov["states"] += r.distinct
            ctx.cov["transitions"] += r.generated
            ctx.log("TLC MC_X09 %s: %d generated / %d distinct, depth %d, %.1fs" % (cfg, r.generated, r.distinct, r.depth, r.wall))
        elif kind == "refute":
            if r.violated != "Accept":
                raise Broken("the model cannot tell the broken variant from the statement (vacuous I=>P check) - %s: %r" % (label, r))
        elif kind == "accept":
            if not r.ok:
                raise Broken("%s: %r\n%s" % (label, r, r.out[-2000:]))
        else:
            if r.violated is None:
                raise Broken("vacuous model - %s: %r" % (label, r))
    ctx.notes.append("non-vacuity: broken variants refuted: %s; benign variants accepted: %s; witnesses reached: %s" % (
        ", ".join(bugs), ", ".join(benign), ", ".join(wit)))


def run(ctx):
    T = ctx.thorough
    binary = ctx.build_harness("x09")
    ctx.cov["rule"] = ("lifetime = one gateway process from Setup to its end inside a script (script = one installation: discovery state kept "
                       "over restarts); scripts: TLC -simulate walks of MC_X09 (transactions, flushes in pieces, scrapes, reloads, restarts), "
                       "fixed input classes (labels A->B->A, unknown endpoints under labeled endpoints, nothing listed) and seeded random scripts "
                       "(0-4 flows over 7 URL patterns, 0-3 known endpoints, label lists incl. unsupported names, partial metric lists); every "
                       "event executed on a real engine process and judged by MetricsTrace; non-trivial = script with >= 2 non-empty flushes and a "
                       "scraped api_call_count series standing for >= 2 transactions")
    ctx.cov["checker_cmd"] = "tlc -config MC_quick.cfg MC_X09.tla (instances a, b, c, d, r, l written by the driver) ; tlc -config MetricsTrace.cfg MetricsTrace.tla"
    ctx.cov["trusted_base"] = ["TLC 1.8", "CommunityModules Json", "Go toolchain",
                               "harness/cmd/x09 plays HAProxy (SPOE messages; one access-log record per transaction with the status the client saw) "
                               "and fluent-bit (hands the records to the plugin's discovery.Run, moves the state file's mtime by 1 s per flush)",
                               "always-200 stand-in of HAProxy's admin API", "projection of the registry: family, labels, value x 1000 rounded, value > 0"]
    ctx.assumptions += ["the plugin's known-endpoints tree is constant during a script and its inference threshold (50) is never reached",
                        "two flushes are at least one mtime tick apart (production: seconds)",
                        "flows of the generated shape only (Filter on x-a or Limiter, optional GenerateResponse, optional response-side status Filter); "
                        "quotas: ungrouped fixed windows, one per limiter flow, a quota id is not used again after a reload inside one lifetime",
                        "sequential traffic", "the histogram managers' tickers are replaced by explicit collection ticks (export under the verif tag)",
                        "the policy-mode LegacyMetricManager runs next to a flows-mode engine (it reads nothing but the discovery state file)"]
    model_checking(ctx)

    stats = {"lifetimes": 0, "txns": 0, "scrapes": 0, "samples": 0, "events": 0, "devs": {}, "drifts": []}
    sd = ctx.spec_dir(SPEC)
    # (2) spec -> code: walks of the model, replayed
    n = 30 if not T else 400
    g = ctx.tlc(sd, "GenX09", "GenX09.cfg", workers=1, simulate="num=%d" % n, depth=23, extra=["-seed", str(ctx.seed)], timeout=600,
                label="behaviour generation", heap="2g")
    walks = tlc_vh_lines(g.out)
    if len(walks) < n // 2:
        raise Broken("behaviour generation produced %d walks: %s" % (len(walks), g.out[-1500:]))
    scripts = [script_of_walk(i, w) for i, w in enumerate(walks)]
    ctx.sample({"kind": "tlc-walk", "events": [{k: v for k, v in e.items() if k != "files"} for e in scripts[0]["events"][:6]]})
    judge(ctx, binary, scripts, "gen", stats)
    ctx.log("replayed %d TLC walks: %d lifetimes, %d transactions, %d scrapes" % (len(walks), stats["lifetimes"], stats["txns"], stats["scrapes"]))

    # (3) code -> spec: input classes + seeded random scripts
    scripts = class_scripts(10000)
    nr, ln = (40, 45) if not T else (700, 60)
    scripts += [rand_script(ctx.rng, 20000 + i, ln) for i in range(nr)]
    traces = judge(ctx, binary, scripts, "rand", stats)
    first = traces[0]
    sc = next(e for e in first if e["ev"] == "scrape" and len(e["samples"]) > 4)
    ctx.sample({"kind": "recorded-scrape", "samples": sc["samples"][:6]})
    ctx.cov["evaluations"] = stats["txns"] + stats["scrapes"]
    ctx.cov["lifetimes"] = stats["lifetimes"]
    ctx.cov["scraped_samples"] = stats["samples"]
    ctx.cov["deviations_needed"] = stats["devs"]
    ctx.log("recorded: %d lifetimes, %d transactions, %d scrapes (%d samples), %d events; deviations needed: %s" % (
        stats["lifetimes"], stats["txns"], stats["scrapes"], stats["samples"], stats["events"], stats["devs"]))
    if stats["drifts"]:
        ctx.cov["model_drift"] = True
        ctx.notes.append("MODEL-DRIFT: the registry differs from what MetricsI exports: %s" % "; ".join(stats["drifts"][:3]))
    # the deviations are what the engine of this tree needed (an engine repaired in one of these points needs fewer: not a fault
    # of the run); that the input classes in which they show were executed is what class_scripts guarantees
    ctx.notes.append("scrapes explained only by a named deviation of MetricsP: %s" % (json.dumps(stats["devs"], sort_keys=True) or "none"))
    if ctx.cov["distinct_nontrivial"] < 10:
        raise Broken("vacuous run: only %d non-trivial scripts" % ctx.cov["distinct_nontrivial"])

    # (4) binding self-test (thorough): a corrupted / truncated recording must be rejected
    if T:
        selftest(ctx, first)


def selftest(ctx, ev):
    cfg, hs = split_histories(ev)
    hh = next(h for h in hs if nontrivial(h))
    base = [cfg] + hh
    k = max(i for i, e in enumerate(base) if e["ev"] == "scrape" and any(s["n"] == "api_call_count_total" for s in e["samples"]))
    bad = json.loads(json.dumps(base))
    s = next(s for s in bad[k]["samples"] if s["n"] == "api_call_count_total")
    s["v"] += 1000
    _, r1, _, _ = validate(ctx, bad, "selftest1", max_rounds=1)
    k2 = next(i for i, e in enumerate(base) if e["ev"] == "flush" and e.get("n", 0) > 0)
    drop = [e for i, e in enumerate(base) if i != k2]
    _, r2, _, _ = validate(ctx, drop, "selftest2", max_rounds=1)
    bad3 = json.loads(json.dumps(base))
    k3 = next((i for i, e in enumerate(bad3) if e["ev"] == "scrape" and any(s["n"] == "flow_invocations_total" for s in e["samples"])), None)
    r3 = True
    if k3 is not None:
        s = next(s for s in bad3[k3]["samples"] if s["n"] == "flow_invocations_total")
        s["l"] = [kv if kv[0] != "flow_name" else ["flow_name", "nobody"] for kv in s["l"]]
        _, r3, _, _ = validate(ctx, bad3, "selftest3", max_rounds=1)
    if not r1 or not r2 or not r3:
        raise Broken("self-test: corrupted count rejected=%s, dropped flush rejected=%s, renamed flow rejected=%s" % (bool(r1), bool(r2), bool(r3)))
    ctx.notes.append("self-test: corrupted api_call_count rejected (%s), dropped flush rejected (%s), flow_invocations under a wrong name rejected" % (
        r1[0]["law"], r2[0]["law"]))


def replay(ctx, path):
    obj = json.load(open(path))
    binary = ctx.build_harness("x09")
    sc = obj["replay"]["script"]
    t = annotate([sc], execute(ctx, binary, [sc], "replay", par=1))
    _, rej, _, _ = validate(ctx, t[0], "replay", max_rounds=1)
    if rej:
        r = rej[0]
        for e in r["hist"][max(0, r["at"] - 3): r["at"] + 1]:
            print(json.dumps({k: v for k, v in e.items() if k not in ("files", "flows")})[:1500])
        print("VIOLATION property=X09 replay=%s" % path)
        print("   re-execution rejected at event %d: law %s" % (r["at"], r["law"]))
        return 1
    print("re-execution accepted by the specification")
    return 0
