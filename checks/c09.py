"""C09 - policy-mode throttling never exceeds the allowed count per aligned window.

spec:     specs/c09_policy_throttle  ThrottleP (property), ThrottleI (implementation-shaped), ThrottleTrace, GenC09
binding:  harness/cmd/c09 drives the real StrategyBasedThrottlingPlugin.OnRequest (+ limit.RateLimitState) on a mock clock
"""
import json, os
from vlib import Broken, read_ndjson, write_ndjson, validate_history_trace, parallel, tlc_vh_lines, split_histories

SPEC = "c09_policy_throttle"
GEN_CONFIG = {"groups": ["a", "b", "u"], "W": {"r1": 2, "r2": 4}, "Allowed": {"r1": 2, "r2": 1},
              "Pct": {"r1": {"a": 50, "b": 34, "u": -1}, "r2": {"a": -1, "b": -1, "u": -1}},
              "DefBehav": {"r1": "use_default", "r2": "none"}, "DefPct": {"r1": 100, "r2": 0}}


NOHDR = "-"      # a request that does not carry the grouping header at all: a group value like any other unlisted one
WSIZES = [2, 2, 4, 6, 10, 14, 22]      # ticks of 500 ms: 1, 2, 3, 5, 7, 11 s


def storm_script(rng, n, k):
    """many fresh group keys, each hit first by k concurrent requests (first-use races of the per-key state)."""
    groups = ["g%d" % i for i in range(n)]
    cfg = {"groups": groups, "W": {"r1": 4}, "Allowed": {"r1": 1}, "Pct": {"r1": {g: -1 for g in groups}},
           "DefBehav": {"r1": "use_default"}, "DefPct": {"r1": 100}}
    hists = []
    for i in range(0, n, 10):
        h = [{"ev": "reset", "now": rng.randint(1, 9)}]
        for g in groups[i:i + 10]:
            h.append({"ev": "storm", "r": "r1", "g": g, "n": k})
        hists.append(h)
    return {"config": cfg, "histories": hists}


def hot_storm_script(rng, nhist, rounds, k):
    """overlapping requests on a key that is ALREADY in use, window after window: the k requests of a round find the counter
    anywhere below the share and race for the last places (a check-then-act gap in the counting shows as more passes than the
    share in one window); the first-use storms above serialise on the creation of the per-key state and do not reach it."""
    allowed = rng.choice([2, 3, 4])
    w = rng.choice([2, 4])
    cfg = {"groups": ["a", "b", "u"], "W": {"r1": w}, "Allowed": {"r1": allowed}, "Pct": {"r1": {"a": 100, "b": 50, "u": -1}},
           "DefBehav": {"r1": "use_default"}, "DefPct": {"r1": 100}, "Status": {"r1": rng.choice([0, 503])}}
    hists = []
    for _ in range(nhist):
        g = rng.choice(["a", "u"])
        # one executor event = `rounds` rounds [pre sequential requests, k overlapping ones, next window] by goroutines that live
        # for the whole event and leave a busy-wait barrier together; it is recorded as the batch / adv events of each round
        hists.append([{"ev": "reset", "now": rng.randint(1, 9)},
                      {"ev": "pstorm", "r": "r1", "g": g, "n": k, "rounds": rounds, "pre": rng.randint(0, allowed - 1), "d": w}])
    return {"config": cfg, "histories": hists}


def straddle_script(rng, nhist):
    """a request descheduled right after it looked at the clock (the executor parks it inside its first Now() call), the clock
    crossing into the next window meanwhile, further requests of the same key before and after it continues: a stale reading
    carried across the boundary must not reopen the old window or reset the new one."""
    allowed = rng.choice([1, 2, 3])
    w = rng.choice([2, 4])
    cfg = {"groups": ["a", "b", "u"], "W": {"r1": w}, "Allowed": {"r1": allowed}, "Pct": {"r1": {"a": 100, "b": 50, "u": -1}},
           "DefBehav": {"r1": "use_default"}, "DefPct": {"r1": 100}, "Status": {"r1": 0}}
    hists = []
    for _ in range(nhist):
        now = rng.randint(1, 9)
        g = rng.choice(["a", "u"])
        h = [{"ev": "reset", "now": now}]
        pre = rng.randint(0, allowed - 1)
        if pre:
            h.append({"ev": "burst", "r": "r1", "g": g, "n": pre})
        h.append({"ev": "straddle", "r": "r1", "g": g, "n": allowed + 1, "d": rng.choice([w, w - now % w, w + 1])})
        h.append({"ev": "adv", "d": w})
        h.append({"ev": "burst", "r": "r1", "g": g, "n": allowed + 1})
        hists.append(h)
    return {"config": cfg, "histories": hists}


def share_config(rng):
    """large allowed counts with arbitrary integer percentages (incl. those whose float product lands just off an integer):
    the share is reached only by bursts of many requests"""
    cfg = {"groups": ["a", "b", "u"], "W": {"r1": rng.choice([2, 4])}, "Allowed": {"r1": rng.choice([10, 25, 50, 75, 100, 100, 200])},
           "Pct": {"r1": {"a": rng.choice([7, 14, 28, 29, 55, 56, 57, 58, rng.randint(1, 99)]), "b": rng.randint(0, 100), "u": -1}},
           "DefBehav": {"r1": rng.choice(["use_default", "allow", "block"])}, "DefPct": {"r1": rng.choice([0, 33, 100])},
           "Status": {"r1": rng.choice([0, 429, 503])}}
    return cfg


def share_history(rng, cfg):
    now = rng.randint(1, 9)
    h = [{"ev": "reset", "now": now}]
    a = cfg["Allowed"]["r1"]
    for g in rng.sample(["a", "b", "u"], 3):
        h.append({"ev": "burst", "r": "r1", "g": g, "n": a + 3})
    h.append({"ev": "adv", "d": cfg["W"]["r1"]})
    h.append({"ev": "burst", "r": "r1", "g": rng.choice(["a", "b"]), "n": a // 2 + 2})
    return h


# configurations every run must contain (input classes a random draw could miss): a listed group with a 0 % share under every
# default behaviour, an unlisted group under every default behaviour, an ungrouped remedy
def class_configs():
    out = []
    for db in ("allow", "undefined", "block", "use_default"):
        out.append({"groups": ["a", "b", "u", "A", "a ", NOHDR], "W": {"r1": 2}, "Allowed": {"r1": 2},
                    "Pct": {"r1": {"a": 0, "b": 50, "u": -1, "A": -1, "a ": -1, NOHDR: -1}}, "DefBehav": {"r1": db}, "DefPct": {"r1": 50},
                    "Status": {"r1": 503}})     # every rejection - over the share, 0 % share, unlisted group - carries the configured status
    return out


def class_history(rng, cfg):
    h = [{"ev": "reset", "now": rng.randint(1, 5)}]
    for g in ("a", "a", "b", "b", "u", "u", "u", "A", "a ", NOHDR, NOHDR, NOHDR):
        h.append({"ev": "req", "r": "r1", "g": g})
    h.append({"ev": "adv", "d": 2})
    for g in ("a", "u", "b", NOHDR):
        h.append({"ev": "req", "r": "r1", "g": g})
    return h


def rand_config(rng, thorough):
    rems = ["r1", "r2"][: rng.choice([1, 2, 2])]
    # group header values: two listed ones, an unknown one, and spelling variants of a listed one (distinct groups)
    cfg = {"groups": ["a", "b", "u", "A", "a ", NOHDR], "W": {}, "Allowed": {}, "Pct": {}, "DefBehav": {}, "DefPct": {}, "Status": {}}
    for r in rems:
        cfg["Status"][r] = rng.choice([0, 0, 429, 503, 418])        # 0 = response_status_code not configured (429)
        cfg["W"][r] = rng.choice(WSIZES)
        cfg["Allowed"][r] = rng.choice([1, 2, 3] + ([4, 5] if thorough else []))
        cfg["DefBehav"][r] = rng.choice(["none", "allow", "block", "use_default", "use_default", "undefined"])
        cfg["DefPct"][r] = rng.choice([0, 50, 100])
        cfg["Pct"][r] = {"a": rng.choice([25, 34, 50, 100]), "b": rng.choice([0, 50, 75, 100]), "u": -1, "A": -1, "a ": -1, NOHDR: -1}
        if cfg["DefBehav"][r] == "none":
            cfg["Pct"][r] = {g: -1 for g in cfg["groups"]}
    return cfg


def rand_history(rng, cfg, n, conc):
    rems = sorted(cfg["W"])
    now = rng.randint(1, 9)
    h = [{"ev": "reset", "now": now}]
    cur_w = dict(cfg["W"])
    hot = (rng.choice(rems), rng.choice(cfg["groups"]))     # most traffic on one key so windows fill up
    for _ in range(n):
        x = rng.random()
        if x < 0.05:
            r = rng.choice(rems)
            w = rng.choice([v for v in set(WSIZES) if v != cur_w[r]])
            cur_w[r] = w
            h.append({"ev": "setw", "r": r, "w": w})
        elif x < 0.33:
            w = cur_w[hot[0]]
            d = rng.choice([1, 1, 2, 3, w // 2, w, w - now % w, w - now % w])   # incl. exactly onto the grid boundary
            d = max(1, d)
            now += d
            h.append({"ev": "adv", "d": d})
        elif conc and x < 0.45:
            k = rng.randint(2, 5)
            reqs = [{"r": hot[0], "g": hot[1]} if rng.random() < 0.8 else
                    {"r": rng.choice(rems), "g": rng.choice(cfg["groups"])} for _ in range(k)]
            h.append({"ev": "conc", "reqs": reqs})
        else:
            r, g = hot if rng.random() < 0.7 else (rng.choice(rems), rng.choice(cfg["groups"]))
            h.append({"ev": "req", "r": r, "g": g})
    return h


def script_of_history(hist):
    """strip outcomes from a recorded history -> script events (concurrent groups re-assembled)."""
    out, conc = [], None
    for e in hist:
        if e["ev"] == "begin":
            if conc is None:
                conc = {"ev": "conc", "reqs": []}
                out.append(conc)
            conc["reqs"].append({"r": e["r"], "g": e["g"]})
        elif e["ev"] == "end":
            continue
        elif e["ev"] == "batch":
            conc = None
            out.append({"ev": e.get("kind") or ("storm" if e["g"].startswith("g") and e["g"][1:].isdigit() else "burst"),
                        "r": e["r"], "g": e["g"], "n": e["n"]})
        elif e.get("synthetic"):
            continue            # the executor's report of an odd answer inside a batch: re-created by re-running the batch
        else:
            conc = None
            out.append({k: v for k, v in e.items() if k != "out"})
    return out


def nontrivial(hist):
    """a history exercises the property if some request was blocked and some request arrived in a later window."""
    blocked = any(e.get("out") == "block" for e in hist)
    advanced = any(e["ev"] == "adv" for e in hist)
    return blocked and advanced


def witness_of(rej):
    h, at, cfg = rej["hist"], rej["at"], rej["config"]
    now, cur_w, changed = 0, dict(cfg["W"]), False
    for e in h[: at + 1]:
        if e["ev"] == "reset":
            now = e["now"]
        elif e["ev"] == "adv":
            now += e["d"]
        elif e["ev"] == "setw":
            cur_w[e["r"]] = e["w"]
            changed = True
    e = h[at]
    r = e.get("r")
    w = cur_w.get(r) if r else None
    return {"class": "verdict-not-allowed-by-spec", "event": e, "now": now,
            "on_grid_boundary": bool(w) and now % w == 0, "after_window_change": changed,
            "concurrent": e["ev"] in ("begin", "end", "batch"), "invariant": rej.get("invariant")}


def execute(ctx, binary, scripts, tag):
    d = ctx.sub("run-" + tag)
    sp = os.path.join(d, "scripts.json")
    json.dump(scripts, open(sp, "w"))
    ctx.run_harness(binary, ["run", sp, d])
    return [read_ndjson(os.path.join(d, "trace-%03d.ndjson" % i)) for i in range(len(scripts))]


def judge(ctx, binary, traces, tag, seen_hist, scripts=None):
    """validate recorded traces against ThrottleP; confirm each rejection by re-execution; report."""
    def one(it):
        i, ev = it
        return validate_history_trace(ctx, SPEC, "ThrottleTrace", ev, tag="%s%d" % (tag, i))
    res = parallel(one, list(enumerate(traces)), n=8)
    for ti, ((acc, rejected, rounds), ev) in enumerate(zip(res, traces)):
        cfg, hs = split_histories(ev)
        ctx.cov["traces_validated_against_impl"] += acc
        for h in hs:
            ctx.cov["evaluations"] += sum(e.get("n", 1) for e in h if e["ev"] in ("req", "begin", "batch"))
            key = json.dumps([cfg, h], sort_keys=True)
            if key not in seen_hist:
                seen_hist.add(key)
                if nontrivial(h):
                    ctx.cov["distinct_nontrivial"] += 1
        for rej in rejected:
            w = witness_of(rej)
            script = [{"config": rej["config"], "histories": [script_of_history(rej["hist"])]}]
            # reproduce: same script again on the real code, judged again by the spec.  A schedule-dependent rejection
            # is reproduced by re-running the whole originating script (same driver, same seed) until the spec rejects a
            # concurrent event again; the replay file then holds the reproduced case.
            reproduced = False
            if not w["concurrent"]:
                t2 = execute(ctx, binary, script, "%s-repro" % tag)[0]
                a2, r2, _ = validate_history_trace(ctx, SPEC, "ThrottleTrace", t2, tag="%s-repro" % tag)
                reproduced = bool(r2)
            else:
                # the originating script itself where it is known (its events may be richer than what a recording shows:
                # a pstorm is recorded as the bursts / storms / advances of its rounds)
                whole = [scripts[ti]] if scripts else [{"config": cfg, "histories": [script_of_history(h) for h in hs]}]
                for attempt in range(6):
                    t2 = execute(ctx, binary, whole if attempt else script, "%s-repro" % tag)[0]
                    a2, r2, _ = validate_history_trace(ctx, SPEC, "ThrottleTrace", t2, tag="%s-repro" % tag, max_rounds=1)
                    if r2 and witness_of(r2[0])["concurrent"]:
                        reproduced = True
                        rej = r2[0]
                        w = witness_of(rej)
                        script = [{"config": rej["config"], "histories": [script_of_history(rej["hist"])]}]
                        break
            if not reproduced:
                raise Broken("rejection not reproduced (%s): %s" % (tag, json.dumps(w)))
            ctx.violation(w, {"script": script, "trace": [rej["config"]] + rej["hist"], "rejected_at": rej["at"],
                              "schedule_dependent": w["concurrent"]})


def run(ctx):
    T = ctx.thorough
    binary = ctx.build_harness("c09")
    sd = ctx.spec_dir(SPEC)
    ctx.cov["rule"] = ("histories = seeded random scripts (requests for (remedy, group) keys, clock advances incl. steps landing "
                       "exactly on a grid boundary, concurrent batches) over random configurations + TLC -simulate walks of "
                       "ThrottleP; a history is non-trivial when it contains a blocked request and a clock advance; distinct by "
                       "(config, events)")
    ctx.cov["checker_cmd"] = "tlc -config MC_small.cfg ThrottleIP.tla ; tlc -config ThrottleTrace.cfg ThrottleTrace.tla"
    ctx.cov["trusted_base"] = ["TLC 1.8", "CommunityModules Json", "Go toolchain", "clock.MockClock", "harness/cmd/c09 projection (NoOp=pass, EarlyResponse{status}=block)"]
    ctx.assumptions += ["1 tick = 500 ms, windows are whole seconds (even ticks)", "spillover disabled", "window lengths drawn / reconfigured among {1,2,3,5,7,11} s", "instants are bounded in the exhaustive model (MaxNow)"]

    # (1) exhaustive: I => P on the bounded instance; the variant with the strict reset test must be refuted (non-vacuity)
    ctx.tlc_exhaustive(sd, "ThrottleIP", "MC_small.cfg" if not T else "MC_large.cfg", timeout=1500, label="I=>P (Conforms)")
    ctx.tlc_exhaustive(sd, "ThrottleIP", "MC_iso.cfg", timeout=300, label="I=>P two remedies (Isolation)")
    for cfgname, what in (("MC_small_strict.cfg", "strict After reset test"), ("MC_small_stale.cfg", "stale window after a window-length change")):
        r = ctx.tlc(sd, "ThrottleIP", cfgname, timeout=300, label="non-vacuity: %s must be refuted" % what)
        if r.violated is None:
            raise Broken("model cannot tell '%s' from the property (vacuous I=>P check): %r" % (what, r))

    # (1b) thorough: unbounded-time argument for the arithmetic core - Apalache discharges the inductive invariant of
    #      ThrottleInd (Init => IndInv; IndInv /\ Next => IndInv') for all instants, window lengths and limits; the strict
    #      reset test of the pinned commit must NOT be inductive. A stall / tool failure only loses the note, never the verdict.
    if T:
        apalache_step(ctx, sd)

    seen = set()
    # (2) spec -> code: TLC-generated behaviours of P, replayed; real outcomes must equal the spec's
    n = 100 if not T else 1000    # each walk is printed once per successor of its last state (~9x)
    g = ctx.tlc(sd, "GenC09", "GenC09.cfg", workers=1, simulate="num=%d" % n, depth=25, extra=["-seed", str(ctx.seed)],
                timeout=600, label="behaviour generation")
    behaviours = tlc_vh_lines(g.out)
    if len(behaviours) < n // 2:
        raise Broken("behaviour generation produced %d walks: %s" % (len(behaviours), g.out[-1500:]))
    hists = [[{"ev": "reset", "now": 1}] + [{k: v for k, v in e.items() if k != "out"} for e in b] for b in behaviours]
    traces = execute(ctx, binary, [{"config": GEN_CONFIG, "histories": hists}], "gen")
    cfg, real = split_histories(traces[0])
    mism = 0
    for b, h in zip(behaviours, real):
        for i, (se, re_) in enumerate(zip(b, h[1:])):
            if se.get("out") != re_.get("out"):
                mism += 1       # not a verdict: P may permit both outcomes right after a window-length change; TLC judges below
                break
    ctx.log("replayed %d TLC behaviours, %d take another (possibly also permitted) branch than the walk" % (len(behaviours), mism))
    ctx.sample({"kind": "tlc-behaviour", "config": GEN_CONFIG, "events": behaviours[0][:12]})
    judge(ctx, binary, traces, "gen", seen)     # mismatches surface as rejections (P is deterministic)

    # (3) code -> spec: random scripts incl. concurrency, recorded and validated
    ncfg, nh, hl = (6, 30, 30) if not T else (24, 120, 40)
    scripts = []
    for c in range(ncfg):
        cfg = rand_config(ctx.rng, T)
        scripts.append({"config": cfg, "histories": [rand_history(ctx.rng, cfg, hl, conc=(i % 2 == 1)) for i in range(nh)]})
    # one storm script = 3000 fresh keys (the key set is a constant of the trace spec: 30 000 keys in one trace made every
    # state evaluation 10x dearer and the validation ran into the time limit); the thorough tier runs ten such scripts
    for _ in range(1 if not T else 10):
        scripts.append(storm_script(ctx.rng, 3000, 8))
    for _ in range(1 if not T else 10):
        scripts.append(hot_storm_script(ctx.rng, 16, 120, 4))
    for _ in range(2 if not T else 12):
        scripts.append(straddle_script(ctx.rng, 6))
    for cfg in class_configs():
        scripts.append({"config": cfg, "histories": [class_history(ctx.rng, cfg) for _ in range(3)]})
    # share configurations every run contains: the percentages whose float image is not exact (p / 100 * 100 != p: 29, 57, 58) and
    # their neighbours, with allowed counts large enough for one percent to change the rounded-up share; then random ones
    fixed_shares = [(100, 29), (200, 57), (100, 58), (100, 28), (200, 58), (25, 29), (50, 57)]
    for k in range(8 if not T else 60):
        cfg = share_config(ctx.rng)
        if k < len(fixed_shares):
            cfg["Allowed"]["r1"], cfg["Pct"]["r1"]["a"] = fixed_shares[k]
        scripts.append({"config": cfg, "histories": [share_history(ctx.rng, cfg) for _ in range(2)]})
    traces = execute(ctx, binary, scripts, "rand")
    ctx.sample({"kind": "recorded-trace", "events": traces[0][:14]})
    judge(ctx, binary, traces, "rand", seen, scripts)

    # (4) binding self-test (thorough): a corrupted / truncated recording must be rejected
    if T:
        ev = [e for e in traces[0]]
        k = next(i for i, e in enumerate(ev) if e.get("ev") == "req" and e.get("out") == "block")
        bad = [dict(e) for e in ev]
        bad[k]["out"] = "pass"
        _, rej, _ = validate_history_trace(ctx, SPEC, "ThrottleTrace", bad, tag="selftest1", max_rounds=1)
        k2 = next(i for i, e in enumerate(ev) if e.get("ev") == "req" and e.get("out") == "pass")
        drop = [e for i, e in enumerate(ev) if i != k2]
        _, rej2, _ = validate_history_trace(ctx, SPEC, "ThrottleTrace", drop, tag="selftest2", max_rounds=1)
        if not rej:
            raise Broken("self-test: corrupted trace accepted")
        ctx.notes.append("self-test: corrupted verdict rejected=%s, dropped pass event rejected=%s" % (bool(rej), bool(rej2)))


def apalache_step(ctx, sd):
    import subprocess, shutil
    d = os.path.join(ctx.scratch, "apalache")
    os.makedirs(d, exist_ok=True)
    shutil.copy(os.path.join(sd, "ThrottleInd.tla"), d)
    res = {}
    for name, args in (("base", ["--cinit=CInit", "--init=Init", "--length=0"]),
                       ("step", ["--cinit=CInit", "--init=IndInit", "--length=1"]),
                       ("strict-step", ["--cinit=CInitStrict", "--init=IndInit", "--length=1"])):
        try:
            p = subprocess.run(["timeout", "300", "apalache-mc", "check", "--inv=IndInv"] + args + ["ThrottleInd.tla"],
                               cwd=d, stdout=subprocess.PIPE, stderr=subprocess.STDOUT, text=True)
            res[name] = "ok" if "EXITCODE: OK" in p.stdout else ("violated" if "EXITCODE: ERROR (12)" in p.stdout else "failed")
        except Exception as e:
            res[name] = "failed"
    ctx.cov["apalache_inductive"] = res
    if res.get("base") == "ok" and res.get("step") == "ok" and res.get("strict-step") == "violated":
        ctx.cov["obligations"] = 2
        ctx.cov["discharged"] = 2
        ctx.notes.append("Apalache: IndInv of ThrottleInd (Bound and Exact of one key, unbounded clock / window length / limit) is inductive "
                         "for the repaired reset test and not inductive for the strict one")
    elif res.get("step") == "violated" or res.get("base") == "violated":
        raise Broken("Apalache refutes the inductive invariant of ThrottleInd: %s" % res)
    else:
        ctx.notes.append("Apalache step not completed (%s): nothing is claimed from it" % res)


def replay(ctx, path):
    obj = json.load(open(path))
    binary = ctx.build_harness("c09")
    rp = obj["replay"]
    # the recorded real trace, judged again by the specification (deterministic)
    _, rej0, _ = validate_history_trace(ctx, SPEC, "ThrottleTrace", rp["trace"], tag="replay-rec", max_rounds=1)
    print("recorded trace: %s by the specification" % ("REJECTED" if rej0 else "accepted"))
    # re-execution on the real code (schedule-dependent cases: repeated)
    for attempt in range(300 if rp.get("schedule_dependent") else 1):
        t = execute(ctx, binary, rp["script"], "replay")[0]
        acc, rej, _ = validate_history_trace(ctx, SPEC, "ThrottleTrace", t, tag="replay", max_rounds=1)
        if rej:
            for e in t:
                print(json.dumps(e))
            print("VIOLATION property=C09 replay=%s" % path)
            print("   re-execution %d rejected at event %d: %s" % (attempt + 1, rej[0]["at"], json.dumps(rej[0]["hist"][rej[0]["at"]])))
            return 1
    print("re-execution accepted by the specification" + (" (schedule-dependent case, 300 attempts)" if rp.get("schedule_dependent") else ""))
    return 0
