"""Helper shared by the function-like checks C07 and C16 (owned by them).

A recorded execution of a function-like property is one NDJSON event per case carrying the input and the real
output; the Trace spec's step evaluates the property relation P(input, output) and prints
    <<"REJECT", <line>, <id>>>
for a case the property does not permit, then goes on.  The verdict is TLC's: this module only splits the events
into chunks, runs TLC on them in parallel and collects the rejected line numbers.
"""
import os, re, shutil
from vlib import Broken, write_ndjson, parallel


def judge_cases(ctx, specname, module, events, tag, **kw):
    """returns the sorted list of indices (into events) TLC rejected; raises Broken when TLC did not consume everything"""
    return sorted(judge_cases_detail(ctx, specname, module, events, tag, **kw))


def judge_cases_detail(ctx, specname, module, events, tag, cfg=None, chunk=4000, par=6, timeout=900, drift=None):
    """{index into events: text TLC printed after the id in its REJECT tuple} for the rejected cases;
    indices TLC reported as <<"DRIFT", line, id>> (real output differs from the implementation-shaped model) are added to `drift`"""
    if not events:
        return {}
    sd = ctx.spec_dir(specname)
    chunks = [(i, events[i:i + chunk]) for i in range(0, len(events), chunk)]

    def one(it):
        off, evs = it
        wd = os.path.join(ctx.scratch, "fj-%s-%s-%d" % (specname, tag, off))
        if os.path.isdir(wd):
            shutil.rmtree(wd)
        shutil.copytree(sd, wd)
        p = os.path.join(wd, "trace.ndjson")
        write_ndjson(p, evs)
        ok, hwm, r = ctx.tlc_trace(wd, module, p, cfg=cfg, timeout=timeout)
        if r.violated or r.error or hwm != len(evs):
            raise Broken("trace validation %s (%s, offset %d) did not consume the trace: hwm=%d of %d %r\n%s" % (
                module, tag, off, hwm, len(evs), r, r.out[-2500:]))
        rej = {int(m.group(1)) - 1 + off: m.group(2) for m in re.finditer(r'<<"REJECT", (\d+), ([^>]*)>>', r.out)}
        if drift is not None:
            drift.update(int(m.group(1)) - 1 + off for m in re.finditer(r'<<"DRIFT", (\d+), [^>]*>>', r.out))
        shutil.rmtree(wd, ignore_errors=True)
        return rej

    out = {}
    for r in parallel(one, chunks, n=par):
        out.update(r)
    return out


def exhaustive_parallel(ctx, specdir, module, runs, workers=4, timeout=1500, par=4):
    """runs = [(cfg, label, expect)]; expect None = must complete without error (counted in states/transitions),
    expect "<Invariant>" = must be refuted with exactly that invariant (non-vacuity).  TLC runs side by side."""
    def one(run):
        cfg, label, expect = run
        return ctx.tlc(specdir, module, cfg, workers=workers, timeout=timeout, label=label)
    res = parallel(one, runs, n=par)
    for (cfg, label, expect), r in zip(runs, res):
        if expect is None:
            if not r.ok:
                raise Broken("TLC %s/%s: %r\n%s" % (module, cfg, r, r.out[-3000:]))
            if r.distinct <= 1:
                raise Broken("TLC %s/%s explored a trivial state space" % (module, cfg))
            ctx.cov["states"] += r.distinct
            ctx.cov["transitions"] += r.generated
            ctx.log("TLC %s %s: %d generated / %d distinct, depth %d, %.1fs  (%s)" % (module, cfg, r.generated, r.distinct, r.depth, r.wall, label))
        elif expect == "accepted":
            if not r.ok:
                raise Broken("the property spec rejects a variant the statement does not forbid (%s): %r" % (label, r))
        elif r.violated != expect:
            raise Broken("the model does not distinguish a broken variant from the property - vacuous (%s): %r" % (label, r))
    return res
