"""X04 (growth) - the Java (and TypeScript) interceptor against the interceptor specification.

spec:     specs/x04_interceptor_impls  (+ the P modules of specs/c19_interceptor, REUSED unchanged: FailSafeRel, TrafficFilterP)
            InterceptorImpls   the derived statement (F1-F7, T1-T5), the implementations, the NAMED DEVIATIONS pinned per implementation
            FailSafeRelV       FailSafeRel + F7 Fallback + deviations  (successor relation on P-states)
            FailSafeJavaI / MC_X04FS     implementation-shaped model of FailSafe.java + the injected code, I => P by subset construction
            FailSafeTraceV     tree validation, judged twice in one walk: statement alone (OBS) / statement + pinned deviations (REJ)
            TrafficFilterV     TrafficFilterP + T5 Forward + deviations;  TrafficFilterJavaI / MC_X04Filter (input space, I => P, case generation)
            X04FilterTrace     recorded decisions judged (Obs / Bad / Drift)
binding:  harness/java/x04: the interceptor's Java sources compiled unchanged with javac (stand-ins only for javassist / org.json / okhttp3),
          the injected code (InjectData declarations + resources/okhttp3/realcall.*) compiled verbatim into a stand-in okhttp3.RealCall
          (X04Gen), executor X04Exec (same script / trace formats as py/c19_exec.py).  TypeScript: node >= 22.6 type stripping (ts part).
"""
import json, os, re, shutil, subprocess, sys, threading
from vlib import Broken, VERIF, REPO, read_ndjson, parallel, tlc_vh_lines

SPEC = "x04_interceptor_impls"
C19 = "c19_interceptor"
JH = os.path.join(VERIF, "harness", "java", "x04")
PROXY = "lunar-proxy.test:8000"

TH = os.path.join(VERIF, "harness", "ts", "x04")
DEV_LEG = "exception-in-gateway-leg-counts-as-gateway-failure"
DEV_TWICE = "gateway-error-response-counts-twice"
DEV_EMPTY = "empty-allow-list-value-routes-nothing"
PINNED = {"java": [DEV_LEG, "ipv6-internal-destination-routed", "list-items-compared-as-typed", "unsupported-allow-item-raises", DEV_EMPTY],
          "ts": [DEV_LEG, DEV_TWICE, "names-never-resolved", "ipv6-literal-cut-at-colon", "list-items-compared-as-typed", DEV_EMPTY]}


# ----------------------------------------------------------------------------------------------- plumbing
_WD_LOCK = threading.Lock()
_COV_LOCK = threading.Lock()


def cov_add(ctx, key, n):
    with _COV_LOCK:
        ctx.cov[key] = ctx.cov.get(key, 0) + n


def workdir(ctx, tag):
    """private directory with the C19 P modules, the X04 modules and specs/common (trace.ndjson lives next to the Trace spec)."""
    wd = os.path.join(ctx.scratch, "tv-" + tag)
    with _WD_LOCK:
        if not os.path.isdir(wd):
            tmp = wd + ".part"
            shutil.copytree(ctx.spec_dir(C19), tmp)
            src = os.path.join(VERIF, "specs", SPEC)
            for f in os.listdir(src):
                shutil.copy(os.path.join(src, f), tmp)
            os.rename(tmp, wd)
    return wd


def build_java(ctx):
    out = os.path.join(ctx.scratch, "java")
    with _WD_LOCK:
        return _build_java(ctx, out)


def _build_java(ctx, out):
    if os.path.isdir(os.path.join(out, "cls")):
        return out
    import time
    t = time.time()
    p = subprocess.run([os.path.join(JH, "build.sh"), REPO, out], stdout=subprocess.PIPE, stderr=subprocess.STDOUT, text=True, timeout=600)
    if p.returncode != 0:
        raise Broken("javac build of the Java interceptor + harness failed:\n%s" % p.stdout[-4000:])
    ctx.log("built the Java interceptor + harness/java/x04 with javac in %.1fs" % (time.time() - t))
    return out


def java_env(extra=None):
    env = {k: v for k, v in os.environ.items() if not k.startswith("LUNAR_")}
    env["LUNAR_PROXY_HOST"] = PROXY
    env["LUNAR_INTERCEPTOR_LOG_LEVEL"] = "OFF"
    env.pop("JAVA_TOOL_OPTIONS", None)
    if extra:
        env.update({k: v for k, v in extra.items() if v is not None})
    return env


def run_java(ctx, args, hosts_file, env=None, timeout=900, heap="1g"):
    jb = build_java(ctx)
    cmd = ["java", "-Xmx" + heap, "-XX:+UseSerialGC", "--add-opens", "java.base/java.util=ALL-UNNAMED",
           "--add-opens", "java.base/java.lang=ALL-UNNAMED", "-Djdk.net.hosts.file=" + hosts_file, "-Dsun.net.inetaddr.ttl=-1",
           "-cp", os.path.join(jb, "cls"), "dev.lunar.interceptor.X04Exec"] + list(args)
    try:
        p = subprocess.run(cmd, cwd=ctx.sub("jcwd"), env=java_env(env), stdout=subprocess.PIPE, stderr=subprocess.PIPE, text=True, timeout=timeout)
    except subprocess.TimeoutExpired:
        raise Broken("java executor timed out: %s" % " ".join(args))
    if p.returncode != 0:
        raise Broken("java executor failed rc=%d: %s\n%s" % (p.returncode, " ".join(args), (p.stderr or p.stdout)[-3000:]))
    try:
        return json.loads(p.stdout.strip().splitlines()[-1])
    except Exception:
        raise Broken("java executor printed no summary: %s" % p.stdout[-500:])


def hosts_file(ctx, hosts, name="hosts"):
    """the resolver table of a run as a hosts file for -Djdk.net.hosts.file (names only; everything else is unknown to the resolver)"""
    lines = ["93.184.216.34 api.pub.com"]
    for h in hosts:
        if h["kind"] in ("name", "junk") and h["rsv"] == "ok":
            if h["ip"]:
                lines.append("%s %s" % (".".join(str(o) for o in h["ip"]), h["h"]))
            elif h["ip6"]:
                lines.append("%s %s" % (":".join("%x" % g for g in h["ip6"]), h["h"]))
    p = os.path.join(ctx.sub("hosts"), name)
    open(p, "w").write("\n".join(dict.fromkeys(lines)) + "\n")
    return p


def find_node():
    """a node that runs TypeScript sources directly (type stripping + enum transform: >= 22.7); None when there is none (no typescript
    compiler is installed in this sandbox and none can be fetched)"""
    import glob
    cands = [os.environ.get("X04_NODE")] + sorted(glob.glob("/root/.nvm/versions/node/v2[2-9]*/bin/node"), reverse=True) + [shutil.which("node")]
    for c in cands:
        if not c or not os.path.exists(c):
            continue
        try:
            v = subprocess.run([c, "--version"], stdout=subprocess.PIPE, text=True, timeout=20).stdout.strip().lstrip("v").split(".")
            if (int(v[0]), int(v[1])) >= (22, 7):
                return c
        except Exception:
            continue
    return None


def run_ts(ctx, node, args, timeout=900):
    cmd = [node, "--no-warnings", "--experimental-transform-types", "--import", os.path.join(TH, "register.mjs"), os.path.join(TH, "exec.mjs")] + list(args)
    env = {k: v for k, v in os.environ.items() if not k.startswith("LUNAR_")}
    env["VERIF_REPO"] = REPO
    try:
        p = subprocess.run(cmd, cwd=ctx.sub("tcwd"), env=env, stdout=subprocess.PIPE, stderr=subprocess.PIPE, text=True, timeout=timeout)
    except subprocess.TimeoutExpired:
        raise Broken("node executor timed out: %s" % " ".join(args))
    if p.returncode != 0:
        raise Broken("node executor failed rc=%d: %s\n%s" % (p.returncode, " ".join(args), (p.stderr or p.stdout)[-3000:]))
    try:
        return json.loads(p.stdout.strip().splitlines()[-1])
    except Exception:
        raise Broken("node executor printed no summary: %s" % p.stdout[-500:])


def texec(node):
    def f(ctx, args, **kw):
        return run_ts(ctx, node, args)
    return f


# ----------------------------------------------------------------------------------------------- fail-safe: alphabets
def alphabet(adv, gw_read, gw_noread=None, ok_kind="", app="error", extra=()):
    a = [{"ev": "ask"}] + [{"ev": "adv", "d": d} for d in adv] + [
        {"ev": "call", "read": True, "out": "ok", "kind": ok_kind},
        {"ev": "call", "read": True, "out": "gwerr", "kind": gw_read},
        {"ev": "call", "read": True, "out": "appexc", "kind": app}]
    if gw_noread:
        a += [{"ev": "call", "read": False, "out": "gwerr", "kind": gw_noread},
              {"ev": "call", "read": False, "out": "ok", "kind": ok_kind}]
    return a + list(extra)


CORE = alphabet([1], "conn")
CORE7 = alphabet([8], "proxy/X-Lunar-Error/3", "proxy/x-lunar-error/9", ok_kind="seq")
EXT = alphabet([8], "timeout", extra=[
    {"ev": "call", "read": True, "out": "skip", "kind": ""},
    {"ev": "call", "read": True, "out": "gwerr", "kind": "proxy/X-LUNAR-ERROR/5"},
    {"ev": "call", "read": False, "out": "gwerr", "kind": "unknownhost"},
    {"ev": "call", "read": False, "out": "ok", "kind": ""},
    {"ev": "call", "read": False, "out": "appexc", "kind": "error"}])
FRAC = alphabet([7, 1], "proxy/x-Lunar-Error/2")[:-1]
# the family that exhibits the pinned deviation: exceptions of the application inside the gateway leg
DEVF = alphabet([1], "conn", app="runtime", extra=[{"ev": "call", "read": True, "out": "appexc", "kind": "io+"},
                                                    {"ev": "call", "read": False, "out": "appexc", "kind": "runtime+"}])
# TypeScript (fetch hook): every rejection of the gateway leg is caught (no conforming application exception); an error RESPONSE counts twice
T_CORE = [{"ev": "ask"}, {"ev": "adv", "d": 1}, {"ev": "call", "read": True, "out": "ok", "kind": ""},
          {"ev": "call", "read": True, "out": "gwerr", "kind": "conn"}, {"ev": "call", "read": True, "out": "skip", "kind": ""}]
T_CORE7 = [{"ev": "ask"}, {"ev": "adv", "d": 8}, {"ev": "call", "read": True, "out": "ok", "kind": "seq"},
           {"ev": "call", "read": True, "out": "gwerr", "kind": "timeout"}, {"ev": "call", "read": False, "out": "gwerr", "kind": "unknownhost"},
           {"ev": "call", "read": False, "out": "ok", "kind": ""}]
T_FRAC = [{"ev": "ask"}, {"ev": "adv", "d": 7}, {"ev": "adv", "d": 1}, {"ev": "call", "read": True, "out": "ok", "kind": ""},
          {"ev": "call", "read": True, "out": "gwerr", "kind": "conn"}]
T_DEVF = [{"ev": "ask"}, {"ev": "adv", "d": 1}, {"ev": "call", "read": True, "out": "ok", "kind": ""},
          {"ev": "call", "read": True, "out": "gwerr", "kind": "proxy/x-lunar-error/2"}, {"ev": "call", "read": True, "out": "gwerr", "kind": "conn"},
          {"ev": "call", "read": True, "out": "appexc", "kind": "runtime"}, {"ev": "call", "read": True, "out": "appexc", "kind": "io+"},
          {"ev": "call", "read": False, "out": "gwerr", "kind": "proxy/X-Lunar-Error/4"}]
CONFIGS = [{"N": n, "C": c} for n in (1, 2, 3) for c in (1, 2, 3)]
GW_KINDS = ["conn", "timeout", "unknownhost", "proxy/x-lunar-error/2", "proxy/X-Lunar-Error/4", "proxy/X-LUNAR-ERROR/1", "proxy/x-Lunar-error/77"]
OK_KINDS = ["", "seq", "retry0"]
APP_OK = ["error", "error+"]              # java.lang.Error: not caught by the injected code
APP_DEV = ["runtime", "runtime+", "io", "io+"]


def timed(cfgs, unit, phase):
    return [dict(c, unit=unit, phase=phase) for c in cfgs]


# ----------------------------------------------------------------------------------------------- fail-safe: judging
def load_tree(path):
    nodes = read_ndjson(path)
    parent = [0] * (len(nodes) + 2)
    for i, n in enumerate(nodes, start=1):
        for c in n["k"]:
            parent[c] = i
    return nodes, parent


def path_to(nodes, parent, nid):
    p = []
    while nid > 1:
        p.append(nodes[nid - 1])
        nid = parent[nid]
    p.reverse()
    return p        # [reset, e1, ..., e_bad]


def script_of(path):
    r = path[0]
    cfg = {"N": r["N"], "C": r.get("Csec", r["C"]), "unit": r.get("unit", 1), "phase": r.get("phase", 0)}
    if r.get("default"):
        cfg = {"default": True, "unit": r.get("unit", 1), "phase": r.get("phase", 0)}
    evs = []
    for e in path[1:]:
        s = {"ev": e["ev"]}
        if e["ev"] == "adv":
            s["d"] = e["d"]
        if e["ev"] == "call":
            s.update(read=e["read"], out=e["out"], kind=e.get("kind", ""))
        evs.append(s)
    return {"config": cfg, "events": evs}


def validate_tree(ctx, trace_path, tag, workers=4, heap=None):
    """TLC walks the recorded tree with FailSafeTraceV.  Returns (rejected node ids, observation node ids, visited, lines)."""
    wd = workdir(ctx, tag)
    dst = os.path.join(wd, "trace.ndjson")
    if os.path.abspath(trace_path) != dst:
        shutil.copy(trace_path, dst)
    r = ctx.tlc(wd, "FailSafeTraceV", "FailSafeTraceV.cfg", workers=workers, timeout=1500, count=False, heap=heap)
    if not r.ok:
        raise Broken("tree validation %s failed to run: %r\n%s" % (tag, r, r.out[-2500:]))
    rej = sorted(int(x) for x in re.findall(r'<<"REJ", (\d+)>>', r.out))
    obs = sorted(int(x) for x in re.findall(r'<<"OBS", (\d+)>>', r.out))
    m = re.search(r'<<"TREE", (\d+), (\d+)>>', r.out)
    if not m:
        raise Broken("tree validation %s: no TREE line\n%s" % (tag, r.out[-1500:]))
    visited, lines = int(m.group(1)), int(m.group(2))
    if not rej and visited != lines:
        raise Broken("tree validation %s: %d of %d nodes visited but nothing rejected" % (tag, visited, lines))
    os.remove(dst)
    return rej, obs, visited, lines


def leaf_stats(nodes):
    """bookkeeping for the evidence: root-to-leaf histories, and those in which the breaker opened and recovered"""
    leaves = nontrivial = 0
    stack = [(1, 0)]
    while stack:
        nid, ph = stack.pop()
        n = nodes[nid - 1]
        if n["ev"] == "reset":
            ph = 0
        elif n["ev"] == "ask" or (n["ev"] == "call" and n["read"]):
            if not n["ans"] and ph == 0:
                ph = 1
            elif n["ans"] and ph == 1:
                ph = 2
        if not n["k"]:
            if nid > 1:
                leaves += 1
                nontrivial += ph == 2
        else:
            stack.extend((c, ph) for c in n["k"])
    return leaves, nontrivial


def ev_brief(e):
    b = {"ev": e["ev"]}
    if e["ev"] == "adv":
        b["d"] = e["d"]
    if e["ev"] == "call":
        b.update(read=e["read"], out=e["out"], kind=e.get("kind", ""))
    if e["ev"] in ("ask", "call") and "ans" in e:
        b.update(ans=e["ans"])
    if e["ev"] == "call" and "raised" in e:
        b.update(raised=e["raised"], via=e.get("via", ""))
    return b


def witness_failsafe(path, impl="java"):
    bad = path[-1]
    fails = sum(1 for e in path if e["ev"] == "call" and e["out"] == "gwerr")
    w = {"class": "failsafe-observation-not-permitted", "impl": impl, "N": path[0]["N"], "C": path[0]["C"], "at": len(path) - 1,
         "now": sum(e["d"] for e in path if e["ev"] == "adv"),
         "gateway_failures_before": fails - (bad["ev"] == "call" and bad["out"] == "gwerr"), "event": ev_brief(bad)}
    if bad["ev"] == "call" and bad["out"] == "appexc" and bad["raised"] != "same" and (bad["ans"] or not bad["read"]):
        w["class"] = "application-exception-not-propagated"
    elif bad["ev"] == "call" and bad["out"] == "gwerr" and (bad["ans"] or not bad["read"]) and (bad["raised"] != "none" or bad.get("via") != "direct"):
        w["class"] = "no-fallback-to-the-provider"
    elif bad["ev"] == "call" and bad.get("via") not in (None, "") and \
            ((bad["out"] == "ok" and bad.get("via") != "gateway" and (bad["ans"] or not bad["read"])) or
             ((bad["out"] == "skip" or (bad["read"] and not bad["ans"])) and bad.get("via") != "direct")):
        w["class"] = "served-by-the-wrong-side"
    return w


def obs_class(path):
    """bookkeeping: which pinned deviation an observation belongs to (the strict judgement rejected the last event of path)"""
    ran = [e for e in path if e["ev"] == "call" and (e["ans"] or not e["read"])]
    app = [e for e in ran if e["out"] == "appexc" and e.get("kind") in APP_DEV]
    twice = [e for e in ran if e["out"] == "gwerr" and e.get("kind", "").startswith("proxy/")] if path[0].get("impl") == "ts" else []
    if app and twice:
        return "several-deviations-at-once"
    if app:
        return DEV_LEG
    if twice:
        return DEV_TWICE
    return "unattributed"


def judge_tree(ctx, impl, execf, trace_path, tag, workers=4, heap=None, max_report=3):
    """validate; reproduce each (of the first few, shortest) rejection by re-executing its history alone; report.
    Returns (rej, obs, visited, lines); observations are collected in ctx.x04_obs."""
    rej, obs, visited, lines = validate_tree(ctx, trace_path, tag, workers, heap)
    if rej or obs:
        nodes, parent = load_tree(trace_path)
    if obs:
        for o in obs:
            p = path_to(nodes, parent, o)
            c = obs_class(p)
            with _COV_LOCK:
                slot = ctx.x04_obs.setdefault((impl, "failsafe", c), {"count": 0, "example": None})
                slot["count"] += 1
                if slot["example"] is None or len(p) < len(slot["example"]["events"]) + 1:
                    slot["example"] = {"config": script_of(p)["config"], "events": [ev_brief(e) for e in p[1:]]}
    if rej:
        paths = sorted((path_to(nodes, parent, r) for r in rej), key=len)
        seen = set()
        for p in paths:
            w = witness_failsafe(p, impl)
            key = json.dumps([w["class"], w["event"], w["N"], w["C"]], sort_keys=True)
            if key in seen or len(seen) >= max_report:
                continue
            seen.add(key)
            sc = script_of(p)
            d = ctx.sub("repro-" + tag)
            json.dump([sc], open(os.path.join(d, "s.json"), "w"))
            execf(ctx, ["scripts", os.path.join(d, "s.json"), os.path.join(d, "t.ndjson")])
            r2, _, _, _ = validate_tree(ctx, os.path.join(d, "t.ndjson"), "repro-" + tag, workers=1)
            if not r2:
                raise Broken("rejection not reproduced (%s): %s" % (tag, json.dumps(w)))
            ctx.violation(w, {"kind": "failsafe", "impl": impl, "script": sc, "recorded": [ev_brief(e) for e in p], "rejected_nodes_in_run": len(rej)})
    return rej, obs, visited, lines


# ----------------------------------------------------------------------------------------------- parts: model
def part_model(ctx, with_ts):
    T = ctx.thorough
    fs_ok = [("MC_X04FS", "MC_X04FS_java.cfg" if not T else "MC_X04FS_java_large.cfg", "java fail-safe: I=>P (subset construction) under the pinned deviation")]
    if T:
        fs_ok += [("MC_X04FS", "MC_X04FS_java_benign.cfg", "java fail-safe: benign variant (counter cleared on recovery) must refine P")]
    fs_bad = [("MC_X04FS", "MC_X04FS_java_strict.cfg", "the pinned deviation is real: I is refuted by the statement alone"),
              ("MC_X04FS", "MC_X04FS_java_strictcool.cfg", "non-vacuity: strict cool-down test"),
              ("MC_X04FS", "MC_X04FS_java_noreset.cfg", "non-vacuity: success not clearing the counter"),
              ("MC_X04FS", "MC_X04FS_java_nofallback.cfg", "non-vacuity: gateway failure reaching the caller"),
              ("MC_X04FS", "MC_X04FS_java_throwable.cfg", "non-vacuity: java.lang.Error swallowed and counted"),
              ("MC_X04FS", "MC_X04FS_java_ignore.cfg", "non-vacuity: breaker not consulted")]
    if T:
        fs_bad += [("MC_X04FS", "MC_X04FS_java_%s.cfg" % w, "witness %s" % w) for w in
                   ("W_NeverOpen", "W_NeverRecovered", "W_NeverLateWhileOpen", "W_NeverErrorPropagated", "W_NeverAppExcOpens")]
    f_ok = [("MC_X04Filter", "MC_X04Filter_java.cfg" if not T else "MC_X04Filter_java_thorough.cfg",
             "java filter: every result of the transcription permitted under the pinned deviations + case generation")]
    f_bad = [("MC_X04Filter", "MC_X04Filter_java_strict.cfg", "the pinned deviations are real: refuted by the statement alone"),
             ("MC_X04Filter", "MC_X04Filter_java_nov6dev.cfg", "deviation ipv6-internal-destination-routed is needed"),
             ("MC_X04Filter", "MC_X04Filter_java_nocasedev.cfg", "deviation list-items-compared-as-typed is needed"),
             ("MC_X04Filter", "MC_X04Filter_java_noraisedev.cfg", "deviation unsupported-allow-item-raises is needed"),
             ("MC_X04Filter", "MC_X04Filter_java_noemptydev.cfg", "deviation empty-allow-list-value-routes-nothing is needed"),
             ("MC_X04Filter", "MC_X04Filter_java_blockinv.cfg", "non-vacuity: inverted block-list test"),
             ("MC_X04Filter", "MC_X04Filter_java_no172.cfg", "non-vacuity: 172.16/12 missing from the private ranges"),
             ("MC_X04Filter", "MC_X04Filter_java_allowthrough.cfg", "non-vacuity: destination outside the allow list judged by the external test")]
    if with_ts:
        fs_ok += [("MC_X04FSTs", "MC_X04FSTs_ts.cfg" if not T else "MC_X04FSTs_ts_large.cfg", "ts fail-safe: I=>P (subset construction) under the pinned deviations")]
        fs_bad += [("MC_X04FSTs", "MC_X04FSTs_ts_strict.cfg", "the pinned deviations are real: I is refuted by the statement alone"),
                   ("MC_X04FSTs", "MC_X04FSTs_ts_notwicedev.cfg", "deviation gateway-error-response-counts-twice is needed"),
                   ("MC_X04FSTs", "MC_X04FSTs_ts_nolegdev.cfg", "deviation exception-in-gateway-leg-counts-as-gateway-failure is needed"),
                   ("MC_X04FSTs", "MC_X04FSTs_ts_strictcool.cfg", "non-vacuity: strict cool-down test"),
                   ("MC_X04FSTs", "MC_X04FSTs_ts_noreset.cfg", "non-vacuity: success not clearing the counter"),
                   ("MC_X04FSTs", "MC_X04FSTs_ts_nofallback.cfg", "non-vacuity: gateway failure reaching the caller"),
                   ("MC_X04FSTs", "MC_X04FSTs_ts_ignore.cfg", "non-vacuity: breaker not consulted")]
        if T:
            fs_ok += [("MC_X04FSTs", "MC_X04FSTs_ts_benign.cfg", "ts fail-safe: benign variant (counter cleared on recovery) must refine P"),
                      ("MC_X04FSTs", "MC_X04FSTs_ts_countonce.cfg", "ts fail-safe: an error response counted once refines P without that deviation")]
            fs_bad += [("MC_X04FSTs", "MC_X04FSTs_ts_%s.cfg" % w, "witness %s" % w) for w in ("W_NeverOpen", "W_NeverEarlyTrip")]
        f_ok += [("MC_X04Filter", "MC_X04Filter_ts.cfg" if not T else "MC_X04Filter_ts_thorough.cfg",
                  "ts filter: the result of the transcription permitted under the pinned deviations")]
        f_bad += [("MC_X04Filter", "MC_X04Filter_ts_strict.cfg", "the pinned deviations are real: refuted by the statement alone"),
                  ("MC_X04Filter", "MC_X04Filter_ts_nonamesdev.cfg", "deviation names-never-resolved is needed"),
                  ("MC_X04Filter", "MC_X04Filter_ts_nocutdev.cfg", "deviation ipv6-literal-cut-at-colon is needed"),
                  ("MC_X04Filter", "MC_X04Filter_ts_nocasedev.cfg", "deviation list-items-compared-as-typed is needed"),
                  ("MC_X04Filter", "MC_X04Filter_ts_noemptydev.cfg", "deviation empty-allow-list-value-routes-nothing is needed"),
                  ("MC_X04Filter", "MC_X04Filter_ts_blockinv.cfg", "non-vacuity: inverted block-list test"),
                  ("MC_X04Filter", "MC_X04Filter_ts_no172.cfg", "non-vacuity: 172.16/12 missing from the private ranges")]
    jobs = [(m, c, l, True) for m, c, l in fs_ok + f_ok] + [(m, c, l, False) for m, c, l in fs_bad + f_bad]

    def mc(job):
        module, cfg, label, ok = job
        d = workdir(ctx, "mc-" + cfg.replace(".cfg", ""))
        return ctx.tlc(d, module, cfg, workers=(6 if not T else 10) if ok and module != "MC_X04Filter" else 1, timeout=1500, label=label,
                       count=False, heap="4g" if ok else "2g")
    res = parallel(mc, jobs, n=6)
    space = None
    for (module, cfg, label, ok), r in zip(jobs, res):
        ctx.cov["tlc_runs"].append({"module": module, "cfg": cfg, "generated": r.generated, "distinct": r.distinct, "depth": r.depth,
                                    "wall_s": round(r.wall, 1), "result": "ok" if r.ok else (r.violated or "error"), "label": label})
        if ok:
            if not r.ok:
                raise Broken("TLC %s/%s: %r\n%s" % (module, cfg, r, r.out[-3000:]))
            if module != "MC_X04Filter":
                cov_add(ctx, "states", r.distinct)
                cov_add(ctx, "transitions", r.generated)
                ctx.log("TLC %s %s: %d generated / %d distinct, %.1fs" % (module, cfg, r.generated, r.distinct, r.wall))
            else:
                m = re.search(r'<<"FILTER-CASES", (\d+), (\d+), (\d+)>>', r.out)
                if not m:
                    raise Broken("no FILTER-CASES line: %s" % r.out[-1500:])
                cov_add(ctx, "filter_space_cases", int(m.group(1)))
                ctx.cov["filter_space_must_not_route"] = int(m.group(2))
                ctx.cov["filter_space_must_route"] = int(m.group(3))
                ctx.log("TLC %s %s: %s cases (%s with a routing prohibition, %s with a routing obligation), %.1fs" % (
                    module, cfg, m.group(1), m.group(2), m.group(3), r.wall))
                space = json.load(open(os.path.join(workdir(ctx, "mc-" + cfg.replace(".cfg", "")), "filter_space.json")))
        elif r.violated is None:
            raise Broken("vacuous: %s/%s was not refuted: %r\n%s" % (module, cfg, r, r.out[-1200:]))
    ctx.notes.append("model: %d broken variants / needed deviations / witnesses refuted as expected" % (len(fs_bad) + len(f_bad)))
    return space


# ----------------------------------------------------------------------------------------------- parts: java fail-safe
def jexec(hosts):
    def f(ctx, args, **kw):
        return run_java(ctx, args, hosts, **kw)
    return f


def tree_jobs(impl, T):
    small = [c for c in CONFIGS if c["N"] <= 2 and c["C"] <= 2]
    jobs = []
    if impl == "java" and not T:
        jobs.append(("core5", {"configs": CONFIGS, "depth": 5, "alphabet": CORE}))
        jobs.append(("noread5", {"configs": timed([{"N": 2, "C": 1}], 8, 7), "depth": 5, "alphabet": CORE7}))
        jobs.append(("ext4", {"configs": timed([{"N": 1, "C": 1}, {"N": 2, "C": 1}], 8, 3), "depth": 4, "alphabet": EXT}))
        jobs.append(("frac6", {"configs": timed([{"N": 2, "C": 1}], 8, 5), "depth": 6, "alphabet": FRAC}))
        jobs.append(("dev4", {"configs": [{"N": 1, "C": 1}, {"N": 2, "C": 2}, {"N": 3, "C": 1}], "depth": 4, "alphabet": DEVF}))
        jobs.append(("dev5", {"configs": [{"N": 2, "C": 1}], "depth": 5, "alphabet": DEVF}))
    elif impl == "java":
        deep = [c for c in CONFIGS if c["N"] + c["C"] <= 4]
        for c in deep:
            jobs.append(("core7-n%dc%d" % (c["N"], c["C"]), {"configs": [c], "depth": 7, "alphabet": CORE}))
        jobs.append(("core6", {"configs": [c for c in CONFIGS if c not in deep], "depth": 6, "alphabet": CORE}))
        jobs.append(("noread6", {"configs": timed(small, 8, 7), "depth": 6, "alphabet": CORE7}))
        jobs.append(("noread5", {"configs": timed([c for c in CONFIGS if c not in small], 8, 7), "depth": 5, "alphabet": CORE7}))
        jobs.append(("ext5", {"configs": timed([{"N": 1, "C": 1}, {"N": 2, "C": 1}], 8, 3), "depth": 5, "alphabet": EXT}))
        jobs.append(("ext4", {"configs": timed([c for c in CONFIGS if c["C"] > 1 or c["N"] == 3], 8, 3), "depth": 4, "alphabet": EXT}))
        jobs.append(("frac7", {"configs": timed([{"N": 1, "C": 1}, {"N": 2, "C": 2}], 8, 5), "depth": 7, "alphabet": FRAC}))
        jobs.append(("frac6-ms", {"configs": timed([{"N": 1, "C": 3}, {"N": 3, "C": 1}], 1000, 37), "depth": 6,
                     "alphabet": alphabet([999, 1, 1000], "proxy/x-lunar-error/2")[:-1]}))
        jobs.append(("dev6", {"configs": [{"N": 2, "C": 1}], "depth": 6, "alphabet": DEVF}))
        jobs.append(("dev5", {"configs": [c for c in small if c != {"N": 2, "C": 1}] + [{"N": 3, "C": 1}], "depth": 5, "alphabet": DEVF}))
    elif not T:
        jobs.append(("core5", {"configs": [c for c in CONFIGS if c["N"] + c["C"] <= 4], "depth": 5, "alphabet": T_CORE}))
        jobs.append(("noread5", {"configs": timed([{"N": 2, "C": 1}], 8, 7), "depth": 5, "alphabet": T_CORE7}))
        jobs.append(("frac6", {"configs": timed([{"N": 2, "C": 1}], 8, 5), "depth": 6, "alphabet": T_FRAC}))
        jobs.append(("dev4", {"configs": [{"N": 1, "C": 1}, {"N": 2, "C": 2}, {"N": 3, "C": 1}], "depth": 4, "alphabet": T_DEVF}))
        jobs.append(("dev5", {"configs": [{"N": 2, "C": 1}], "depth": 5, "alphabet": T_DEVF}))
    else:
        deep = [{"N": 1, "C": 1}, {"N": 2, "C": 1}, {"N": 2, "C": 2}]
        for c in deep:
            jobs.append(("core7-n%dc%d" % (c["N"], c["C"]), {"configs": [c], "depth": 7, "alphabet": T_CORE}))
        jobs.append(("core6", {"configs": [c for c in CONFIGS if c not in deep], "depth": 6, "alphabet": T_CORE}))
        jobs.append(("noread6", {"configs": timed(small, 8, 7), "depth": 6, "alphabet": T_CORE7}))
        jobs.append(("noread5", {"configs": timed([c for c in CONFIGS if c not in small], 8, 7), "depth": 5, "alphabet": T_CORE7}))
        jobs.append(("frac7", {"configs": timed([{"N": 1, "C": 1}, {"N": 2, "C": 2}], 8, 5), "depth": 7, "alphabet": T_FRAC}))
        jobs.append(("frac6-ms", {"configs": timed([{"N": 1, "C": 3}, {"N": 3, "C": 1}], 1000, 37), "depth": 6,
                     "alphabet": [{"ev": "ask"}, {"ev": "adv", "d": 999}, {"ev": "adv", "d": 1}, {"ev": "adv", "d": 1000},
                                  {"ev": "call", "read": True, "out": "ok", "kind": ""}, {"ev": "call", "read": True, "out": "gwerr", "kind": "conn"}]}))
        jobs.append(("dev5", {"configs": small + [{"N": 3, "C": 1}], "depth": 5, "alphabet": T_DEVF}))
    return jobs


def part_trees(ctx, execf, impl="java"):
    T = ctx.thorough
    jobs = tree_jobs(impl, T)

    def one(job):
        tag, spec = job
        d = ctx.sub("tree-%s-%s" % (impl, tag))
        sp, tp = os.path.join(d, "spec.json"), os.path.join(d, "tree.ndjson")
        json.dump(spec, open(sp, "w"))
        s = execf(ctx, ["tree", sp, tp])
        if s.get("nondeterministic"):
            raise Broken("re-execution of a prefix gave a different observation (%s): %s" % (tag, s))
        rej, obs, visited, lines = judge_tree(ctx, impl, execf, tp, "%s-%s" % (impl, tag), workers=4 if not T else 3, heap="6g" if T else "3g")
        nodes = read_ndjson(tp)
        leaves, nontriv = leaf_stats(nodes)
        sample = None
        if tag.startswith("core"):
            sample = [ev_brief(n) for n in nodes[1:8]]
        os.remove(tp)
        return tag, s, rej, obs, leaves, nontriv, lines, sample
    for tag, s, rej, obs, leaves, nontriv, lines, sample in parallel(one, jobs, n=3 if not T else 5):
        ctx.log("%s tree %s: %d nodes, %d histories (%d open+recover), %d executions, %d observations, %d rejected nodes" % (
            impl, tag, lines, leaves, nontriv, s["executions"], len(obs), len(rej)))
        cov_add(ctx, "evaluations", s["executions"])
        if tag.startswith("dev") and not obs and not rej:
            ctx.notes.append("%s: the family built to exhibit the pinned fail-safe deviation (%s) showed nothing the statement alone rejects" % (impl, tag))
        if not tag.startswith("dev") and obs:
            ctx.notes.append("%s: tree %s has %d observations outside the deviation family" % (impl, tag, len(obs)))
        if not rej:
            cov_add(ctx, "traces_validated_against_impl", leaves)
            cov_add(ctx, "distinct_nontrivial", nontriv)
        if sample:
            ctx.sample({"kind": "exhaustive-tree-prefix", "impl": impl, "tree": tag, "nodes": sample})
    ctx.cov["exhaustive"] = True


def rand_script(rng, thorough, impl="java", units=(1, 8, 8, 1000)):
    cfg = rng.choice([{"default": True}] + [{"N": rng.choice([1, 2, 3, 4, 5, 7]), "C": rng.choice([1, 2, 3, 5, 10, 30])} for _ in range(4)])
    n, c = (5, 10) if cfg.get("default") else (cfg["N"], cfg["C"])
    unit = rng.choice(units)
    cfg["unit"], cfg["phase"] = unit, rng.randrange(unit)
    c = c * unit
    frac = [1, max(1, unit // 8), max(1, unit // 2), unit - 1 if unit > 1 else 1, unit]
    evs = []
    L = rng.randint(30, 60 if not thorough else 90)
    mood = "fail"
    noread = rng.choice([0.9, 0.6, 0.6, 0.3])
    pask = rng.choice([0.12, 0.12, 0.03])
    lates = 0
    devs = rng.random() < 0.25           # a quarter of the histories contain what only the pinned deviations accept
    gw_kinds = GW_KINDS if impl == "java" or devs else ["conn", "timeout", "unknownhost"]
    ok_kinds = OK_KINDS if impl == "java" else ["", "seq"]
    for _ in range(L):
        if rng.random() < 0.15:
            mood = rng.choice(["fail", "fail", "ok", "mixed", "wait"])
        x = rng.random()
        if mood == "wait" or x < 0.18:
            evs.append({"ev": "adv", "d": rng.choice(frac + [c - 1 if c > 1 else 1, c - 1 if c > 1 else 1, c, c, c + 1, 3 * c,
                                                             max(1, c - rng.choice(frac)), rng.randint(1, 2 * c)])})
            if mood == "wait" and rng.random() < 0.5:
                mood = "mixed"
        elif x < 0.18 + pask:
            evs.append({"ev": "ask"})
        else:
            if mood == "fail":
                out = rng.choice(["gwerr"] * 6 + ["appexc", "skip", "ok"])
            elif mood == "ok":
                out = rng.choice(["ok"] * 5 + ["gwerr", "appexc"])
            else:
                out = rng.choice(["ok", "gwerr", "gwerr", "appexc", "skip"])
            e = {"ev": "call", "read": rng.random() < noread, "out": out, "kind": ""}
            if out == "appexc" and impl == "ts" and not devs:
                out = e["out"] = "gwerr"         # the fetch hook has no application exception it lets through
            if out == "gwerr":
                e["kind"] = rng.choice(gw_kinds)
            if out == "ok":
                e["kind"] = rng.choice(ok_kinds)
            if out == "appexc":
                e["kind"] = rng.choice(APP_DEV if devs else APP_OK)
            if out == "skip":
                e["read"] = True
            if not e["read"]:
                lates += 1
                if lates > 12:          # every outcome without a read is a call started at the beginning (nesting depth of the executor)
                    e["read"] = True
            evs.append(e)
    return {"config": cfg, "events": evs}


def part_walks(ctx, execf, impl="java", rng=None):
    rng = rng or ctx.rng
    """(a) TLC -simulate walks of FailSafeJavaI replayed (spec -> code);  (b) seeded random long histories (code -> spec)."""
    T = ctx.thorough
    sd = workdir(ctx, "gen-" + impl)
    n = 15 if not T else 100
    gen = "GenX04FS" if impl == "java" else "GenX04FSTs"
    g = ctx.tlc(sd, gen, gen + ".cfg", workers=1, simulate="num=%d" % n, depth=45, extra=["-seed", str(ctx.seed)], timeout=900,
                label="behaviour generation (simulation of the %s fail-safe model)" % impl)
    walks, seenw = [], set()
    for w in tlc_vh_lines(g.out):           # every walk is printed once per successor of its last state
        kw = json.dumps(w, sort_keys=True)
        if kw not in seenw:
            seenw.add(kw)
            walks.append(w)
    if len(walks) < n // 3:
        raise Broken("behaviour generation produced %d walks: %s" % (len(walks), g.out[-1500:]))
    scripts = []
    for w in walks:
        evs = []
        for e in w[1:]:
            s = {"ev": e["ev"]}
            if e["ev"] == "adv":
                s["d"] = e["d"]
            if e["ev"] == "call":
                s.update(read=e["read"], out=e["out"], kind=e["kind"])
            evs.append(s)
        scripts.append({"config": {"N": w[0]["N"], "C": w[0]["C"]}, "events": evs})
    d = ctx.sub("walks-" + impl)
    json.dump(scripts, open(os.path.join(d, "gen.json"), "w"))
    s1 = execf(ctx, ["scripts", os.path.join(d, "gen.json"), os.path.join(d, "gen.ndjson")])
    nodes = read_ndjson(os.path.join(d, "gen.ndjson"))
    drift, i, first = 0, 1, None
    for w in walks:
        i += 1          # reset node
        for j, e in enumerate(w[1:]):
            real = nodes[i + j]
            if (real["ans"], real["raised"], real["via"]) != (e["ans"], e["raised"], e["via"]):
                drift += 1
                first = first or {"config": {"N": w[0]["N"], "C": w[0]["C"]}, "at": j, "model": ev_brief(e), "real": ev_brief(real)}
                break
        i += len(w) - 1
    if drift:
        ctx.cov["model_drift"] = True
        ctx.notes.append("MODEL-DRIFT (%s): %d of %d generated behaviours differ from the prediction of the implementation-shaped model, first: %s" % (
            impl, drift, len(walks), json.dumps(first)))
    ctx.log("%s: replayed %d TLC walks (%d events), %d differ from the model's prediction" % (impl, len(walks), s1["executions"], drift))
    ctx.sample({"kind": "tlc-walk", "impl": impl, "config": scripts[0]["config"], "events": [ev_brief(e) for e in walks[0][1:10]]})
    rej, obs, _, lines = judge_tree(ctx, impl, execf, os.path.join(d, "gen.ndjson"), impl + "-gen", workers=2)
    cov_add(ctx, "evaluations", s1["executions"])
    if not rej:
        cov_add(ctx, "traces_validated_against_impl", len(walks))

    nr = 120 if not T else 1500
    rs = [rand_script(rng, T, impl) for _ in range(nr)]
    json.dump(rs, open(os.path.join(d, "rand.json"), "w"))
    s2 = execf(ctx, ["scripts", os.path.join(d, "rand.json"), os.path.join(d, "rand.ndjson")])
    rej, obs, _, lines = judge_tree(ctx, impl, execf, os.path.join(d, "rand.ndjson"), impl + "-rand", workers=2)
    nodes = read_ndjson(os.path.join(d, "rand.ndjson"))
    leaves, nontriv = leaf_stats(nodes)
    ctx.log("%s: recorded %d random histories (%d events), %d with open+recover, %d observations, %d rejected nodes" % (
        impl, nr, s2["executions"], nontriv, len(obs), len(rej)))
    cov_add(ctx, "evaluations", s2["executions"])
    if not rej:
        cov_add(ctx, "traces_validated_against_impl", leaves)
        cov_add(ctx, "distinct_nontrivial", nontriv)
    return os.path.join(d, "rand.ndjson")


# ----------------------------------------------------------------------------------------------- parts: filter
def judge_filter(ctx, trace_path, tag):
    wd = workdir(ctx, "filter-" + tag)
    shutil.copy(trace_path, os.path.join(wd, "trace.ndjson"))
    r = ctx.tlc(wd, "X04FilterTrace", "X04FilterTrace.cfg", workers=1, timeout=1200, count=False, heap="6g")
    m = re.search(r'<<"FILTER-JUDGED", (\d+), (\d+), (\d+), (\d+), (\d+), (\d+)>>', r.out)
    if not r.ok or not m:
        raise Broken("filter judgement %s failed to run: %r\n%s" % (tag, r, r.out[-2500:]))
    total, mustnot, must, nobs, nbad, ndrift = (int(x) for x in m.groups())
    seg = r.out[r.out.index('"FILTER-BAD"'):]
    seg = seg[:seg.index(">>")]
    bad = sorted(int(x) for x in re.findall(r"\b(\d+)\b", seg))
    if len(bad) != nbad:
        raise Broken("filter judgement %s: cannot parse the rejected set (%d vs %d)" % (tag, len(bad), nbad))
    obs = {}
    for d, n, first in re.findall(r'<<"FILTER-OBS",\s*"([^"]+)",\s*(\d+),\s*(\d+)>>', r.out):
        obs[d] = (int(n), int(first))
    md = re.search(r'<<"FILTER-DRIFT", (\d+)>>', r.out)
    os.remove(os.path.join(wd, "trace.ndjson"))
    return {"total": total, "must_not": mustnot, "must": must, "nobs": nobs, "bad": bad, "ndrift": ndrift,
            "first_drift": int(md.group(1)) if md else 0, "obs": obs}


def case_brief(c):
    return {"allow": [x["raw"] for x in c["allow"]], "block": [x["raw"] for x in c["block"]], "host": c["host"], "header": c["header"],
            "resolves_to": c["ip"] or c["ip6"] or c["rsv"], "res": c["res"], "exc": c.get("exc", ""), "stage": c.get("stage", ""),
            "envform": c.get("envform", "normal")}


def witness_filter(c):
    if c["res"] not in ("yes", "no"):
        cls = "filter-decision-raises"
    elif c["res"] == "yes":
        cls = "filter-routes-excluded-destination"
    else:
        cls = "filter-does-not-forward-outbound-destination"
    w = case_brief(c)
    w.update({"class": cls, "impl": c.get("impl", ""), "host_kind": c["kind"]})
    return w


def run_filter(ctx, execf, spec, tag, env=None):
    d = ctx.sub("filter-" + tag)
    sp, tp = os.path.join(d, "cases.json"), os.path.join(d, "cases.ndjson")
    json.dump(spec, open(sp, "w"))
    s = execf(ctx, ["filter", sp, tp], env=env) if env else execf(ctx, ["filter", sp, tp])
    return s, tp


def rnd_hosts(ctx, n, rng=None):
    """seeded random destinations beyond the enumerated pool: addresses around the range boundaries, as literals, as names, as
    IPv4-mapped IPv6 literals, and other IPv6 values"""
    rng = rng or ctx.rng

    def rnd_ip():
        a = rng.choice([10, 127, 172, 172, 192, 192, 9, 11, 126, 128, 171, 173, 191, 193, rng.randint(1, 223)])
        b = rng.choice([15, 16, 31, 32, 167, 168, 169, rng.randint(0, 255)])
        return [a, b, rng.randint(0, 255), rng.randint(1, 254)]
    out = []
    for i in range(n):
        ip = rnd_ip()
        h = ".".join(map(str, ip))
        out.append({"h": h, "hlow": h, "hcanon": h, "kind": "ip4", "ip": ip, "ip6": [], "rsv": "literal"})
        g = [0, 0, 0, 0, 0, 0xffff, ip[0] * 256 + ip[1], ip[2] * 256 + ip[3]]
        h6 = rng.choice(["::ffff:%d.%d.%d.%d" % tuple(ip), "::ffff:%x:%x" % (g[6], g[7])])
        out.append({"h": h6, "hlow": h6, "hcanon": h6, "kind": "ip6", "ip": [], "ip6": g, "rsv": "literal"})
        g = [rng.choice([0xfc00, 0xfd00 + rng.randrange(256), 0xfdff, 0xfe80, 0xfebf, 0xfe00, 0xfec0, 0x2001, 0x2a00 + rng.randrange(256)])] + \
            [rng.randrange(1, 65536) for _ in range(7)]
        if g[0] == 0x2001:
            g[1] = 0x4860
        h6 = ":".join("%x" % x for x in g)
        out.append({"h": h6, "hlow": h6, "hcanon": h6, "kind": "ip6", "ip": [], "ip6": g, "rsv": "literal"})
        ip = rnd_ip()
        h = "h%d.rand.test" % i
        out.append({"h": h, "hlow": h, "hcanon": h, "kind": "name", "ip": ip, "ip6": [], "rsv": "ok"})
    return out


def probe(ctx, hosts, hf):
    """the facts of the host table against the platform resolver of the JVM (InetAddress + hosts file): a disagreement is a fault of
    the table / the environment, never of the code under test"""
    d = ctx.sub("probe")
    json.dump(hosts, open(os.path.join(d, "hosts.json"), "w"))
    run_java(ctx, ["probe", os.path.join(d, "hosts.json"), os.path.join(d, "probe.json")], hf)
    res = {r["h"]: r for r in json.load(open(os.path.join(d, "probe.json")))}
    bad = []
    for h in hosts:
        r = res[h["h"]]
        exp_fail = h["rsv"] == "fail"
        if exp_fail != (r["rsv"] == "fail"):
            bad.append((h["h"], h["rsv"], r))
            continue
        if exp_fail:
            continue
        g = h["ip6"]
        if g and g[:5] == [0, 0, 0, 0, 0] and g[5] == 0xffff:       # IPv4-mapped: the platform hands back the IPv4 address
            exp4, exp6 = [g[6] >> 8, g[6] & 255, g[7] >> 8, g[7] & 255], []
        else:
            exp4, exp6 = h["ip"], h["ip6"]
        if r["ip"] != exp4 or r["ip6"] != exp6:
            bad.append((h["h"], exp4 or exp6, r))
    if bad:
        raise Broken("the Java platform resolver disagrees with the host table: %s" % bad[:5])
    return len(hosts)


def part_filter(ctx, space, impl, node=None, rng=None):
    T = ctx.thorough
    rng = rng or ctx.rng
    lists = space["lists"]
    cfgs = [{"allow": a, "block": b} for a in lists for b in lists]
    hosts = list(space["hosts"])
    rnd = rnd_hosts(ctx, 6 if not T else 25, rng)
    hf = None
    if impl == "java":
        hf = hosts_file(ctx, hosts + rnd, "hosts-filter")
        execf = jexec(hf)
        nprobed = probe(ctx, hosts + rnd, hf)
        ctx.log("java: %d destinations of the host table agree with the platform resolver (InetAddress, -Djdk.net.hosts.file)" % nprobed)
    else:
        execf = texec(node)          # the TypeScript filter never resolves a name: the table is the truth the statement is judged against
        hosts = [h for h in hosts if h["h"] != "127.1"]      # URL.host canonicalises the inet_aton spelling to 127.0.0.1 before the filter sees it
    single = [c for c in cfgs if len(c["allow"]) + len(c["block"]) <= 1]
    rest = [c for c in cfgs if len(c["allow"]) + len(c["block"]) > 1]
    # LUNAR_ALLOW_LIST set to the empty string (the README: "If the value is empty ... check the LUNAR_BLOCK_LIST")
    single += [{"allow": [], "block": b, "envform": "allow-empty"} for b in lists if len(b) <= 1][:4 if not T else 20]
    if not T:
        runs = [("main", single + rng.sample(rest, 40 if impl == "java" else 25), hosts + rnd, False)]
        wired_cfgs = single[:8] + rng.sample(rest, 12)
    else:
        picked = single + rng.sample(rest, 560 if impl == "java" else 260)
        per = 300
        runs = [("main%d" % k, picked[i:i + per], hosts, False) for k, i in enumerate(range(0, len(picked), per))]
        runs.append(("rand", rng.sample(rest, 200), rnd, False))
        wired_cfgs = single + rng.sample(rest, 60)
    # the same decisions as an application request sees them (hook / injected code + filter + a fresh breaker): destinations a URL can carry
    urlable = [h for h in hosts + rnd if h["kind"] in ("name", "ip4", "ip6") and " " not in h["h"] and h["h"] not in ("::", "a..b")]
    runs.append(("wired", wired_cfgs, urlable, True))
    model = "TrafficFilterJavaI" if impl == "java" else "TrafficFilterTsI"

    def exec_one(r):
        tag, cf, hs, wired = r
        s, tp = run_filter(ctx, execf, {"hosts": hs, "headers": space["headers"], "configs": cf, "rounds": 1 if wired else 2, "wired": wired},
                           "%s-%s" % (impl, tag))
        return s, judge_filter(ctx, tp, "%s-%s" % (impl, tag)), tp
    results = parallel(exec_one, runs, n=3)
    first_tp = None
    for (tag, cf, hs, wired), (s, j, tp) in zip(runs, results):
        first_tp = first_tp or tp
        ctx.log("%s filter %s: %d decisions of the real TrafficFilter%s judged by TrafficFilterV (%d with a routing prohibition, %d with a routing "
                "obligation): %d observations, %d not permitted, %d differ from the transcription" % (
                    impl, tag, j["total"], " as an application request sees them" if wired else "", j["must_not"], j["must"], j["nobs"],
                    len(j["bad"]), j["ndrift"]))
        cov_add(ctx, "evaluations", j["total"])
        cov_add(ctx, "filter_cases", j["total"])
        lines = None
        if j["ndrift"]:
            lines = read_ndjson(tp)
            ctx.cov["model_drift"] = True
            ctx.notes.append("MODEL-DRIFT (%s filter %s): %d decisions differ from %s, first: %s" % (
                impl, tag, j["ndrift"], model, json.dumps(case_brief(lines[j["first_drift"] - 1]))))
        for dname, (n, first) in j["obs"].items():
            if n:
                lines = lines or read_ndjson(tp)
                slot = ctx.x04_obs.setdefault((impl, "filter", dname), {"count": 0, "example": None})
                slot["count"] += n
                slot["example"] = slot["example"] or case_brief(lines[first - 1])
        if j["bad"]:
            lines = lines or read_ndjson(tp)
            seen = {}
            for b in j["bad"]:
                c = lines[b - 1]
                w = witness_filter(c)
                key = (w["class"], w["host_kind"], c["rsv"], c.get("exc", ""), c["header"] == "absent", bool(c["allow"]), bool(c["block"]))
                if key in seen or len(seen) >= 6:
                    continue
                seen[key] = 1
                one = {"hosts": [h for h in hs if h["h"] == c["host"]][:1], "headers": [c["header"]],
                       "configs": [{"allow": c["allow"], "block": c["block"], "envform": c.get("envform", "normal")}], "rounds": 1, "wired": wired}
                s2, tp2 = run_filter(ctx, execf, one, impl + "-repro")
                j2 = judge_filter(ctx, tp2, impl + "-repro")
                if not j2["bad"]:
                    raise Broken("filter rejection not reproduced: %s" % json.dumps(w))
                ctx.violation(w, {"kind": "filter", "impl": impl, "case": one, "hosts_table": hosts + rnd, "recorded": case_brief(c)})
        else:
            cov_add(ctx, "traces_validated_against_impl", j["total"])
            cov_add(ctx, "distinct_nontrivial", j["must_not"] + j["must"])
    if impl == "java":
        # cold runs: a fresh JVM per configuration with the lists in its REAL environment (no patching) must answer the same
        cold_cfgs = [c for c in single if c["allow"] or c["block"]][:3] + rng.sample(rest, 3 if not T else 12)
        hs = hosts[:12] + [h for h in hosts if h["kind"] == "ip6"][:6]

        def cold(c):
            a, b = ",".join(x["raw"] for x in c["allow"]), ",".join(x["raw"] for x in c["block"])
            spec = {"hosts": hs, "headers": space["headers"], "configs": [c], "rounds": 1}
            tagc = "java-cold-%d" % cold_cfgs.index(c)
            _, tp_hot = run_filter(ctx, execf, spec, tagc + "h")
            _, tp_cold = run_filter(ctx, execf, dict(spec, cold=True), tagc + "c",
                                    env={"LUNAR_ALLOW_LIST": a if a else None, "LUNAR_BLOCK_LIST": b if b else None})
            hot, cld = read_ndjson(tp_hot)[1:], read_ndjson(tp_cold)[1:]
            diff = [(case_brief(x), case_brief(y)) for x, y in zip(hot, cld) if (x["res"], x["exc"]) != (y["res"], y["exc"])]
            return len(hot), diff
        ncold = 0
        for n, diff in parallel(cold, cold_cfgs, n=4):
            ncold += n
            # the HashSet iteration order (and with it whether the constructor raises) may differ between JVMs only for 'raise' cases
            diff = [d for d in diff if "raise" not in (d[0]["res"], d[1]["res"])]
            if diff:
                raise Broken("filter built from the patched environment and from the real environment of a fresh JVM disagree: %s" % diff[:2])
        ctx.log("java filter: %d decisions repeated in fresh JVMs with the lists in the real process environment: same answers" % ncold)
    ctx.sample({"kind": "filter-decision", "impl": impl, "case": {"allow": [x["raw"] for x in runs[0][1][-1]["allow"]],
                                                                   "block": [x["raw"] for x in runs[0][1][-1]["block"]], "host": hosts[1]["h"]}})
    return first_tp, hf


def run_python_filter(ctx, spec, tag):
    d = ctx.sub("filter-" + tag)
    sp, raw, tp = os.path.join(d, "cases.json"), os.path.join(d, "raw.ndjson"), os.path.join(d, "cases.ndjson")
    json.dump(spec, open(sp, "w"))
    env = dict(os.environ)
    env["VERIF_REPO"] = REPO
    env["PYTHONDONTWRITEBYTECODE"] = "1"
    p = subprocess.run(["python3", os.path.join(VERIF, "py", "c19_exec.py"), "filter", sp, raw], cwd=ctx.sub("pycwd"), env=env,
                       stdout=subprocess.PIPE, stderr=subprocess.PIPE, text=True, timeout=900)
    if p.returncode != 0:
        raise Broken("python executor failed rc=%d\n%s" % (p.returncode, p.stderr[-3000:]))
    with open(tp, "w") as f:
        for i, line in enumerate(open(raw)):
            r = json.loads(line)
            if i:
                r.update(impl="python", stage="decide" if r["res"] == "raise" else "", envform="normal", exc=r.get("exc", ""))
            f.write(json.dumps(r, separators=(",", ":"), sort_keys=True) + "\n")
    return tp


def part_filter_python(ctx, space, rng=None):
    """the third implementation under the same statement: py/c19_exec.py (the C19 executor, unchanged) runs the Python TrafficFilter on a
    sample of the same space; its records are completed with the fields of TrafficFilterV (bookkeeping) and judged by X04FilterTrace with
    impl = "python" (no pinned deviation: whatever the statement alone rejects is a violation).  The fail-safe of the Python interceptor is
    property C19 itself (same FailSafeRel) and is not repeated here."""
    T = ctx.thorough
    lists = space["lists"]
    cfgs = [{"allow": a, "block": b} for a in lists for b in lists]
    single = [c for c in cfgs if len(c["allow"]) + len(c["block"]) <= 1]
    rest = [c for c in cfgs if len(c["allow"]) + len(c["block"]) > 1]
    hosts = [h for h in space["hosts"] if not (h["kind"] == "name" and h["ip6"])]        # the resolver stand-in of c19_exec knows IPv4 answers only
    tp = run_python_filter(ctx, {"hosts": hosts, "headers": ["absent", "empty", "true", "false", "TRUE"],
                                 "configs": single + (rng or ctx.rng).sample(rest, 30 if not T else 400), "rounds": 2}, "python")
    j = judge_filter(ctx, tp, "python")
    ctx.log("python filter: %d decisions of the real TrafficFilter judged by TrafficFilterV (%d with a routing prohibition, %d with a routing obligation): "
            "%d rejected by the statement alone" % (j["total"], j["must_not"], j["must"], j["nobs"]))
    cov_add(ctx, "evaluations", j["total"])
    cov_add(ctx, "filter_cases", j["total"])
    if j["bad"]:
        lines = read_ndjson(tp)
        seen = {}
        for b in j["bad"]:
            c = lines[b - 1]
            w = witness_filter(c)
            key = (w["class"], w["host_kind"], c["rsv"], c["header"] == "absent", bool(c["allow"]), bool(c["block"]))
            if key in seen or len(seen) >= 4:
                continue
            seen[key] = 1
            one = {"hosts": [h for h in hosts if h["h"] == c["host"]][:1], "headers": [c["header"]],
                   "configs": [{"allow": c["allow"], "block": c["block"]}], "rounds": 1}
            ctx.violation(w, {"kind": "filter", "impl": "python", "case": one, "hosts_table": hosts, "recorded": case_brief(c)})
    else:
        cov_add(ctx, "traces_validated_against_impl", j["total"])
        cov_add(ctx, "distinct_nontrivial", j["must_not"] + j["must"])
        ctx.notes.append("python: %d filter decisions conform to the whole statement (T1-T5) with no deviation" % j["total"])


# ----------------------------------------------------------------------------------------------- self-test
def part_selftest(ctx, rand_trace, filter_trace):
    """binding demonstration: a corrupted / truncated recording must be rejected."""
    nodes = read_ndjson(rand_trace)
    d = ctx.sub("selftest")
    k = next(i for i, n in enumerate(nodes) if n["ev"] == "ask" and not n["ans"])
    bad = [dict(n) for n in nodes]
    bad[k]["ans"] = True
    p = os.path.join(d, "flip.ndjson")
    open(p, "w").write("".join(json.dumps(n, separators=(",", ":")) + "\n" for n in bad))
    r1, _, _, _ = validate_tree(ctx, p, "self1", workers=2)
    k2 = next(i for i, n in enumerate(nodes) if n["ev"] == "call" and n["out"] == "gwerr" and n["read"] and n["ans"] and n["k"] and
              nodes[n["k"][0] - 1]["ev"] in ("ask", "call") and not nodes[n["k"][0] - 1]["ans"] and nodes[n["k"][0] - 1].get("read", True))
    bad = [dict(n) for n in nodes]
    par = next(i for i, n in enumerate(bad) if (k2 + 1) in n["k"])
    bad[par]["k"] = [c if c != k2 + 1 else bad[k2]["k"][0] for c in bad[par]["k"]]
    bad[k2]["k"] = []
    p = os.path.join(d, "drop.ndjson")
    open(p, "w").write("".join(json.dumps(n, separators=(",", ":")) + "\n" for n in bad))
    r2, _, _, _ = validate_tree(ctx, p, "self2", workers=2)
    # a gateway failure recorded as served by the gateway (no fallback)
    k4 = next(i for i, n in enumerate(nodes) if n["ev"] == "call" and n["out"] == "gwerr" and n["read"] and n["ans"])
    bad = [dict(n) for n in nodes]
    bad[k4]["via"] = "gateway"
    p = os.path.join(d, "via.ndjson")
    open(p, "w").write("".join(json.dumps(n, separators=(",", ":")) + "\n" for n in bad))
    r4, _, _, _ = validate_tree(ctx, p, "self4", workers=2)
    fl = read_ndjson(filter_trace)
    k3 = next(i for i, c in enumerate(fl) if c.get("ev") == "case" and c["host"] in [x["raw"] for x in c["block"]] and not c["allow"] and
              c["header"] == "absent" and c["res"] == "no")
    fl[k3]["res"] = "yes"
    k5 = next(i for i, c in enumerate(fl) if c.get("ev") == "case" and c["host"] == "api.pub.com" and not c["allow"] and not c["block"] and
              c["header"] == "absent" and c["res"] == "yes")
    fl[k5]["res"] = "no"
    p = os.path.join(d, "filter.ndjson")
    open(p, "w").write("".join(json.dumps(n, separators=(",", ":")) + "\n" for n in fl))
    j = judge_filter(ctx, p, "self3")
    if not r1 or not r2 or not r4 or (k3 + 1) not in j["bad"] or (k5 + 1) not in j["bad"]:
        raise Broken("self-test: corrupted recording accepted (flip=%s drop=%s via=%s filter=%s forward=%s)" % (
            bool(r1), bool(r2), bool(r4), (k3 + 1) in j["bad"], (k5 + 1) in j["bad"]))
    ctx.notes.append("self-test: flipped answer rejected at node %s, dropped failure at node %s, wrong serving side at node %s, corrupted filter "
                     "decisions (routed although block-listed / not forwarded although outbound) rejected" % (r1[:1], r2[:1], r4[:1]))


# ----------------------------------------------------------------------------------------------- observations
DEV_TEXT = {
    ("java", DEV_LEG):
        ("input: an exception that does not come from the gateway (RuntimeException of an application interceptor, IOException 'Canceled') is raised "
         "while the request travels the chain towards the gateway; expected by the docs (README: 'recover from failures originated in Lunar Proxy'): "
         "it reaches the caller and the failure streak is untouched; observed: realcall.lunarGetResponse catches java.lang.Exception, calls "
         "failSafe.onError and re-executes the request directly - N such exceptions start the cool-down, a transient one never reaches the caller"),
    ("java", "ipv6-internal-destination-routed"):
        ("input: destination ::1 / fe80::1 / fc00::1 / fd..:: (IPv6 loopback, link-local, unique-local literal, or a name resolving there), no lists; "
         "expected by the docs ('Only outbound traffic will be redirected to Lunar Proxy'): not routed; observed: routed through the gateway "
         "(PRIVATE_IP_RANGES holds four IPv4 ranges keyed by the first two characters of the textual address)"),
    ("java", "list-items-compared-as-typed"):
        ("input: LUNAR_BLOCK_LIST=API.Pub.com, destination api.pub.com (OkHttp hands the host over in lower case); expected by the docs: sent "
         "directly to the provider; observed: routed through the gateway (Set.contains on the items as typed; an upper-case item passes validation)"),
    ("java", "unsupported-allow-item-raises"):
        ("input: LUNAR_ALLOW_LIST with an unsupported item next to another one (e.g. 'api.pub.com,not a host!' or 'api.pub.com, db.corp'); expected by "
         "the docs / the code's own warning: the item 'will be removed from the allowed list'; observed: TrafficFilter.<init> throws "
         "ConcurrentModificationException (validateAllow removes from the HashSet it iterates) unless the item happens to be iterated last - "
         "the constructor runs in the field initializer of every instrumented RealCall"),
}


DEV_TEXT.update({
    ("java", DEV_EMPTY):
        ("input: LUNAR_ALLOW_LIST set to the empty string, destination api.pub.com; expected by the docs ('If the value is not empty, then the "
         "Interceptor will only forward requests to domains which are in the Allow List ... If the value is empty, the Interceptor will check ... the "
         "LUNAR_BLOCK_LIST'): routed unless block-listed; observed: nothing is routed (\"\".split(\",\") gives one empty item, it is removed as "
         "unsupported and leaves an allow list that allows nothing)"),
    ("ts", DEV_EMPTY):
        ("input: LUNAR_ALLOW_LIST set to the empty string, destination api.pub.com; expected by the docs: routed unless block-listed; observed: "
         "nothing is routed (parseList gives [''] - an allow list whose only item matches no destination)"),
    ("ts", DEV_LEG):
        ("input: a fetch() through the hook whose gateway leg is rejected for a reason of the application (its AbortController aborted the request, or any "
         "other rejection); expected by the docs ('recover from failures originated in Lunar Proxy'): the rejection reaches the caller, the failure streak "
         "is untouched; observed: interceptor.ts fetchHandler catches every error, calls failSafe.onError and fetches the original URL directly"),
    ("ts", DEV_TWICE):
        ("input: LUNAR_ENTER_COOLDOWN_AFTER_ATTEMPTS=3, two fetch() calls answered by the gateway with header x-lunar-error; expected by the docs ('After "
         "LUNAR_ENTER_COOLDOWN_AFTER_ATTEMPTS successive failed connection attempts'): still routed, the third failure starts the cool-down; observed: the "
         "cool-down starts after the second one - interceptor.ts fetchHandler calls this._failSafe.onError twice for an error response (with the "
         "default 5 the bypass starts after 3 error responses)"),
    ("ts", "names-never-resolved"):
        ("input: destination localhost / a name resolving to 10.x, 127.x, 172.16-31.x, 192.168.x / a name that does not resolve / 256.1.1.1, no lists; "
         "expected by the docs ('Only outbound traffic will be redirected to Lunar Proxy'): not routed; observed: routed (trafficFilter.ts isExternalIP: "
         "'If it's not an IP, we currently assume it's external'; 256.1.1.1 matches IP_PATTERN and no private range)"),
    ("ts", "ipv6-literal-cut-at-colon"):
        ("input: destination http://[::1]:8080/ (any IPv6 literal), with or without lists naming it; expected by the docs: loopback / private "
         "addresses not routed, block-listed ones not routed; observed: isAllowed cuts URL.host '[::1]:8080' at the first ':' to strip the port, "
         "judges the remainder '[' as an external name: routed, whatever the block list says; an allow-listed IPv6 destination is never routed"),
    ("ts", "list-items-compared-as-typed"):
        ("input: LUNAR_BLOCK_LIST=API.Pub.com or ' api.pub.com', destination api.pub.com; expected by the docs: sent directly to the provider; observed: "
         "routed (Array.includes on the items as typed; every non-IPv4 item passes validateHost, nothing is trimmed)"),
})


def report_observations(ctx):
    pinned = {k: set(v) for k, v in PINNED.items()}
    texts = DEV_TEXT
    out = []
    for (impl, part, dname), slot in sorted(ctx.x04_obs.items()):
        if not slot["count"]:
            continue
        line = "OBSERVATION: impl=%s part=%s deviation=%s recordings_rejected_by_the_statement_alone=%d pinned=%s example=%s" % (
            impl, part, dname, slot["count"], "yes" if dname in pinned.get(impl, ()) or dname == "several-deviations-at-once" else "NO",
            json.dumps(slot["example"])[:700])
        print(line, flush=True)
        if (impl, dname) in texts:
            print("   %s" % texts[(impl, dname)], flush=True)
        out.append({"impl": impl, "part": part, "deviation": dname, "count": slot["count"], "example": slot["example"],
                    "describe": texts.get((impl, dname), "")})
    ctx.cov["observations"] = out
    seen = {(o["impl"], o["deviation"]) for o in out}
    for impl, ds in pinned.items():
        if impl not in getattr(ctx, "x04_impls_run", ["java"]):
            continue
        for dname in sorted(ds):
            if (impl, dname) not in seen:
                ctx.notes.append("pinned deviation %s of %s was not needed by any recording of this run" % (dname, impl))


# ----------------------------------------------------------------------------------------------- run / replay
def run(ctx):
    T = ctx.thorough
    ctx.x04_obs = {}
    ctx.x04_impls_run = ["java"]
    ctx.cov["rule"] = ("three implementations under one statement (java, ts: fail-safe + filter; python: filter - its fail-safe is C19). "
                       "java fail-safe: every event sequence over the alphabets (ask, clock advance, application request succeeding through the gateway / "
                       "failing there [no connection, time-out, unknown host, error response x-lunar-error in four spellings] / hit by an application "
                       "exception [java.lang.Error; RuntimeException, IOException in the deviation family] / kept off the gateway by the filter, outcomes "
                       "of legs already in flight) up to the stated depth for N, C in 1..3 as one recorded tree per run, + TLC walks of FailSafeJavaI + seeded "
                       "random long histories incl. the default configuration and a millisecond clock; non-trivial = the breaker opened and a later read "
                       "answered TRUE again. java filter: decisions over the TLC-enumerated space (lists of <= 2 items incl. blank-padded / empty / "
                       "upper-case / IPv6 items x 43 destinations x 5 header values x 2 rounds through the result cache) + seeded random addresses, "
                       "class level and through the injected code; non-trivial = TrafficFilterV forbids or demands routing for the case (counted by TLC). "
                       "ts: the same families through the real fetch hook (every rejection of the gateway leg is caught: application exceptions and error "
                       "responses only in the deviation family) and the real TrafficFilter (destinations as URL.host hands them over). "
                       "python: a sample of the same filter space through py/c19_exec.py")
    ctx.cov["checker_cmd"] = ("tlc -config MC_X04FS_java.cfg MC_X04FS.tla ; tlc -config FailSafeTraceV.cfg FailSafeTraceV.tla ; "
                              "tlc -config MC_X04Filter_java.cfg MC_X04Filter.tla ; tlc -config X04FilterTrace.cfg X04FilterTrace.tla ; "
                              "tlc -config MC_X04FSTs_ts.cfg MC_X04FSTs.tla ; tlc -config MC_X04Filter_ts.cfg MC_X04Filter.tla")
    ctx.cov["trusted_base"] = ["TLC 1.8", "CommunityModules Json", "OpenJDK 17 javac/java",
                               "harness/java/x04: signature-only stand-ins for javassist and org.json; stand-in okhttp3 (Request, Headers with okhttp 3.x "
                               "toMultimap semantics, HttpUrl, Response, OkHttpClient) and the generated RealCall holding the injected code verbatim; "
                               "scripted Transport playing the network and the application's interceptors; SpyFailSafe (observer subclass)",
                               "process environment patched in place (ProcessEnvironment) between configurations - cross-checked against fresh JVMs",
                               "-Djdk.net.hosts.file as the resolver table - cross-checked by the probe command",
                               "node >= 22.7 --experimental-transform-types running the .ts sources unchanged; harness/ts/x04: loader (extensionless imports, "
                               "no-op stand-in for winston), scripted fetch under the real hook, loopback handshake server, Date.now as the clock, "
                               "observer wrapper around FailSafe.stateOk"]
    ctx.assumptions += ["one FailSafe object is driven by one thread at a time (calls already in flight are calls started at the beginning of the history whose "
                        "gateway leg ends later; everything in between runs nested in the transport callback)",
                        "clock = the repository's MockClock; 1 tick = 1000/unit ms with unit in {1, 8, 1000}",
                        "the resolver is a fixed table per run; destinations are handed to the filter as okhttp3.HttpUrl.host() produces them",
                        "Retry.prepareForRetry is exercised only with 'retry-after: 0' (no retry); the retry flow is not specified",
                        "the repository's own Java / TypeScript tests cannot run in this sandbox (no maven repository, no node_modules: junit / okhttp / "
                        "javassist / jest / typescript are not available)",
                        "ts: only the fetch hook is driven; the http.request / https.request hook (LunarRequest) is not"]
    # independent streams side by side: the exhaustive part (does not depend on the repository), the fail-safe recordings of each
    # implementation, then the filter recordings of each implementation; every stream draws from its own seeded generator
    import random
    only = os.environ.get("X04_ONLY", "")          # development aid for mutation runs: "java" / "ts" restricts the recordings to one implementation
    node = find_node() if only != "java" else None
    if only:
        ctx.notes.append("X04_ONLY=%s set: the recordings of the other implementations are skipped" % only)
    elif node is None:
        ctx.notes.append("TypeScript interceptor NOT covered: no TypeScript compiler is installed and none can be fetched; no node >= 22.7 "
                         "(type stripping) found under /root/.nvm or on PATH (set X04_NODE)")
    if node is not None:
        ctx.x04_impls_run.append("ts")
    if only == "ts":
        ctx.x04_impls_run.remove("java")
    box = {}

    def guarded(name, fn):
        def run_it():
            try:
                box[name] = fn()
            except BaseException as x:      # noqa: re-raised in the main thread
                box["err-" + name] = x
        th = threading.Thread(target=run_it)
        th.start()
        return th

    def java_fs():
        build_java(ctx)
        execf = jexec(hosts_file(ctx, [], "hosts-failsafe"))
        part_trees(ctx, execf)
        return part_walks(ctx, execf, "java", random.Random(ctx.seed * 1000 + 1))

    def ts_fs():
        part_trees(ctx, texec(node), "ts")
        return part_walks(ctx, texec(node), "ts", random.Random(ctx.seed * 1000 + 2))

    def join(ths):
        for th in ths:
            th.join()
        errs = [v for k, v in sorted(box.items()) if k.startswith("err-")]
        if errs:
            raise errs[0]
    ths = [guarded("space", lambda: part_model(ctx, node is not None))]
    if only != "ts":
        ths.append(guarded("rand_trace", java_fs))
    if node is not None:
        ths.append(guarded("ts_fs", ts_fs))
    join(ths)
    space = box["space"]
    ths = []
    if only != "ts":
        ths.append(guarded("filter", lambda: part_filter(ctx, space, "java", None, random.Random(ctx.seed * 1000 + 3))))
    if node is not None:
        ths.append(guarded("filter-ts", lambda: part_filter(ctx, space, "ts", node, random.Random(ctx.seed * 1000 + 4))))
    if not only:
        ths.append(guarded("filter-py", lambda: part_filter_python(ctx, space, random.Random(ctx.seed * 1000 + 5))))
    join(ths)
    rand_trace = box.get("rand_trace")
    filter_trace = box["filter"][0] if box.get("filter") else None
    if T and rand_trace and filter_trace:
        part_selftest(ctx, rand_trace, filter_trace)
    report_observations(ctx)


def replay(ctx, path):
    obj = json.load(open(path))
    rp = obj["replay"]
    d = ctx.sub("replay")
    ctx.x04_obs = {}
    impl = rp.get("impl", "java")
    if impl == "ts":
        node = find_node()
        if node is None:
            raise Broken("no node >= 22.7 to replay a TypeScript case")
    if rp["kind"] == "failsafe":
        hf = hosts_file(ctx, [], "hosts-failsafe")
        json.dump([rp["script"]], open(os.path.join(d, "s.json"), "w"))
        (jexec(hf) if impl == "java" else texec(node))(ctx, ["scripts", os.path.join(d, "s.json"), os.path.join(d, "t.ndjson")])
        for n in read_ndjson(os.path.join(d, "t.ndjson"))[1:]:
            print(json.dumps({k: v for k, v in n.items() if k != "k"}))
        rej, obs, _, _ = validate_tree(ctx, os.path.join(d, "t.ndjson"), "replay", workers=1)
        if rej:
            print("VIOLATION property=X04 replay=%s" % path)
            print("   observation at event %d is not permitted by FailSafeRelV (statement + the deviations pinned for %s)" % (rej[0] - 2, impl))
            return 1
    else:
        hf = hosts_file(ctx, rp["hosts_table"], "hosts-filter")
        if impl == "python":
            tp = run_python_filter(ctx, rp["case"], "replay")
        else:
            s, tp = run_filter(ctx, jexec(hf) if impl == "java" else texec(node), rp["case"], "replay")
        for n in read_ndjson(tp)[1:]:
            print(json.dumps(case_brief(n)))
        j = judge_filter(ctx, tp, "replay")
        if j["bad"]:
            print("VIOLATION property=X04 replay=%s" % path)
            print("   decision %d is not permitted by TrafficFilterV (statement + the deviations pinned for %s)" % (j["bad"][0] - 1, impl))
            return 1
    print("replay accepted by the specification")
    return 0
