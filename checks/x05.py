"""X05 (growth) - remedy statistics of the aggregation output plugin: per-remedy / per-action counts and ratios are a
function of the transactions seen since the plugin started (not of the chunking), uninterpretable lines are skipped
without losing the others, a restart starts clean, a refresh of the known-endpoints tree changes the attribution of
later transactions only.

spec:     specs/x05_remedy_stats  RemedyStatsP (statement R1-R10 derived from the repository's docs + the laws on the history),
          RemedyStatsI (extract / semigroup combine / Run / persist / Initialize / decode), MC_X05 (I x P with the plugin's
          dispatch and the tree refresher interleaved), GenX05, RemedyStatsTrace (P verdict + drift from I in one pass)
binding:  harness/cmd/x05   direct level: the real remedy.Run + remedy.State on a temp file, common.BuildTree, mock clock
                            plugin level: the plugin's own FLBPluginInit / FLBPluginFlushCtx (main.go + tree_update.go are
                            compiled from the working tree into the importable package internal/x05plugin - only the package
                            clause is rewritten) fed with msgpack chunks, known-endpoints file rewritten under the real ticker
"""
import copy, json, os, re, shutil, subprocess, threading, time
from vlib import Broken, REPO, VERIF, GOENV, read_ndjson, write_ndjson, parallel

SPEC = "x05_remedy_stats"
# the box is shared: at most this many trace-validation JVMs at a time, each with a bounded heap (an unbounded JVM takes a
# quarter of the RAM and the kernel's OOM killer then picks one of them: rc -9)
TV_SLOTS = threading.Semaphore(6)
os.environ.setdefault("JAVA_TOOL_OPTIONS", "-Xmx2g")
PLUGIN_DIR = os.path.join(REPO, "proxy/src/services/aggregation-output-plugin")
SLACK_MS = 5000          # scheduling slack granted to the refresher beyond its interval (the box is shared and often overloaded)
REFRESH_S = 1

REMEDIES = ["undefined", "caching", "response_based_throttling", "strategy_based_throttling", "concurrency_based_throttling",
            "strategy_based_queue", "account_orchestration", "fixed_response", "retry", "authentication"]
REQ = ["no_op", "obtained_response", "modified_request", "modified_headers"]
RESP = ["no_op", "modified_response", "retry_request"]


def production_threshold():
    m = re.search(r"urlTreeMaxSplitThreshold\s*=\s*(\d+)", open(os.path.join(PLUGIN_DIR, "main.go")).read())
    if not m:
        raise Broken("cannot find urlTreeMaxSplitThreshold in the plugin's main.go")
    return int(m.group(1))


# ------------------------------------------------------------------------------------------ build
def build(ctx):
    """the executor with the plugin's entry points: internal/x05plugin = main.go + tree_update.go of the working tree with the
    package clause rewritten + the host shim; cgo (the plugin and fluent-bit-go use it)."""
    src = os.path.join(ctx.scratch, "harness-src")
    if not os.path.isdir(src):
        shutil.copytree(os.path.join(VERIF, "harness"), src)
        gomod = open(os.path.join(src, "go.mod")).read().replace("/repo/", REPO.rstrip("/") + "/")
        open(os.path.join(src, "go.mod"), "w").write(gomod)
    pk = os.path.join(src, "internal", "x05plugin")
    os.makedirs(pk, exist_ok=True)
    for f in ("main.go", "tree_update.go"):
        text = open(os.path.join(PLUGIN_DIR, f)).read()
        text2, n = re.subn(r"(?m)^package main\s*$", "package x05plugin", text, count=1)
        if n != 1:
            raise Broken("cannot find the package clause of the plugin's %s" % f)
        open(os.path.join(pk, f), "w").write(text2)
    shutil.copy(os.path.join(VERIF, "harness/cmd/x05/shim.go.txt"), os.path.join(pk, "zz_verif_shim.go"))
    out = os.path.join(ctx.scratch, "bin-x05")
    env = dict(os.environ); env.update(GOENV); env["CGO_ENABLED"] = "1"
    t = time.time()
    p = subprocess.run(["go", "build", "-tags", "verif x05plugin", "-o", out, "./cmd/x05"], cwd=src, env=env,
                       stdout=subprocess.PIPE, stderr=subprocess.STDOUT, text=True)
    if p.returncode != 0:
        raise Broken("harness build failed (cmd/x05 with the plugin's sources):\n%s" % p.stdout[-4000:])
    ctx.log("built harness cmd/x05 (+ plugin main.go / tree_update.go) in %.1fs" % (time.time() - t))
    return out


def workdir(ctx, tag):
    sd = ctx.spec_dir(SPEC)
    wd = os.path.join(ctx.scratch, "tv-" + tag)
    if not os.path.isdir(wd):
        shutil.copytree(sd, wd)
    return wd


# ------------------------------------------------------------------------------------------ case construction
def ep(m, u):
    return {"m": m, "u": u}


def marker(g):
    return ep("GET", "gen.x05/g%d/{id}" % g)


def steps_of(split, restart_after=(), advance=None):
    st = []
    for i, n in enumerate(split):
        st.append({"op": "batch", "n": n})
        if advance and advance.get(i + 1):
            st.append({"op": "advance", "ms": advance[i + 1]})
        if (i + 1) in restart_after:
            st.append({"op": "restart"})
    return {"steps": st}


def enumerated_families(ctx, space):
    """words / runs enumerated by TLC (GenX05): quick = a seeded sample of the words, every run of each."""
    T = ctx.thorough
    letters, direct = space["letters"], set(space["direct"])
    known = [ep("GET", u) for u in space["known"]]
    by_len = {}
    for w in space["words"]:
        by_len.setdefault(len(w), []).append(w)
    quota = {1: 8, 2: 40, 3: 70, 4: 60} if not T else {1: 8, 2: 64, 3: 512, 4: 1500}
    fams = []
    for n, ws in sorted(by_len.items()):
        ws = sorted(ws)
        k = min(quota.get(n, 0), len(ws))
        chosen = ws if k == len(ws) else ctx.rng.sample(ws, k)
        for w in chosen:
            runs = sorted(space["runs"][n - 1], key=lambda r: (len(r["split"]) != 1 or bool(r["restart"]), r["split"], r["restart"]))
            recs = [dict(letters[i - 1]) for i in w]
            rr = []
            for r in runs:
                adv = {b: ctx.rng.choice([0, 400, 1000, 2500]) for b in range(1, len(r["split"]) + 1)}
                rr.append((r, adv))
            if all(i in direct for i in w):
                fams.append({"mode": "direct", "flows": False, "threshold": 50, "known": known, "recs": recs, "kind": "enumerated-direct", "word": w,
                             "runs": [steps_of(r["split"], r["restart"], adv) for r, adv in rr]})
            fams.append({"mode": "plugin", "flows": False, "threshold": 50, "known": known + [marker(0)], "recs": recs, "kind": "enumerated-plugin",
                         "word": w, "runs": [steps_of(r["split"], r["restart"]) for r, _ in rr]})
    return fams


RAW_LINES = ["", "-", "{", "{}", "hello world", "[1,2,3]", '{"timestamp": "x"}', "<134>Feb  6 15:25:20 haproxy[229]: Proxy lunar started.",
             '{ "internal": false, "request_id": "x", "timestamp":1', '"just a string"', "null", '{"url": 5, "method": "GET"}']


def spell(rng, x):
    return rng.choice([x, x, x.upper(), " " + x, x + " ", x.title()])


def random_record(rng, mode, urls):
    m = rng.choice(["GET", "GET", "POST", "PUT"])
    u = rng.choice(urls)
    ra, pa = [], []
    for r in rng.sample(REMEDIES, rng.choice([0, 1, 1, 2, 3])):
        xs = [rng.choice(REQ + ["obtained_response", "no_op"]) for _ in range(rng.choice([1, 1, 2, 3]))]
        ra.append({"r": r, "x": xs, "xs": [spell(rng, x) for x in xs]})
    for r in rng.sample(REMEDIES, rng.choice([0, 0, 1, 2])):
        xs = [rng.choice(RESP) for _ in range(rng.choice([1, 1, 2]))]
        pa.append({"r": r, "x": xs, "xs": [spell(rng, x) for x in xs]})
    rec = {"k": "ok", "m": m, "u": u, "h": u.split("/")[0], "s": rng.choice([200, 200, 201, 400, 429, 500, 503]), "ra": ra, "pa": pa,
           "internal": rng.random() < 0.07}
    if mode == "plugin":
        q = rng.random()
        if q < 0.05:
            return {"k": "raw", "raw": rng.choice(RAW_LINES)}
        if q < 0.07:
            return {"k": "nomsg"}
        if q < 0.10:        # a name outside the vocabulary: the line is not interpretable
            bad = rng.choice(["remedy", "req", "resp", "case"])
            if bad == "remedy":
                rec["ra"].append({"r": "quota_magic", "x": ["no_op"], "xs": ["no_op"]})
            elif bad == "case":
                rec["ra"] = [{"r": "Caching", "x": ["no_op"], "xs": ["no_op"]}]
            elif bad == "req":
                rec["ra"] = [{"r": "caching", "x": ["teleported"], "xs": ["teleported"]}]
            else:
                rec["pa"] = [{"r": "retry", "x": ["obtained_response"], "xs": ["obtained_response"]}]   # a request-side word on the response side
        elif q < 0.13:      # the open case of the statement (R9)
            rec["ra"] = [{"r": "authentication", "x": ["generate_request"], "xs": ["generate_request"]}]
        elif q < 0.14:
            rec["u"] = "-"
    return rec


def random_split(rng, n, sizes=(1, 1, 2, 3, 5, 8, 13, 40)):
    split, left = [], n
    while left:
        b = min(left, rng.choice(sizes))
        split.append(b)
        left -= b
    return split


def random_families(ctx, mode, count, flows_every=0):
    T = ctx.thorough
    rng = ctx.rng
    fams = []
    for f in range(count):
        n = rng.randint(30, 80 if not T else 200)
        known = rng.choice([[], [ep("GET", "h.com/d/{id}")], [ep("GET", "h.com/d/{id}"), ep("GET", "h.com/w/*")], [ep("POST", "api.io/v1/items/{item}")]])
        urls = ["h.com/d/%d" % j for j in range(1, 4)] + ["h.com/w/x/y", "h.com/z", "api.io/v1/items/%d" % rng.randint(1, 9), "api.io/v1/items",
                                                           "other.org", "h.com/d/1/sub"]
        recs = [random_record(rng, mode, urls) for _ in range(n)]
        flows = bool(flows_every) and f % flows_every == flows_every - 1
        runs = [steps_of([n])]
        for _ in range(3 if not T else 6):
            split = random_split(rng, n)
            rs = sorted(rng.sample(range(1, len(split) + 1), min(len(split), rng.choice([0, 0, 1, 2]))))
            adv = {b: rng.choice([0, 0, 300, 999, 1000, 4000]) for b in range(1, len(split) + 1)} if mode == "direct" else None
            runs.append(steps_of(split, rs, adv))
        if mode == "plugin":
            runs.append(steps_of([0, n] if n else [0]))            # an empty chunk first
            known = known + [marker(0)]
        fams.append({"mode": mode, "flows": flows, "threshold": production_threshold(), "known": known, "recs": recs, "runs": runs,
                     "kind": "random-%s%s" % (mode, "-flows" if flows else "")})
    return fams


INVALID_TEXTS = ["endpoints:\n\t- broken: [\n",
                 "endpoints:\n  - url: \"h.com/*/x\"\n    method: GET\n"]


def tree_family(ctx, variant):
    """one plugin lifetime with rewrites of the known-endpoints file under the real ticker (refresh every REFRESH_S seconds)."""
    rng = ctx.rng
    acting = lambda: [{"r": rng.choice(["fixed_response", "caching", "strategy_based_throttling"]), "x": ["obtained_response"], "xs": ["obtained_response"]}]
    def rec(u, s=200):
        return {"k": "ok", "m": "GET", "u": u, "h": u.split("/")[0], "s": s, "ra": acting(), "pa": [], "internal": False}
    pool = ["h.com/e/5", "h.com/e/6", "h.com/f/1", "h.com/d/7", "api.io/v1/x"]
    recs, steps = [], []
    def batch(k):
        for _ in range(k):
            recs.append(rec(rng.choice(pool), rng.choice([200, 429, 500])))
        steps.append({"op": "batch", "n": k})
    base = [ep("GET", "h.com/d/{id}")]
    g1 = base + [ep("GET", "h.com/e/{id}")]
    g3 = base + [ep("GET", "h.com/f/{id}")]
    batch(rng.randint(2, 5))
    steps.append({"op": "write", "gen": 1, "valid": True, "known": g1 + [marker(1)]})
    if variant % 3 == 0:
        batch(rng.randint(1, 3))                      # right after the write: either tree is fine
    steps.append({"op": "await", "gen": 1, "max_ms": REFRESH_S * 1000 + SLACK_MS + 500})
    batch(rng.randint(2, 5))
    steps.append({"op": "write", "gen": 2, "valid": False, "text": INVALID_TEXTS[variant % 2]})
    steps.append({"op": "sleep", "ms": REFRESH_S * 1000 + 350})
    batch(rng.randint(1, 4))                          # the unreadable file leaves generation 1 in place
    if variant % 2 == 0:
        steps.append({"op": "write", "gen": 3, "valid": True, "known": g3 + [marker(3)]})
        steps.append({"op": "await", "gen": 3, "max_ms": REFRESH_S * 1000 + SLACK_MS + 500})
        batch(rng.randint(2, 4))
        steps.append({"op": "restart"})
        batch(rng.randint(1, 3))
    return {"mode": "plugin", "flows": False, "threshold": production_threshold(), "known": base + [marker(0)], "recs": recs,
            "runs": [{"steps": steps}], "kind": "tree-refresh"}


# ------------------------------------------------------------------------------------------ execution / judgement
FAM_KEYS = ("id", "mode", "flows", "threshold", "known", "recs", "runs")


def execute(ctx, binary, fams, tag, chunks=1, timeout=900):
    d = ctx.sub("run-" + tag)
    for i, f in enumerate(fams):
        f["id"] = i
    json.dump({"families": [{k: f[k] for k in FAM_KEYS} for f in fams], "chunks": chunks}, open(os.path.join(d, "cases.json"), "w"))
    env = {"DISCOVERY_STATE_LOCATION": os.path.join(d, "discovery-aggregated-state.json"),
           "REMEDY_STATE_LOCATION": os.path.join(d, "remedy-aggregated-state.json"),
           "LUNAR_PROXY_POLICIES_CONFIG": os.path.join(d, "policies.yaml"),
           "LUNAR_FLOWS_PATH_PARAM_CONFIG": os.path.join(d, "policies.yaml"),
           "LUNAR_AGGREGATION_TREE_REFRESH_SECS": str(REFRESH_S), "X05_SLACK_MS": str(SLACK_MS),
           "ENGINE_ADMIN_PORT": "", "LUNAR_STREAMS_ENABLED": ""}
    ctx.run_harness(binary, ["run", os.path.join(d, "cases.json"), d], timeout=timeout, env=env, cwd=d)
    return [os.path.join(d, "trace-%03d.ndjson" % i) for i in range(chunks)]


def split_runs(events):
    """[config, (stream, [run, ...]) ...] - a run = the events from its reset to its final."""
    fams = []
    for e in events[1:]:
        if e["ev"] == "stream":
            fams.append((e, []))
        elif e["ev"] == "reset":
            fams[-1][1].append([e])
        else:
            fams[-1][1][-1].append(e)
    return events[0], fams


def validate(ctx, events, tag, max_rounds=4):
    """TLC-validate one trace file against RemedyStatsTrace.  Returns (accepted runs, rejected, drift) with rejected =
    [{stream, run (events), at (index in run), law, run_index}]; a rejected run is removed and the rest validated again."""
    cfg, fams = split_runs(events)
    wd = workdir(ctx, tag)
    rejected, drift = [], None
    for rnd in range(max_rounds):
        flat, index = [cfg], []
        for fi, (s, runs) in enumerate(fams):
            flat.append(s)
            index.append(None)
            for ri, r in enumerate(runs):
                for k, e in enumerate(r):
                    flat.append(e)
                    index.append((fi, ri, k))
        write_ndjson(os.path.join(wd, "trace.ndjson"), flat)
        with TV_SLOTS:
            ok, hwm, r = ctx.tlc_trace(wd, "RemedyStatsTrace", os.path.join(wd, "trace.ndjson"), cfg="RemedyStatsTrace.cfg", timeout=1500)
        d = re.findall(r'TRACE-DRIFT (.*?)"', r.out)
        if d and d[-1] != "ok" and drift is None:
            drift = d[-1]
        if ok and not r.violated:
            return sum(len(runs) for _, runs in fams), rejected, drift
        if not r.violated or hwm < 2:
            raise Broken("trace validation %s stopped without a verdict at line %d: %r\n%s" % (tag, hwm, r, r.out[-2500:]))
        laws = re.findall(r'verdict = "([^"]*)"', r.out)
        law = laws[-1] if laws else "?"
        loc = index[hwm - 2]            # line hwm (1-based) is the event whose observation broke a law
        if loc is None:
            raise Broken("rejection at a stream line (%s line %d)" % (tag, hwm))
        fi, ri, k = loc
        rejected.append({"stream": fams[fi][0], "run": fams[fi][1][ri], "at": k, "law": law})
        del fams[fi][1][ri]
    return sum(len(runs) for _, runs in fams), rejected, drift


def script_of(fam, run_events):
    """the script of a recorded run: the family with that run only (the reset event carries the run's index)"""
    r = fam["runs"][run_events[0]["run"]]
    return {k: (fam[k] if k != "runs" else [r]) for k in FAM_KEYS if k != "id"}


def witness_of(rej, fam):
    run = rej["run"]
    e = run[rej["at"]]
    return {"class": "law-" + rej["law"], "law": rej["law"], "event": e["ev"], "mode": fam["mode"], "kind": fam.get("kind", ""),
            "batches": [x["n"] for x in run if x["ev"] == "batch"][:40], "restarted_before": any(x["ev"] == "start" for x in run[2: rej["at"]]),
            "lines": len(fam["recs"]), "error": str(e.get("err", ""))[:200]}


def judge(ctx, binary, groups, tag):
    """groups = lists of families, one executor process (and one trace file) each; executed and validated side by side."""
    def one(it):
        gi, fams = it
        p = execute(ctx, binary, fams, "%s%d" % (tag, gi))
        ev = read_ndjson(p[0])
        acc, rejected, drift = validate(ctx, ev, "%s%d" % (tag, gi))
        return fams, ev, acc, rejected, drift
    res = parallel(one, list(enumerate(groups)), n=max(1, min(len(groups), 10)))
    out = {"runs": 0, "batches": 0, "nontrivial": 0, "accepted": 0, "viol": [], "traces": [], "fams": 0, "drifts": [], "open_lines": 0,
           "skipped_lines": 0, "refreshes": 0}
    for gi, (fams, ev, acc, rejected, drift) in enumerate(res):
        out["accepted"] += acc
        out["fams"] += len(fams)
        out["traces"].append(ev)
        if drift:
            out["drifts"].append("%s%d %s" % (tag, gi, drift))
        _, fs = split_runs(ev)
        for s, runs in fs:
            recs = s["recs"]
            for r in runs:
                out["runs"] += 1
                b = [x for x in r if x["ev"] == "batch"]
                out["batches"] += len(b)
                out["refreshes"] += sum(1 for x in r if x["ev"] == "await" and x["seen"])
                # non-trivial: >= 2 chunks and some (remedy, action) entry that accumulated over more than one chunk
                if len(b) >= 2 and any(x["n"] >= 2 for x in b[-1]["out"]["rs"]):
                    out["nontrivial"] += 1
            out["open_lines"] += sum(1 for x in recs if any("generate_request" in a["x"] for a in x["ra"]))
            out["skipped_lines"] += sum(1 for x in recs if x["k"] != "ok")
        for rej in rejected[:3]:
            fam = fams[rej["stream"]["id"]]
            w = witness_of(rej, fam)
            sc = script_of(fam, rej["run"])
            # reproduce: the same script again on the real code (fresh process), judged again by the specification
            p2 = execute(ctx, binary, [dict(sc)], "%s%d-repro%d" % (tag, gi, len(out["viol"])))
            _, rej2, _ = validate(ctx, read_ndjson(p2[0]), "%s%d-repro%d" % (tag, gi, len(out["viol"])), max_rounds=1)
            if not rej2:
                raise Broken("rejection not reproduced (%s): %s" % (tag, json.dumps(w)))
            out["viol"].append((w, {"script": sc, "recorded_run": rej["run"][: rej["at"] + 1][-6:], "rejected_at": rej["at"], "law": rej["law"]}))
    return out


def apply(ctx, r, label):
    ctx.cov["traces_validated_against_impl"] += r["accepted"]
    ctx.cov["evaluations"] += r["batches"]
    ctx.cov["distinct_nontrivial"] += r["nontrivial"]
    for w, obj in r["viol"]:
        ctx.violation(w, obj)
    if r["drifts"]:
        ctx.cov["model_drift"] = True
        ctx.notes.append("MODEL-DRIFT (%s): the state file differs from RemedyStatsI's: %s" % (label, "; ".join(r["drifts"][:3])))
    ctx.log("%s: %d streams, %d runs, %d chunks on the real code (%d runs accumulating over chunks), %d rejected%s" % (
        label, r["fams"], r["runs"], r["batches"], r["nontrivial"], len(r["viol"]), ", DRIFT" if r["drifts"] else ""))


def chunked(xs, k):
    k = max(1, min(k, len(xs)))
    return [xs[i::k] for i in range(k)]


def by_known(fams, k):
    """executor processes for plugin-level families: all families of one process start from the same known-endpoints file,
    so that the file is written once per process - the refreshers of the plugin instances started earlier in the process
    (a restart is a new instance, the old one keeps ticking) never see a new modification time and stay inert"""
    groups = {}
    for f in fams:
        key = json.dumps(f["known"], sort_keys=True) if f["mode"] == "plugin" else "direct"
        groups.setdefault(key, []).append(f)
    out = []
    for key, fs in sorted(groups.items()):
        out += chunked(fs, max(1, round(k * len(fs) / len(fams))))
    return out


BUGS_DIRECT = ["per_result", "overwrite", "noop", "internal_counted", "batch_total", "restart_keeps"]
BUGS_PLUGIN = ["stop_at_garbage", "fresh_state"]
WITNESSES = ["MC_W_TwoEndpoints", "MC_W_SwapDuringFlush", "MC_W_CountsSurviveRefresh"]


def run(ctx):
    T = ctx.thorough
    binary = build(ctx)
    thr = production_threshold()
    ctx.cov["rule"] = ("run = one way of chunking (restarting, refreshing) one stream of access-log lines, executed on the real plugin code and "
                       "validated event by event by RemedyStatsTrace; streams: TLC-enumerated words of <= 4 lines over an 8-letter alphabet x every "
                       "composition x a restart after any one chunk (remedy.Run level and plugin entry-point level), seeded random streams of 30-200 "
                       "lines (all remedy types, spelling variants, uninterpretable lines, gateway-internal traffic, flows mode), plugin lifetimes with "
                       "rewrites of the known-endpoints file under the real ticker; non-trivial = run of >= 2 chunks with a (remedy, action) entry "
                       "counting >= 2 transactions")
    ctx.cov["checker_cmd"] = "tlc -config MC_direct_small.cfg MC_X05.tla ; tlc -config MC_plugin_quick.cfg MC_X05.tla ; tlc -config RemedyStatsTrace.cfg RemedyStatsTrace.tla"
    ctx.cov["trusted_base"] = ["TLC 1.8", "CommunityModules (Json, SequencesExt)", "Go toolchain + cgo",
                               "harness/cmd/x05 projection (state file read as generic JSON; ratios scaled by 1e5 and rounded; times as whole-second offsets)",
                               "package clause of the plugin's main.go / tree_update.go rewritten so that FLBPluginInit / FLBPluginFlushCtx can be called; "
                               "shim.go.txt plays fluent-bit's side of the proxy interface (context pointer re-read at every flush)",
                               "hand-written msgpack encoder for [timestamp, {time, service, message}] entries"]
    ctx.assumptions += ["chunks are well-formed msgpack entries as fluent-bit produces them (what varies is the message text)",
                        "a line that is a JSON object but lacks the access-log fields is not generated (the statement does not say what it is)",
                        "the refresher is granted %d ms beyond its interval of %d s before 'not refreshed' counts" % (SLACK_MS, REFRESH_S),
                        "when the refresher replaced the tree during a flush, which tree that flush saw is not observable: the rest of that run is "
                        "judged for counts reaching discovery only", "URL tree threshold %d (production value parsed from main.go)" % thr]

    g = ctx.tlc(workdir(ctx, "mc-gen"), "GenX05", "GenX05.cfg", workers=1, timeout=600, label="case generation")
    if not g.ok:
        raise Broken("case generation failed: %r\n%s" % (g, g.out[-2000:]))
    space = json.load(open(os.path.join(workdir(ctx, "mc-gen"), "x05_space.json")))
    efams = enumerated_families(ctx, space)
    rdir = random_families(ctx, "direct", 6 if not T else 30)
    rplug = random_families(ctx, "plugin", 8 if not T else 40, flows_every=4)
    tfams = [tree_family(ctx, v) for v in range(6 if not T else 24)]

    def mc(job):
        cfg, label, tag = job
        return ctx.tlc(workdir(ctx, "mc-" + tag), "MC_X05", cfg, workers=4 if not T else 10, timeout=1700, label=label, count=False, heap="3g")
    jobs = [("MC_direct_small.cfg" if not T else "MC_direct_large.cfg", "laws of P on every reachable state of I (remedy.Run level)", "direct"),
            ("MC_plugin_quick.cfg" if not T else "MC_plugin_small.cfg", "laws of P on every reachable state of I (plugin dispatch + refresher)", "plugin"),
            ("MC_flows_small.cfg", "flows mode: no remedy statistics, discovery still counts", "flows")]
    jobs += [("MC_bug_%s.cfg" % b, "non-vacuity: broken variant '%s' must be refuted" % b, "bug-" + b) for b in BUGS_DIRECT + BUGS_PLUGIN]
    jobs += [(w + ".cfg", "witness %s (expected to be violated)" % w, w) for w in (WITNESSES if T else WITNESSES[:1])]
    if T:
        jobs.append(("MC_plugin_large.cfg", "laws of P, two rewrites of the known-endpoints file", "plugin-large"))
        jobs.append(("MC_benign_remedy_first.cfg", "permissiveness: remedy statistics before discovery (lookup before the insertion) is accepted", "benign-first"))

    def part(name):
        if name == "mc":
            return parallel(mc, jobs, n=4 if not T else 4)
        if name == "enum":      # spec -> code: TLC-enumerated words x compositions x restart points, both levels
            return judge(ctx, binary, by_known(efams, 4 if not T else 10), "enum")
        if name == "rand":      # code -> spec: seeded random long streams
            return judge(ctx, binary, chunked(rdir, 2 if not T else 4) + by_known(rplug, 2 if not T else 4), "rand")
        return judge(ctx, binary, [[f] for f in tfams], "tree")      # one plugin process per lifetime (real ticker)

    def timed(name):
        t = time.time()
        r = part(name)
        ctx.log("part %s took %.0fs" % (name, time.time() - t))
        return r
    res, r_enum, r_rand, r_tree = parallel(timed, ["mc", "enum", "rand", "tree"], n=4)
    for (cfg, label, tag), r in zip(jobs, res):
        ctx.cov["tlc_runs"].append({"module": "MC_X05", "cfg": cfg, "generated": r.generated, "distinct": r.distinct, "depth": r.depth,
                                    "wall_s": round(r.wall, 1), "result": "ok" if r.ok else (r.violated or "error"), "label": label})
        if "must be refuted" in label or "expected to be violated" in label:
            if r.violated is None:
                raise Broken("vacuous: MC_X05/%s was not refuted: %r\n%s" % (cfg, r, r.out[-1500:]))
        elif not r.ok:
            raise Broken("TLC %s: %r\n%s" % (cfg, r, r.out[-3000:]))
        else:
            if r.distinct <= 1:
                raise Broken("trivial state space")
            ctx.cov["states"] += r.distinct
            ctx.cov["transitions"] += r.generated
            ctx.log("TLC MC_X05 %s: %d generated / %d distinct, %.1fs" % (cfg, r.generated, r.distinct, r.wall))
    apply(ctx, r_enum, "enumerated words (both levels)")
    apply(ctx, r_rand, "random streams")
    apply(ctx, r_tree, "known-endpoints refresh under the real ticker")
    if r_tree["refreshes"] == 0 and not r_tree["viol"]:
        raise Broken("vacuous: no refresh of the known-endpoints tree was observed")
    ctx.notes.append("named deviation D1 (generate_request is mapped by remedy_with_action.go but refused by the decoder; P accepts both readings): "
                     "%d such lines were delivered" % (r_enum["open_lines"] + r_rand["open_lines"]))
    ctx.notes.append("%d tree refreshes observed; %d uninterpretable lines delivered" % (r_tree["refreshes"], r_enum["skipped_lines"] + r_rand["skipped_lines"]))
    ctx.sample({"kind": "enumerated-run", "word": efams[-1]["word"], "steps": efams[-1]["runs"][-1]["steps"]})
    ev = r_rand["traces"][-1]
    bi = [i for i, e in enumerate(ev) if e["ev"] == "batch" and e["out"]["rs"]]
    if bi:
        ctx.sample({"kind": "recorded-chunk", "n": ev[bi[-1]]["n"], "remedy_stats": ev[bi[-1]]["out"]["rs"][:2]})
    if T:
        selftest(ctx, r_enum["traces"][0])


def selftest(ctx, ev):
    """binding self-test: corrupted recordings must be rejected, each by the law it breaks"""
    def first(pred):
        return next(i for i, e in enumerate(ev) if e["ev"] == "batch" and pred(e))
    checks = []
    t = copy.deepcopy(ev); k = first(lambda e: e["out"]["rs"])
    t[k]["out"]["rs"][0]["n"] += 1
    checks.append(("count+1", t, "Conserve"))
    t = copy.deepcopy(ev); k = first(lambda e: e["out"]["rs"])
    t[k]["out"]["rs"][0]["ratio"] = max(0, t[k]["out"]["rs"][0]["ratio"] - 7)
    checks.append(("ratio-7", t, "Ratio"))
    t = copy.deepcopy(ev); k = first(lambda e: e["out"]["rs"])
    t[k]["out"]["rs"][0]["eps"][0]["u"] += "x"
    checks.append(("endpoint renamed", t, "Partition-Keys"))
    t = copy.deepcopy(ev); k = first(lambda e: e["out"]["rs"])
    t[k]["out"]["rs"][0]["eps"][0]["st"][0]["code"] = "299"
    checks.append(("status code", t, "StatusSum"))
    t = copy.deepcopy(ev); k = first(lambda e: e["out"]["as"])
    t[k]["out"]["as"][0]["n"] += 1
    checks.append(("action count+1", t, "Action-Conserve"))
    t = copy.deepcopy(ev)
    k = next(i for i, e in enumerate(t) if e["ev"] == "batch" and e["out"]["rs"] and t[i + 1]["ev"] == "batch")
    del t[k]
    checks.append(("dropped chunk event", t, None))
    t = copy.deepcopy(ev); k = next(i for i, e in enumerate(t) if e["ev"] == "start" and i > 3 and t[i - 1]["ev"] == "batch" and t[i - 1]["out"]["rs"])
    t[k]["out"] = t[k - 1]["out"]
    checks.append(("restart keeps", t, "Restart-NotClean"))
    for name, t, law in checks:
        _, rej, _ = validate(ctx, t, "self-" + re.sub(r"\W", "", name), max_rounds=1)
        if not rej or (law and rej[0]["law"] != law):
            raise Broken("self-test '%s': corrupted recording %s" % (name, "accepted" if not rej else "rejected by %s instead of %s" % (rej[0]["law"], law)))
    ctx.notes.append("self-test: " + ", ".join("%s -> %s" % (n, l or "rejected") for n, _, l in checks))


def replay(ctx, path):
    obj = json.load(open(path))
    binary = build(ctx)
    sc = obj["replay"]["script"]
    p = execute(ctx, binary, [dict(sc)], "replay")
    ev = read_ndjson(p[0])
    for e in ev:
        print(json.dumps(e)[:400])
    _, rej, _ = validate(ctx, ev, "replay", max_rounds=1)
    if rej:
        print("VIOLATION property=X05 replay=%s" % path)
        print("   law %s broken at event %d of the run" % (rej[0]["law"], rej[0]["at"]))
        return 1
    print("replay accepted by the specification")
    return 0
