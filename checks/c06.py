"""C06 - queued requests in flows mode: one verdict within TTL, priority order, bounded queue, safe shutdown.

spec:     specs/c06_flow_queue  FlowQueueP (property over observable events), FlowQueueI (PlusCal, implementation-shaped:
          request goroutines, processing loop, TTL watcher, shutdown, clock), FlowQueueTrace, GenC06, MC_C06
binding:  harness/cmd/c06 drives the real Queue processor inside a real engine built from a directory (flow
          Queue -> allowed | blocked -> GenerateResponse), real clock, goroutines calling ExecuteFlow, one child process
          per scenario; the verifhook yield points of processors/queue act as gates, so a TLC schedule of FlowQueueI
          (counterexample of a model variant, or a -simulate walk) is forced step by step on the real code.
oracle:   every recording (forced or free-running) is validated by TLC against FlowQueueP (FlowQueueTrace).
"""
import json, os, re
from vlib import Broken, read_ndjson, write_ndjson, validate_history_trace, parallel, tlc_vh_lines

SPEC = "c06_flow_queue"
IDS = ["r1", "r2", "r3", "r4", "r5", "r6"]
TICK_MS = 1000          # one model tick of a directed schedule = one wall-clock second (quota windows are whole seconds)
SLACK_MS = 2000         # scheduling slack of the time predicate only (machine shared with other jobs)

# the implementation-shaped model: constants of MC_C06 / FlowQueueI
GOOD = dict(SplitSlotCheck=False, RequeueNewTs=False, StopAllGuarded=True, DrainRepeats=True,
            WatcherArbitrates=True, HeapFifo=True, SlotStrict=True, CallsStopAll=True)
# the code as it is in /repo: repaired defects are GOOD, open findings keep their deviation (known_findings.json)
KF_FLAGS = {"C06-O12-requeue-loses-position": ("RequeueNewTs", True)}
SMALL2 = dict(Req=["r1", "r2"], Prio="cPrio2", TTL=2, Slack=1, QueueSize=1, QMax=1, QW=2, MaxNow=5, Shutdowns=True)
SMALL3 = dict(Req=["r1", "r2", "r3"], Prio="cPrio3", TTL=2, Slack=1, QueueSize=2, QMax=1, QW=1, MaxNow=3, Shutdowns=False)
PRIOS = {"cPrio2": {"r1": 0, "r2": 0}, "cPrio2m": {"r1": 1, "r2": 0},
         "cPrio3": {"r1": 0, "r2": 0, "r3": 1}, "cPrio3m": {"r1": 1, "r2": 0, "r3": 0}}
SAFETY = ["TypeOK", "OneVerdict", "OnlyIfQuota", "Order", "SizeBound", "NoCrash", "Protocol", "Faithful"]

# model variants: each must be refuted by TLC (non-vacuity of I => P) and yields the shortest schedule showing that
# class of failure; the schedule is then forced on the real code, which must not show it.
#   name -> (instance, flags, invariant expected to fail | "LIVENESS")
VARIANTS = {
    "O11-stopall-unguarded": (SMALL2, dict(StopAllGuarded=False, DrainRepeats=False), "NoCrash"),
    "O13-split-slot-check": (SMALL2, dict(SplitSlotCheck=True), "SizeBound"),
    "O12-requeue-new-timestamp": (SMALL3, dict(RequeueNewTs=True), "Order"),
    "drain-once": (SMALL2, dict(DrainRepeats=False), "LIVENESS"),
    "mut-watcher-no-arbitration": (SMALL2, dict(WatcherArbitrates=False), "NoCrash"),
    "mut-heap-not-fifo": (SMALL3, dict(HeapFifo=False), "Order"),
    "mut-slot-off-by-one": (SMALL2, dict(SlotStrict=False), "SizeBound"),
    "mut-no-stopall": (SMALL2, dict(CallsStopAll=False), "LIVENESS"),
}

CLASS = {"T_Order": "order-inversion", "T_SizeBound": "size-bound", "T_NoCrash": "crash", "T_InTTL": "no-verdict-in-ttl",
         "T_OneVerdict": "double-decision", "T_OnlyIfQuota": "allowed-without-quota", "T_Protocol": "protocol"}


def tla(v):
    if isinstance(v, bool):
        return "TRUE" if v else "FALSE"
    if isinstance(v, list):
        return "{" + ", ".join('"%s"' % x for x in v) + "}"
    return str(v)


def cfg_text(inst, flags, invariants=(), spec="Spec", props=(), extra=""):
    c = dict(inst)
    f = dict(GOOD)
    f.update(flags)
    lines = ["CONSTANTS"]
    for k, v in c.items():
        lines.append("  Prio <- %s" % v if k == "Prio" else "  %s = %s" % (k, tla(v)))
    for k, v in f.items():
        lines.append("  %s = %s" % (k, tla(v)))
    lines.append("SPECIFICATION " + spec)
    if invariants:
        lines.append("INVARIANTS " + " ".join(invariants))
    if props:
        lines.append("PROPERTIES " + " ".join(props))
    lines += ["VIEW View", "CHECK_DEADLOCK FALSE", extra]
    return "\n".join(lines) + "\n"


# ---------------------------------------------------------------------------------------------- schedules -> gate scripts

def steps_from_dump(path):
    """TLC -dumpTrace json  ->  the step records GenC06 writes (process, from, to, cur, w, now, result, dead)."""
    d = json.load(open(path))
    states = [x[1] for x in d["counterexample"]["state"]]
    steps = []
    for a, b in zip(states, states[1:]):
        base = {"cur": b["cur"], "w": b["w"], "now": b["now"], "result": b["result"], "dead": b["ps"]["dead"]}
        if b["now"] != a["now"]:
            steps.append(dict(base, p="clock", **{"from": "Tk", "to": "Tk"}))
            continue
        ch = [p for p in b["pc"] if b["pc"][p] != a["pc"][p]]
        if ch:
            steps.append(dict(base, p=ch[0], **{"from": a["pc"][ch[0]], "to": b["pc"][ch[0]]}))
        elif a != b:
            steps.append(dict(base, p="loop", **{"from": "Tick", "to": "Tick"}))
    return steps, states[-1]


HOLDS = ["q.loop_tick", "q.loop_pop", "q.quota", "q.after_slot_check", "q.before_remove", "q.before_signal.timeout"]


def script_from_steps(steps, prios):
    """one gate-script step (or a few) per model step: which goroutine may pass which yield point next, and which
    point it must reach before the next model step is taken."""
    s = [{"op": "hold", "point": p, "id": ""} for p in HOLDS]
    cancelled = False
    for st in steps:
        p, fr, to = st["p"], st["from"], st["to"]
        if p == "clock":
            if to == "Tk":
                s.append({"op": "until", "ms": st["now"] * TICK_MS})
        elif p == "loop":
            if fr == "Tick":
                s.append({"op": "pass", "point": "q.loop_tick"})
                if cancelled:
                    s.append({"op": "await", "point": "q.stopall_done"})
                elif to == "Pop":
                    s.append({"op": "await", "point": "q.loop_pop"})
            elif fr == "Pop":
                s.append({"op": "pass", "point": "q.loop_pop"})
                if to in ("Grant", "Requeue"):
                    s.append({"op": "await", "point": "q.quota", "id": st["cur"]})
                else:
                    s.append({"op": "await", "point": "q.loop_pop" if to == "Pop" else "q.loop_tick"})
            elif fr == "Grant":
                s.append({"op": "pass", "point": "q.quota", "id": st["cur"]})
                if not st["dead"]:
                    s.append({"op": "await", "point": "q.loop_pop" if to == "Pop" else "q.loop_tick"})
            elif fr == "Requeue":
                s.append({"op": "pass", "point": "q.quota", "id": st["cur"]})
                s.append({"op": "await", "point": "q.requeued", "id": st["cur"]})
                s.append({"op": "await", "point": "q.loop_tick"})
        elif p == "watcher":
            if fr == "Scan":
                s.append({"op": "await", "point": "q.before_signal.timeout", "id": st["w"]})
            elif fr == "Signal":
                s.append({"op": "pass", "point": "q.before_signal.timeout", "id": st["w"]})
        elif p == "shutdown":
            s.append({"op": "shutdown"})
            cancelled = True
        else:
            if fr == "Arrive":
                s.append({"op": "arrive", "id": p, "prio": "p%d" % prios[p]})
                if to == "Enroll":
                    s.append({"op": "await", "point": "q.after_slot_check", "id": p})
                else:
                    s.append({"op": "await_verdict", "id": p})
            elif fr == "Enroll":
                s.append({"op": "pass", "point": "q.after_slot_check", "id": p})
                s.append({"op": "await", "point": "q.enqueued", "id": p})
            elif fr == "Return":
                s.append({"op": "await_verdict", "id": p})
            elif fr == "Remove":
                s.append({"op": "pass", "point": "q.before_remove", "id": p})
                s.append({"op": "await", "point": "q.removed", "id": p})
        if st.get("dead"):
            break       # the model's process died here; the real one is observed by its exit status
    s.append({"op": "end"})
    return s


def predicted_events(steps):
    """observable events the model emits along a schedule (bookkeeping for the forced/diverged statistics)."""
    ev = []
    for st in steps:
        p, fr, to = st["p"], st["from"], st["to"]
        if st.get("dead"):
            ev.append(("crash",))
            break
        if p == "loop" and fr == "Pop":
            ev.append(("pick",))
            if to in ("Grant", "Requeue"):
                ev.append(("quota", st["cur"], to == "Grant"))
        elif p == "loop" and fr == "Grant":
            ev.append(("grant", st["cur"]))
        elif p == "watcher" and fr == "Signal":
            ev.append(("expire", st["w"]))
        elif p == "shutdown":
            ev.append(("shutdown",))
        elif fr == "Arrive" and p.startswith("r"):
            ev.append(("arrive", p))
        elif fr == "Enroll":
            ev.append(("enq", p))
        elif fr == "Return":
            ev.append(("verdict", p, "allowed" if st["result"][p] == "success" else "blocked"))
        elif fr == "Refuse":
            ev.append(("verdict", p, "blocked"))
    return ev


def observed_events(hist):
    ev = []
    for e in hist:
        n = e["ev"]
        if n == "free":
            break           # from here on nothing is steered any more
        if n in ("pick", "shutdown", "crash"):
            ev.append((n,))
        elif n == "quota":
            ev.append((n, e["id"], e["ok"]))
        elif n in ("grant", "expire", "arrive", "enq"):
            ev.append((n, e["id"]))
        elif n == "verdict":
            ev.append((n, e["id"], e["out"]))
    return ev


def same_modulo_verdict_position(a, b):
    """the return of a call is not gated: compare the sequences without verdicts, and the verdicts as sets."""
    fa, fb = [x for x in a if x[0] != "verdict"], [x for x in b if x[0] != "verdict"]
    va, vb = {x for x in a if x[0] == "verdict"}, {x for x in b if x[0] == "verdict"}
    return fa == fb and va <= vb


def directed_scenario(name, inst, steps):
    return {"name": name, "config": {"align": True, "ttl_s": inst["TTL"] * TICK_MS // 1000, "queue_size": inst["QueueSize"],
                                      "qmax": inst["QMax"], "qwin_s": inst["QW"] * TICK_MS // 1000, "slack_ms": SLACK_MS},
            "steps": script_from_steps(steps, PRIOS[inst["Prio"]])}


# ---------------------------------------------------------------------------------------------- execution and judgement

def execute(ctx, binary, scenarios, tag, par=16):
    d = ctx.sub("run-" + tag)
    sp = os.path.join(d, "scenarios.json")
    json.dump(scenarios, open(sp, "w"))
    ctx.run_harness(binary, ["run", sp, d, str(par)], timeout=900)
    out = []
    for i in range(len(scenarios)):
        p = os.path.join(d, "trace-%04d.ndjson" % i)
        out.append(read_ndjson(p) if os.path.exists(p) else [])
    return out


def witness_of(hist, at, invariant):
    e = hist[at]
    before = hist[:at]
    w = {"class": CLASS.get(invariant, invariant or "rejected"), "event": {k: v for k, v in e.items()}, "invariant": invariant}
    decided = {x.get("id") for x in before if x["ev"] in ("grant", "expire", "verdict")}
    w["after_shutdown"] = any(x["ev"] == "shutdown" for x in before)
    if w["class"] == "order-inversion":
        # the overtaken request had been pushed back after a blocked attempt (re-enqueued with a new timestamp)
        w["after_requeue"] = any(x["ev"] == "requeue" and x["id"] not in decided and x["id"] != e.get("id") for x in before)
    if w["class"] == "size-bound":
        # two requests were between the slot test and their registration at the same time
        open_slots, conc = set(), False
        for x in before + [e]:
            if x["ev"] == "slot":
                open_slots.add(x["id"])
                conc = conc or len(open_slots) > 1
            elif x["ev"] == "enq":
                open_slots.discard(x["id"])
        w["concurrent_slot_check"] = conc
    if w["class"] == "crash":
        w["msg"] = e.get("msg", "")
    if w["class"] == "no-verdict-in-ttl":
        ans = {x["id"] for x in hist if x["ev"] == "verdict"}
        w["unanswered"] = sorted({x["id"] for x in hist if x["ev"] == "arrive"} - ans)
    return w


def judge(ctx, traces, tag):
    """TLC validation of recordings against FlowQueueP.  Returns per trace: None (accepted) or (at, invariant).
    Recordings are grouped by (ttl, slack, qsize): these are constants of the property."""
    groups = {}
    for i, h in enumerate(traces):
        if not h or h[0].get("ev") != "reset":
            raise Broken("recording %s/%d is empty" % (tag, i))
        if any(e["ev"] == "abort" for e in h):
            raise Broken("harness failure in %s/%d: %s" % (tag, i, [e for e in h if e["ev"] == "abort"][0]))
        r = h[0]
        groups.setdefault((r["ttl"], r["slack"], r["qsize"]), []).append(i)
    res = [None] * len(traces)

    def one(item):
        (ttl, slack, qsize), idx = item
        remaining = list(idx)
        out = {}
        rounds = 0
        while remaining:
            rounds += 1
            ev = [{"ev": "config", "ids": IDS, "ttl": ttl, "slack": slack, "qsize": qsize}]
            for i in remaining:
                ev += traces[i]
            acc, rej, _ = validate_history_trace(ctx, SPEC, "FlowQueueTrace", ev, tag="%s-%d-%d-%d-%d" % (tag, ttl, slack, qsize, rounds),
                                                 max_rounds=1, timeout=900)
            if not rej:
                break
            r = rej[0]
            # locate the rejected history among the remaining ones
            k = next(i for i in remaining if traces[i] is not None and traces[i][0] is r["hist"][0] or traces[i] == r["hist"])
            out[k] = (r["at"], r["invariant"])
            remaining.remove(k)
            if rounds > 40:
                raise Broken("more than 40 rejected recordings in %s" % tag)
        return out

    for out in parallel(one, list(groups.items()), n=4):
        for k, v in out.items():
            res[k] = v
    return res


def nontrivial(hist):
    """a recording exercises the property when at least two requests waited at the same time."""
    waiting, best = set(), 0
    for e in hist:
        if e["ev"] == "enq":
            waiting.add(e["id"])
            best = max(best, len(waiting))
        elif e["ev"] in ("grant", "expire", "verdict"):
            waiting.discard(e.get("id"))
    return best >= 2


def account(ctx, traces, verdicts, seen):
    for h, v in zip(traces, verdicts):
        ctx.cov["evaluations"] += sum(1 for e in h if e["ev"] == "arrive")
        if v is None:
            ctx.cov["traces_validated_against_impl"] += 1
        key = json.dumps([[e["ev"], e.get("id"), e.get("out"), e.get("ok")] for e in h if e["ev"] not in ("tick",)])
        if key not in seen:
            seen.add(key)
            if nontrivial(h):
                ctx.cov["distinct_nontrivial"] += 1


def report(ctx, binary, scenario, hist, verdict, tag, deterministic):
    """a recording rejected by the specification: reproduce it (same script again), then report."""
    at, inv = verdict
    w = witness_of(hist, at, inv)
    attempts = 2 if deterministic else 20
    for a in range(attempts):
        t2 = execute(ctx, binary, [scenario], "%s-repro" % tag, par=1)[0]
        v2 = judge(ctx, [t2], "%s-repro%d" % (tag, a))[0]
        if v2 is not None and CLASS.get(v2[1]) == w["class"]:
            w2 = witness_of(t2, v2[0], v2[1])
            ctx.violation(w2 if ctx.match_known(w2) is None and ctx.match_known(w) is not None else w,
                          {"scenario": scenario, "trace": hist, "rejected_at": at, "invariant": inv})
            return w
    raise Broken("rejection not reproduced in %d attempts (%s): %s" % (attempts, tag, json.dumps(w)))


# ---------------------------------------------------------------------------------------------- TLC parts

def tlc_variant(ctx, sd, name, inst, flags, expect, workers=None):
    """a model variant must be refuted; returns the counterexample as schedule steps."""
    live = expect == "LIVENESS"
    cfg = "v_%s.cfg" % name
    open(os.path.join(sd, cfg), "w").write(
        cfg_text(inst, flags, invariants=[] if live else [expect], spec="FairSpec" if live else "Spec",
                 props=["Answered"] if live else []))
    dump = os.path.join(sd, "v_%s.json" % name)
    r = ctx.tlc(sd, "MC_C06", cfg, timeout=900, workers=workers, extra=["-noGenerateSpecTE", "-dumpTrace", "json", dump],
                label="variant %s must be refuted (%s)" % (name, expect))
    if r.violated is None and re.search(r"Temporal propert(y|ies) .*violated", r.out):
        r.violated = "TEMPORAL"
    if r.violated is None or not os.path.exists(dump):
        raise Broken("model variant %s is not refuted by TLC (vacuous I => P): %r\n%s" % (name, r, r.out[-1500:]))
    steps, last = steps_from_dump(dump)
    return steps, last


def run(ctx):
    T = ctx.thorough
    binary = ctx.build_harness("c06")
    sd = ctx.spec_dir(SPEC)
    seen = set()
    ctx.cov["rule"] = ("recordings of the real Queue processor in a real engine: (a) schedules of the TLA+ model FlowQueueI "
                       "(TLC counterexamples of every model variant + TLC -simulate walks) forced through the yield points, "
                       "(b) seeded free-running concurrent arrivals with random priorities / queue sizes / quotas / shutdown; "
                       "a recording is non-trivial when at least two requests waited in the queue at the same time; "
                       "distinct by the sequence of (event, request, outcome)")
    ctx.cov["checker_cmd"] = "tlc -config MC_fixed2.cfg MC_C06.tla ; tlc -config FlowQueueTrace.cfg FlowQueueTrace.tla"
    ctx.cov["trusted_base"] = ["TLC 1.8", "CommunityModules Json", "pcal translation (committed)", "Go toolchain",
                               "harness/cmd/c06 (gates on verifhook points, projection: early-response action = blocked)",
                               "child exit status = crash"]
    ctx.assumptions += ["single gateway (in-memory queue, redis_queue_size = -1)", "fixed-window quota attached to the queue only",
                        "TTL and quota window are whole seconds; 1 model tick = 1 s in forced schedules",
                        "time predicate InTTL with %d ms scheduling slack; ordering predicates without slack" % SLACK_MS,
                        "registration (AddRequest) and heap push are one model step"]
    raise Broken("not finished")


def replay(ctx, path):
    obj = json.load(open(path))
    binary = ctx.build_harness("c06")
    sc = obj["replay"]["scenario"]
    want = obj["witness"]["class"]
    for a in range(20):
        t = execute(ctx, binary, [sc], "replay", par=1)[0]
        v = judge(ctx, [t], "replay%d" % a)[0]
        if v is not None:
            for e in t:
                print(json.dumps(e))
            print("VIOLATION property=C06 replay=%s" % path)
            print("   rejected at event %d (%s): %s" % (v[0], v[1], json.dumps(t[v[0]])))
            return 1
        if not any(e["ev"] == "diverged" for e in t):
            break
    print("replay accepted by the specification (class %s not shown)" % want)
    return 0
