"""C06 - queued requests in flows mode: one verdict within TTL, priority order, bounded queue, safe shutdown.

spec:     specs/c06_flow_queue  FlowQueueP (property over observable events), FlowQueueI (PlusCal, implementation-shaped:
          request goroutines, processing loop, TTL watcher, shutdown, clock), FlowQueueTrace, GenC06, MC_C06
binding:  harness/cmd/c06 drives the real Queue processor inside a real engine built from a directory (flow
          Queue -> allowed | blocked -> GenerateResponse), real clock, goroutines calling ExecuteFlow, one child process
          per scenario; the verifhook yield points of processors/queue act as gates, so a TLC schedule of FlowQueueI
          (counterexample of a model variant, or a -simulate walk) is forced step by step on the real code.
oracle:   every recording (forced or free-running) is validated by TLC against FlowQueueP (FlowQueueTrace).
"""
import json, os, re
from vlib import Broken, read_ndjson, write_ndjson, validate_history_trace, parallel, tlc_vh_lines

SPEC = "c06_flow_queue"
IDS = ["r%d" % i for i in range(1, 13)]
TICK_MS = 1000          # one model tick of a directed schedule = one wall-clock second (quota windows are whole seconds)
SLACK_MS = 3000         # scheduling slack of the time predicate only (machine shared with other jobs)

# the implementation-shaped model: constants of MC_C06 / FlowQueueI
GOOD = dict(SplitSlotCheck=False, RequeueNewTs=False, StopAllGuarded=True, DrainRepeats=True,
            WatcherArbitrates=True, HeapFifo=True, SlotStrict=True, CallsStopAll=True,
            PushBeforeRegister=False, FaultDropsHead=False)
# the code as it is in /repo: repaired defects are GOOD, open findings keep their deviation (known_findings.json)
KF_FLAGS = {"C06-O12-requeue-loses-position": ("RequeueNewTs", True)}
SMALL2 = dict(Req=["r1", "r2"], Prio="cPrio2", TTL=2, Slack=1, QueueSize=1, QMax=1, QW=2, MaxNow=5, Shutdowns=True, Faults=False)
SMALL3 = dict(Req=["r1", "r2", "r3"], Prio="cPrio3", TTL=2, Slack=1, QueueSize=2, QMax=1, QW=1, MaxNow=3, Shutdowns=False, Faults=False)
PRIOS = {"cPrio2": {"r1": 0, "r2": 0}, "cPrio2m": {"r1": 1, "r2": 0},
         "cPrio3": {"r1": 0, "r2": 0, "r3": 1}, "cPrio3m": {"r1": 1, "r2": 0, "r3": 0}}
SAFETY = ["TypeOK", "OneVerdict", "OnlyIfQuota", "Order", "SizeBound", "NoCrash", "Protocol", "Faithful"]

# model variants: each must be refuted by TLC (non-vacuity of I => P) and yields the shortest schedule showing that
# class of failure; the schedule is then forced on the real code, which must not show it.
#   name -> (instance, flags, invariant expected to fail | "PROP:<action property>" | "LIVENESS")
VARIANTS = {
    "O11-stopall-unguarded": (SMALL2, dict(StopAllGuarded=False, DrainRepeats=False), "NoCrash"),
    "O13-split-slot-check": (SMALL2, dict(SplitSlotCheck=True), "SizeBound"),
    "O12-requeue-new-timestamp": (SMALL3, dict(RequeueNewTs=True), "Order"),
    "drain-once": (SMALL2, dict(DrainRepeats=False), "NotStranded"),
    "mut-watcher-no-arbitration": (SMALL2, dict(WatcherArbitrates=False), "NoCrash"),
    "mut-heap-not-fifo": (SMALL3, dict(HeapFifo=False), "Order"),
    "mut-slot-off-by-one": (SMALL2, dict(SlotStrict=False), "SizeBound"),
    "mut-no-stopall": (SMALL2, dict(CallsStopAll=False), "PROP:DrainReleases"),
    "mut-push-before-register": (dict(SMALL2, Prio="cPrio2m", QueueSize=2), dict(PushBeforeRegister=True), "Order"),
    "mut-fault-drops-head": (dict(SMALL2, Prio="cPrio2m", QueueSize=2, Faults=True), dict(FaultDropsHead=True), "Order"),
}

# label-to-label transitions of FlowQueueI (the model of the code as it is): coverage of the forced schedules
EDGES = {("R", "Arrive", "Enroll"), ("R", "Arrive", "Refuse"), ("R", "Enroll", "Push"), ("R", "Push", "Wait"), ("R", "Enroll", "Refuse"),
         ("R", "Wait", "Return"), ("R", "Return", "Remove"), ("R", "Remove", "Done"), ("R", "Refuse", "Done"),
         ("loop", "Tick", "Pop"), ("loop", "Tick", "Tick"), ("loop", "Pop", "Grant"), ("loop", "Pop", "Requeue"),
         ("loop", "Pop", "Pop"), ("loop", "Pop", "Tick"), ("loop", "Grant", "Pop"), ("loop", "Grant", "Tick"),
         ("loop", "Requeue", "Tick"), ("loop", "Pop", "Faulted"), ("loop", "Faulted", "Tick"), ("watcher", "Scan", "Signal"), ("watcher", "Signal", "Scan"),
         ("shutdown", "Cancel", "Done"), ("clock", "Tk", "Tk")}

CLASS = {"T_Order": "order-inversion", "T_SizeBound": "size-bound", "T_NoCrash": "crash", "T_InTTL": "no-verdict-in-ttl",
         "T_OneVerdict": "double-decision", "T_OnlyIfQuota": "allowed-without-quota", "T_Protocol": "protocol"}


def tla(v):
    if isinstance(v, bool):
        return "TRUE" if v else "FALSE"
    if isinstance(v, list):
        return "{" + ", ".join('"%s"' % x for x in v) + "}"
    return str(v)


def cfg_text(inst, flags, invariants=(), spec="Spec", props=(), extra=""):
    c = dict(inst)
    f = dict(GOOD)
    f.update(flags)
    lines = ["CONSTANTS"]
    for k, v in c.items():
        lines.append("  Prio <- %s" % v if k == "Prio" else "  %s = %s" % (k, tla(v)))
    for k, v in f.items():
        lines.append("  %s = %s" % (k, tla(v)))
    lines.append("SPECIFICATION " + spec)
    if invariants:
        lines.append("INVARIANTS " + " ".join(invariants))
    if props:
        lines.append("PROPERTIES " + " ".join(props))
    lines += ["VIEW View", "CHECK_DEADLOCK FALSE", extra]
    return "\n".join(lines) + "\n"


# ---------------------------------------------------------------------------------------------- schedules -> gate scripts

def steps_from_dump(path):
    """TLC -dumpTrace json  ->  the step records GenC06 writes (process, from, to, cur, w, now, result, dead)."""
    d = json.load(open(path))
    states = [x[1] for x in d["counterexample"]["state"]]
    steps = []
    for a, b in zip(states, states[1:]):
        base = {"cur": b["cur"], "w": b["w"], "now": b["now"], "result": b["result"], "dead": b["ps"]["dead"]}
        if b["now"] != a["now"]:
            steps.append(dict(base, p="clock", **{"from": "Tk", "to": "Tk"}))
            continue
        ch = [p for p in b["pc"] if b["pc"][p] != a["pc"][p]]
        if ch:
            steps.append(dict(base, p=ch[0], **{"from": a["pc"][ch[0]], "to": b["pc"][ch[0]]}))
        elif a != b:
            steps.append(dict(base, p="loop", **{"from": a["pc"]["loop"], "to": a["pc"]["loop"]}))   # Tick->Tick drain, Pop->Pop skip
    return steps, states[-1]


HOLDS = ["q.loop_tick", "q.loop_pop", "q.quota", "q.after_slot_check", "q.before_remove", "q.before_signal.timeout"]


def script_from_steps(steps, prios, push_first=False, drops=False):
    """one gate-script step (or a few) per model step: which goroutine may pass which yield point next, and which
    point it must reach before the next model step is taken."""
    s = [{"op": "hold", "point": p, "id": ""} for p in HOLDS]
    cancelled = False
    for st in steps:
        p, fr, to = st["p"], st["from"], st["to"]
        if p == "clock":
            if to == "Tk":
                s.append({"op": "until", "ms": st["now"] * TICK_MS})
        elif p == "loop":
            if fr == "Tick":
                s.append({"op": "pass", "point": "q.loop_tick"})
                if cancelled:
                    s.append({"op": "await", "point": "q.stopall_done"})
                elif to == "Pop":
                    s.append({"op": "await", "point": "q.loop_pop"})
            elif fr == "Pop":
                if to == "Faulted":             # both quota lookups of this attempt fail
                    s.append({"op": "fault", "point": "q.fault.get_quota", "ms": 2})
                s.append({"op": "pass", "point": "q.loop_pop"})
                if to in ("Grant", "Requeue", "Faulted"):
                    s.append({"op": "await", "point": "q.quota", "id": st["cur"]})
                else:
                    s.append({"op": "await", "point": "q.loop_pop" if to == "Pop" else "q.loop_tick"})
            elif fr == "Grant":
                s.append({"op": "pass", "point": "q.quota", "id": st["cur"]})
                if not st["dead"]:
                    s.append({"op": "await", "point": "q.loop_pop" if to == "Pop" else "q.loop_tick"})
            elif fr in ("Requeue", "Faulted"):
                s.append({"op": "pass", "point": "q.quota", "id": st["cur"]})
                if not (fr == "Faulted" and drops):
                    s.append({"op": "await", "point": "q.requeued", "id": st["cur"]})
                s.append({"op": "await", "point": "q.loop_tick"})
        elif p == "watcher":
            # the real watcher works through the expired requests in an order of its own (map iteration): whichever
            # expired request it holds is let through (the model's choice among several expired ones is not forced)
            if fr == "Scan":
                s.append({"op": "await", "point": "q.before_signal.timeout", "id": ""})
            elif fr == "Signal":
                s.append({"op": "pass", "point": "q.before_signal.timeout", "id": ""})
        elif p == "shutdown":
            s.append({"op": "shutdown"})
            cancelled = True
        else:
            if fr == "Arrive":
                # the two steps of the enrolment are separated by the yield points inside the queue's Enqueue: before the
                # push (registered, not yet visible) or - for the reordered variant - after it (visible, not yet registered)
                s.append({"op": "hold", "point": "mq.enqueued" if push_first else "mq.enqueue", "id": p})
                s.append({"op": "arrive", "id": p, "prio": "p%d" % prios[p]})
                if to == "Enroll":
                    s.append({"op": "await", "point": "q.after_slot_check", "id": p})
                else:
                    s.append({"op": "await_verdict", "id": p})
            elif fr == "Enroll":
                s.append({"op": "pass", "point": "q.after_slot_check", "id": p})
                if to == "Refuse":
                    s.append({"op": "await_verdict", "id": p})
                else:
                    s.append({"op": "await", "point": "mq.enqueued" if push_first else "mq.enqueue", "id": p})
            elif fr == "Push":
                s.append({"op": "unhold", "point": "mq.enqueued" if push_first else "mq.enqueue", "id": p})
                s.append({"op": "await", "point": "q.enqueued", "id": p})
            elif fr == "Return":
                s.append({"op": "await_verdict", "id": p})
            elif fr == "Remove":
                s.append({"op": "pass", "point": "q.before_remove", "id": p})
                s.append({"op": "await", "point": "q.removed", "id": p})
        if st.get("dead"):
            break       # the model's process died here; the real one is observed by its exit status
    s.append({"op": "end"})
    return s


def predicted_events(steps):
    """observable events the model emits along a schedule (bookkeeping for the forced/diverged statistics)."""
    ev = []
    for st in steps:
        p, fr, to = st["p"], st["from"], st["to"]
        if st.get("dead"):
            ev.append(("crash",))
            break
        if p == "loop" and fr == "Pop":
            ev.append(("pick",))
            if to in ("Grant", "Requeue", "Faulted"):
                ev.append(("quota", st["cur"], to == "Grant"))
        elif p == "loop" and fr == "Grant":
            ev.append(("grant", st["cur"]))
        elif p == "watcher" and fr == "Signal":
            ev.append(("expire", st["w"]))
        elif p == "shutdown":
            ev.append(("shutdown",))
        elif p == "loop" and fr == "Tick" and to != "Pop":
            ev.append(("drain",))
        elif fr == "Arrive" and p.startswith("r"):
            ev.append(("arrive", p))
        elif fr == "Push":
            ev.append(("enq", p))
        elif fr == "Return":
            ev.append(("verdict", p, "allowed" if st["result"][p] == "success" else "blocked"))
        elif fr == "Refuse":
            ev.append(("verdict", p, "blocked"))
    return ev


def observed_events(hist):
    ev = []
    for e in hist:
        n = e["ev"]
        if n == "free":
            break           # from here on nothing is steered any more
        if n in ("pick", "shutdown", "crash", "drain"):
            ev.append((n,))
        elif n == "quota":
            ev.append((n, e["id"], e["ok"]))
        elif n in ("grant", "expire", "arrive", "enq"):
            ev.append((n, e["id"]))
        elif n == "verdict":
            ev.append((n, e["id"], e["out"]))
    return ev


def same_modulo_verdict_position(a, b):
    """the return of a call is not gated: compare the sequences without verdicts, and the verdicts as sets.  `pick` is
    stamped when the loop reaches its yield point, the model emits it when the pop is taken: its position is not compared."""
    free = ("verdict", "pick", "expire")        # ... and the order in which several expired requests are signalled
    fa, fb = [x for x in a if x[0] not in free], [x for x in b if x[0] not in free]
    va, vb = {x for x in a if x[0] in ("verdict", "expire")}, {x for x in b if x[0] in ("verdict", "expire")}
    return fa == fb and va <= vb


def directed_scenario(name, inst, steps, flags=None):
    return {"name": name, "config": {"align": True, "ttl_s": inst["TTL"] * TICK_MS // 1000, "queue_size": inst["QueueSize"],
                                      "qmax": inst["QMax"], "qwin_s": inst["QW"] * TICK_MS // 1000, "slack_ms": SLACK_MS},
            "steps": script_from_steps(steps, PRIOS[inst["Prio"]], push_first=bool((flags or {}).get("PushBeforeRegister")),
                                       drops=bool((flags or {}).get("FaultDropsHead")))}


# ---------------------------------------------------------------------------------------------- execution and judgement

def execute(ctx, binary, scenarios, tag, par=16):
    d = ctx.sub("run-" + tag)
    sp = os.path.join(d, "scenarios.json")
    json.dump(scenarios, open(sp, "w"))
    ctx.run_harness(binary, ["run", sp, d, str(par)], timeout=900)
    out = []
    for i in range(len(scenarios)):
        p = os.path.join(d, "trace-%04d.ndjson" % i)
        out.append(read_ndjson(p) if os.path.exists(p) else [])
    return out


def project_processors(trace):
    """a recording of an engine with two Queue processors -> one history per processor (bookkeeping, the judgement stays
    with FlowQueueP, applied to each processor's own waiters): a request belongs to the flow it was sent to; a `pick`
    (the yield points of the loops carry no processor name) belongs to the processor(s) whose requests that loop
    goroutine ever consulted the quota for / admitted / pushed back; events without a request are common."""
    flowof = {e["id"]: e["flow"] for e in trace if e["ev"] == "arrive" and "flow" in e}
    gflows = {}
    for e in trace:
        if e["ev"] in ("quota", "grant", "requeue") and "g" in e and e.get("id") in flowof:
            gflows.setdefault(e["g"], set()).add(flowof[e["id"]])
    out = []
    for f in sorted(set(flowof.values())):
        for e in trace:
            if e["ev"] == "reset":
                out.append(dict(e, name="%s/%s" % (e.get("name", ""), f)))
            elif "id" in e and e["id"] in flowof:
                if flowof[e["id"]] == f:
                    out.append(e)
            elif e["ev"] in ("pick", "drain", "tick", "stopall_done"):
                if f in gflows.get(e.get("g"), ()):
                    out.append(e)
            else:
                out.append(dict(e))
    return out


def postprocess(sc, trace):
    if sc["steps"] and sc["steps"][0]["op"] == "arbiter":
        return reduce_rounds(trace)[0]
    if sc["config"].get("flows") == 2:
        return project_processors(trace)
    return trace


def execute_reduced(ctx, binary, scenarios, tag, par=16):
    traces = execute(ctx, binary, scenarios, tag, par)
    return [postprocess(sc, t) for sc, t in zip(scenarios, traces)]


def witness_of(hist, at, invariant):
    e = hist[at]
    before = hist[:at]
    w = {"class": CLASS.get(invariant, invariant or "rejected"), "event": {k: v for k, v in e.items()}, "invariant": invariant}
    decided = {x.get("id") for x in before if x["ev"] in ("grant", "expire", "verdict")}
    w["after_shutdown"] = any(x["ev"] == "shutdown" for x in before)
    if w["class"] == "order-inversion":
        # which waiting requests were overtaken (same rule as FlowQueueP.Viol, only to describe the witness): were they
        # all of the admitted request's own priority, and had each been pushed back after a blocked attempt
        # (re-enqueued with a new timestamp) - the one way the open finding C06-O12 can show
        i, ttl = e.get("id"), hist[0]["ttl"]
        prio, at, enq_at, arr_at, req_at, gone = {}, {}, {}, {}, {}, set()
        last_pick = -1
        for k, x in enumerate(before):
            n, j = x["ev"], x.get("id")
            if n == "arrive":
                prio[j], at[j], arr_at[j] = x["prio"], x["t"], k
            elif n == "enq":
                enq_at[j] = k
            elif n == "pick":
                last_pick = k
            elif n == "requeue":
                req_at[j] = k
            elif n in ("grant", "expire", "verdict"):
                gone.add(j)
        over = [j for j in enq_at if j != i and j not in gone and enq_at[j] < last_pick and e["t"] < at[j] + ttl
                and (prio[j] < prio[i] or (prio[j] == prio[i] and enq_at[j] < arr_at[i]))]
        w["overtaken"] = sorted(over)
        w["same_priority"] = bool(over) and all(prio[j] == prio[i] for j in over)
        w["after_requeue"] = bool(over) and all(j in req_at for j in over)
    if w["class"] == "size-bound":
        # two requests were between the slot test and their registration at the same time
        open_slots, conc = set(), False
        for x in before + [e]:
            if x["ev"] == "slot":
                open_slots.add(x["id"])
                conc = conc or len(open_slots) > 1
            elif x["ev"] == "enq":
                open_slots.discard(x["id"])
        w["concurrent_slot_check"] = conc
    if w["class"] == "crash":
        w["msg"] = e.get("msg", "")
    if w["class"] == "no-verdict-in-ttl":
        ans = {x["id"] for x in hist if x["ev"] == "verdict"}
        w["unanswered"] = sorted({x["id"] for x in hist if x["ev"] == "arrive"} - ans)
    return w


def judge(ctx, traces, tag):
    """TLC validation of recordings against FlowQueueP.  Returns per trace: None (accepted) or (at, invariant).
    Recordings are grouped by (ttl, slack, qsize): these are constants of the property."""
    groups = {}
    for i, h in enumerate(traces):
        if not h or h[0].get("ev") != "reset":
            raise Broken("recording %s/%d is empty" % (tag, i))
        if any(e["ev"] == "abort" for e in h):
            raise Broken("harness failure in %s/%d: %s" % (tag, i, [e for e in h if e["ev"] == "abort"][0]))
        r = h[0]
        groups.setdefault((r["ttl"], r["slack"], r["qsize"]), []).append(i)
    res = [None] * len(traces)

    def one(item):
        (ttl, slack, qsize), idx = item
        remaining = list(idx)
        out = {}
        rounds = 0
        while remaining:
            rounds += 1
            ev = [{"ev": "config", "ids": IDS, "ttl": ttl, "slack": slack, "qsize": qsize}]
            for i in remaining:
                ev += traces[i]
            acc, rej, _ = validate_history_trace(ctx, SPEC, "FlowQueueTrace", ev, tag="%s-%d-%d-%d-%d" % (tag, ttl, slack, qsize, rounds),
                                                 max_rounds=1, timeout=900)
            if not rej:
                break
            r = rej[0]
            # locate the rejected history among the remaining ones
            k, off = next((i, j) for i in remaining for j, e in enumerate(traces[i]) if e is r["hist"][0])   # a recording may hold
            out[k] = (off + r["at"], r["invariant"])                                                       # several histories
            remaining.remove(k)
            if rounds > 40:
                raise Broken("more than 40 rejected recordings in %s" % tag)
        return out

    for out in parallel(one, list(groups.items()), n=4):
        for k, v in out.items():
            res[k] = v
    return res


def nontrivial(hist):
    """a recording exercises the property when at least two requests waited at the same time."""
    waiting, best = set(), 0
    for e in hist:
        if e["ev"] == "enq":
            waiting.add(e["id"])
            best = max(best, len(waiting))
        elif e["ev"] in ("grant", "expire", "verdict"):
            waiting.discard(e.get("id"))
    return best >= 2


def account(ctx, traces, verdicts, seen):
    for h, v in zip(traces, verdicts):
        ctx.cov["evaluations"] += sum(1 for e in h if e["ev"] == "arrive")
        if v is None:
            ctx.cov["traces_validated_against_impl"] += 1
        key = json.dumps([[e["ev"], e.get("id"), e.get("out"), e.get("ok")] for e in h if e["ev"] not in ("tick",)])
        if key not in seen:
            seen.add(key)
            if nontrivial(h):
                ctx.cov["distinct_nontrivial"] += 1


def report(ctx, binary, rejected):
    """recordings rejected by the specification: [(name, scenario, hist, (at, invariant))].  A rejection that matches an
    open finding is recorded as such; any other is reproduced first (same script again: forced schedules are
    deterministic, free-running ones get up to 20 attempts), then reported; unreproduced => Broken."""
    todo = []
    for name, sc, hist, (at, inv) in rejected:
        w = witness_of(hist, at, inv)
        ctx.log("rejected by FlowQueueP: %s at event %d (%s) %s" % (name, at, inv, json.dumps({k: v for k, v in w.items() if k != "event"})))
        if ctx.match_known(w) is not None:
            ctx.violation(w, {"scenario": sc, "trace": hist, "rejected_at": at, "invariant": inv})
        else:
            todo.append((name, sc, hist, at, inv, w))
    for rnd in range(4):
        if not todo:
            return
        reps = 1 if rnd == 0 else (5 if rnd < 3 else 9)          # 1 + 5 + 5 + 9 = 20 attempts
        batch = [x[1] for x in todo for _ in range(reps)]
        traces = execute_reduced(ctx, binary, batch, "repro%d" % rnd, par=32)
        verdicts = judge(ctx, traces, "repro%d" % rnd)
        left = []
        for i, x in enumerate(todo):
            name, sc, hist, at, inv, w = x
            hit = None
            for t2, v2 in zip(traces[i * reps:(i + 1) * reps], verdicts[i * reps:(i + 1) * reps]):
                if v2 is not None and CLASS.get(v2[1], v2[1]) == w["class"]:
                    hit = (t2, v2)
                    break
            if hit:
                ctx.violation(w, {"scenario": sc, "trace": hist, "rejected_at": at, "invariant": inv,
                                  "reproduced_trace": hit[0], "reproduced_at": hit[1][0]})
            else:
                left.append(x)
        todo = left
    if todo:
        msg = "rejection not reproduced in 20 attempts: %s" % json.dumps([(x[0], x[5]) for x in todo])[:1500]
        if not ctx.violations:
            raise Broken(msg)                      # one flaky alarm would discredit every real one
        ctx.notes.append(msg + " (other rejections of this run were reproduced and are reported)")


# ---------------------------------------------------------------------------------------------- TLC parts

def tlc_variant(ctx, sd, name, inst, flags, expect, workers=None):
    """a model variant must be refuted; returns the counterexample as schedule steps."""
    live = expect == "LIVENESS"
    prop = expect[5:] if expect.startswith("PROP:") else None
    cfg = "v_%s.cfg" % name
    open(os.path.join(sd, cfg), "w").write(
        cfg_text(inst, flags, invariants=[] if (live or prop) else [expect], spec="FairSpec" if live else "Spec",
                 props=["Answered"] if live else ([prop] if prop else [])))
    dump = os.path.join(sd, "v_%s.json" % name)
    r = ctx.tlc(sd, "MC_C06", cfg, timeout=900, workers=workers, extra=["-noGenerateSpecTE", "-dumpTrace", "json", dump],
                label="variant %s must be refuted (%s)" % (name, expect))
    if r.violated is None and re.search(r"Temporal propert(y|ies) .*violated", r.out):
        r.violated = "TEMPORAL"
    if r.violated is None or not os.path.exists(dump):
        raise Broken("model variant %s is not refuted by TLC (vacuous I => P): %r\n%s" % (name, r, r.out[-1500:]))
    steps, last = steps_from_dump(dump)
    return steps, last


def exhaustive(ctx, sd, cfg, label, timeout, workers):
    r = ctx.tlc(sd, "MC_C06", cfg, timeout=timeout, workers=workers, extra=["-noGenerateSpecTE"], label=label)
    if not r.ok:
        raise Broken("TLC MC_C06/%s (%s): %r\n%s" % (cfg, label, r, r.out[-3000:]))
    if r.distinct <= 1:
        raise Broken("TLC MC_C06/%s explored a trivial state space" % cfg)
    ctx.cov["states"] += r.distinct
    ctx.cov["transitions"] += r.generated
    ctx.log("TLC MC_C06 %s: %d generated / %d distinct, depth %d, %.1fs" % (cfg, r.generated, r.distinct, r.depth, r.wall))
    return r


def random_scenario(rng, k, thorough):
    """free-running recording: concurrent arrivals with random priorities and pauses, sometimes a shutdown."""
    cfgc = {"ttl_s": rng.choice([1, 1, 2]), "queue_size": rng.choice([1, 2, 3, 4]), "qmax": rng.choice([1, 1, 2, 3]),
            "qwin_s": rng.choice([1, 1, 2]), "slack_ms": SLACK_MS}
    if thorough:
        cfgc["gomaxprocs"] = rng.choice([0, 1, 2, 16])
    n = rng.randint(3, 6)
    steps = []
    shut = rng.randint(1, n) if rng.random() < 0.3 else -1
    for i in range(n):
        if i == shut:
            steps.append({"op": "shutdown"})
        steps.append({"op": "arrive", "id": IDS[i], "prio": rng.choice(["p0", "p0", "p1", "p2"])})
        d = rng.choice([0, 0, 0, 3, 20, 110, 250, 600] + ([1100] if thorough else []))
        if d:
            steps.append({"op": "sleep", "ms": d})
    if shut == n:
        steps.append({"op": "sleep", "ms": rng.choice([50, 300])})
        steps.append({"op": "shutdown"})
    steps.append({"op": "end"})
    return {"name": "random-%d" % k, "config": cfgc, "steps": steps}


def burst_scenario(rng, k):
    """several requests of one priority queued while the loop is held, then released: admission order = arrival order
    over several pops of the real heap (gated recording)."""
    n = rng.choice([3, 4, 5])
    prio = rng.choice(["p0", "p1"])
    steps = [{"op": "hold", "point": "q.loop_tick", "id": ""}]
    for i in range(n):
        pr = prio if rng.random() < 0.8 else rng.choice(["p0", "p1", "p2"])
        steps += [{"op": "arrive", "id": IDS[i], "prio": pr}, {"op": "await", "point": "q.enqueued", "id": IDS[i]}]
    steps += [{"op": "unhold", "point": "q.loop_tick", "id": ""}, {"op": "end"}]
    return {"name": "burst-%d" % k, "config": {"ttl_s": 2, "queue_size": n, "qmax": rng.choice([2, 3, n]), "qwin_s": 1, "slack_ms": SLACK_MS},
            "steps": steps}


def expiry_burst_scenario(rng, k):
    """6-8 waiters of 3+ priority levels behind a held loop; one or two of them (queued a second earlier: at the root or
    in the middle of the heap) reach their TTL and are removed from the queue while the others wait; then the loop is
    released and admits the rest one pop at a time.  The order clause is judged on the recording: removing a waiter
    from inside the queue must not disturb the order of the others (gated recording)."""
    shape = ["root", "root2", "mid", "root", "root2", "any"][k % 6]
    n = rng.choice([6, 7])
    if shape == "root":
        victims, others = [0], [rng.randint(1, 5) for _ in range(n)]
    elif shape == "root2":
        victims, others = [0, 0], [rng.randint(1, 5) for _ in range(n - 1)]
    elif shape == "mid":
        victims, others = [rng.randint(1, 3)], [rng.randint(0, 5) for _ in range(n)]
    else:
        victims, others = [rng.randint(0, 5) for _ in range(rng.choice([1, 2]))], [rng.randint(0, 5) for _ in range(n)]
    steps = [{"op": "hold", "point": "q.loop_tick", "id": ""}]
    ids = list(IDS)
    vids = []
    for pr in victims:
        i = ids.pop(0)
        vids.append(i)
        steps += [{"op": "arrive", "id": i, "prio": "p%d" % pr}, {"op": "await", "point": "q.enqueued", "id": i}]
    steps.append({"op": "until", "ms": 1000})
    for pr in others:
        i = ids.pop(0)
        steps += [{"op": "arrive", "id": i, "prio": "p%d" % pr}, {"op": "await", "point": "q.enqueued", "id": i}]
    for i in vids:          # TTL of the early ones (2 s) falls due at ~2000 ms: answered, then taken out of the queue
        steps += [{"op": "await_verdict", "id": i}, {"op": "await", "point": "q.removed", "id": i}]
    steps += [{"op": "unhold", "point": "q.loop_tick", "id": ""}, {"op": "end"}]
    return {"name": "expiry-burst-%d" % k, "config": {"ttl_s": 2, "queue_size": 9, "qmax": rng.choice([9, 9, 3]), "qwin_s": 1, "slack_ms": SLACK_MS},
            "steps": steps}


def overlap_scenario(rng, k):
    """the TTL of a waiting request falls due exactly while the loop holds that request in `processing` and the quota
    answers 'blocked' (loop held at the q.quota yield point): the watcher's StartProcessing fails at that moment.  After
    the loop lets go, the request must still get its timeout verdict (quota window far longer than the observation, so
    no admission can rescue it)."""
    ttl = [1, 2, 1][k % 3]
    hold_ms = [350, 500, 900][k % 3]
    pr = rng.choice(["p0", "p1"])
    steps = [{"op": "hold", "point": p, "id": ""} for p in ("q.loop_tick", "q.loop_pop", "q.quota")]
    steps += [{"op": "arrive", "id": "r1", "prio": "p0"}, {"op": "await", "point": "q.enqueued", "id": "r1"},
              {"op": "pass", "point": "q.loop_tick"}, {"op": "await", "point": "q.loop_pop"},
              {"op": "pass", "point": "q.loop_pop"}, {"op": "await", "point": "q.quota", "id": "r1"},
              {"op": "arrive", "id": "r2", "prio": pr}, {"op": "await", "point": "q.enqueued", "id": "r2"},
              {"op": "pass", "point": "q.quota", "id": "r1"}, {"op": "await", "point": "q.loop_pop"},     # r1 admitted: quota used up
              {"op": "until", "ms": ttl * 1000 - 150},
              {"op": "pass", "point": "q.loop_pop"}, {"op": "await", "point": "q.quota", "id": "r2"},    # r2 in `processing`, answer: blocked
              {"op": "until", "ms": ttl * 1000 + hold_ms},                                               # its TTL falls due meanwhile
              {"op": "pass", "point": "q.quota", "id": "r2"}, {"op": "await", "point": "q.requeued", "id": "r2"},
              {"op": "end"}]
    return {"name": "overlap-%d" % k, "config": {"ttl_s": ttl, "queue_size": 2, "qmax": 1, "qwin_s": 60, "slack_ms": SLACK_MS},
            "steps": steps}


def arbiter_scenario(k, pairing, rounds, procs=0):
    """the arbitration primitive of the real Request object (StartProcessing / SetProcessed* / Wait) hit by two parties
    at the same instant, `rounds` times: the loop's admission vs the watcher's expiry, the drain vs the watcher's expiry."""
    c = {"ttl_s": 1, "queue_size": 1, "qmax": 1, "qwin_s": 1, "slack_ms": SLACK_MS}
    if procs:
        c["gomaxprocs"] = procs
    return {"name": "arbiter-%s-%d" % (pairing, k), "config": c, "steps": [{"op": "arbiter", "ms": rounds, "point": pairing}]}


def reduce_rounds(trace):
    """an arbiter recording holds thousands of one-request histories; identical histories (same events, same stamps) get
    the same judgement, so each distinct one is handed to TLC once (bookkeeping: multiplicities are counted)."""
    rounds, cur = [], None
    for e in trace:
        if e["ev"] == "reset":
            cur = [e]
            rounds.append(cur)
        elif cur is not None:
            cur.append(e)
    seen, out = {}, []
    for r in rounds:
        key = json.dumps(r, sort_keys=True)
        if key not in seen:
            seen[key] = 0
            out += r
        seen[key] += 1
    return out, len(rounds), len(seen)


def gap_scenario(k):
    """the arrival path as separate steps: an urgent request is held in one of the gaps of its enrolment (after the slot
    test / registered but not yet pushed / pushed - visible to the loop - but its Enqueue call not yet returned) while
    the loop runs whole ticks; then it goes on and a less urgent request arrives.  The quota has room: the order clause
    and the time clause judge whether the urgent one was lost (gated recording)."""
    g = ["mq.enqueued", "mq.enqueue", "q.after_slot_check"][k % 3]
    steps = [{"op": "hold", "point": g, "id": "r1"},
             {"op": "arrive", "id": "r1", "prio": "p0"}, {"op": "await", "point": g, "id": "r1"},
             {"op": "sleep", "ms": [250, 350][k % 2]},
             {"op": "unhold", "point": g, "id": "r1"}, {"op": "await", "point": "q.enqueued", "id": "r1"},
             {"op": "arrive", "id": "r2", "prio": "p1"}, {"op": "await", "point": "q.enqueued", "id": "r2"},
             {"op": "arrive", "id": "r3", "prio": "p0"},
             {"op": "end"}]
    return {"name": "gap-%d" % k, "config": {"ttl_s": 2, "queue_size": 4, "qmax": 5, "qwin_s": 1, "slack_ms": SLACK_MS}, "steps": steps}


def fault_scenario(k):
    """faults at the loop's quota consultation (both lookups of 1..3 consecutive attempts fail) at different positions of a
    history: before the first admission, on the blocked head while a less urgent request waits behind it, after the head
    was admitted.  After the fault clears the order must be the same and nobody may be lost."""
    pos, m = [("head", 1), ("first", 1), ("head", 3), ("second", 2)][k % 4]
    steps = [{"op": "hold", "point": "q.loop_tick", "id": ""}]
    if pos == "first":
        steps.append({"op": "fault", "point": "q.fault.get_quota", "ms": 2 * m})
    steps += [{"op": "arrive", "id": "r1", "prio": "p0"}, {"op": "await", "point": "q.enqueued", "id": "r1"}]
    if pos != "first":
        steps += [{"op": "pass", "point": "q.loop_tick"}, {"op": "await_verdict", "id": "r1"}]          # r1 uses up the window
    steps += [{"op": "arrive", "id": "r2", "prio": "p1"}, {"op": "await", "point": "q.enqueued", "id": "r2"},
              {"op": "arrive", "id": "r3", "prio": "p2"}, {"op": "await", "point": "q.enqueued", "id": "r3"}]
    if pos == "head":
        steps.append({"op": "fault", "point": "q.fault.get_quota", "ms": 2 * m})
    steps.append({"op": "unhold", "point": "q.loop_tick", "id": ""})
    if pos == "second":
        steps += [{"op": "await_verdict", "id": "r2"}, {"op": "fault", "point": "q.fault.get_quota", "ms": 2 * m}]
    steps.append({"op": "end"})
    return {"name": "fault-%d" % k, "config": {"ttl_s": 3, "queue_size": 4, "qmax": 1, "qwin_s": 1, "slack_ms": SLACK_MS}, "steps": steps}


def twoflow_scenario(rng, k):
    """two flows, each with its own Queue processor, on one quota id (even k) or on two (odd k); requests of distinct
    priorities to both, interleaved, waiting on a small quota while both loops tick.  Each processor's own waiters are
    judged on their own (priority / arrival order, its own queue_size); the quota's admissions are shared between them.
    No request may be lost because the other processor's loop got hold of it (free-running)."""
    ids = list(IDS)
    n = rng.choice([5, 6])
    # priorities interleaved between the two processors (a: 0 2 4 .., b: 1 3 5 .., or the other way round), arrivals shuffled.
    # One admission per quota window; the burst arrives ~300 ms before a wall-clock second (= quota window) boundary, so the
    # question "who is admitted next" is decided twice within a few loop ticks while most requests still wait.
    steps = [{"op": "until", "ms": 550}]
    first = rng.choice(["a", "b"])
    reqs = [(first if i % 2 == 0 else ("b" if first == "a" else "a"), i) for i in range(2 * n)]
    rng.shuffle(reqs)
    for f, pr in reqs:
        steps.append({"op": "arrive", "id": ids.pop(0), "prio": "p%d" % pr, "flow": f})
        steps.append({"op": "sleep", "ms": rng.choice([2, 4])})        # arrivals in a definite order
    steps.append({"op": "end"})
    return {"name": "twoflow-%d" % k, "config": {"align": True, "ttl_s": 3, "queue_size": 6, "qmax": 1, "qwin_s": 1, "slack_ms": SLACK_MS,
                                                 "flows": 2, "same_quota": k % 2 == 0}, "steps": steps}


def refill_scenario(rng, k):
    """a history, not a single burst: some requests end by TTL expiry while the quota is exhausted, then more requests
    than the queue holds arrive at once - the size clause is judged after the slots were given back (free-running)."""
    size = [2, 1, 3][k % 3]
    nto = [2, 1, 3][k % 3]                     # requests that time out first (they fill the queue)
    ids = list(IDS)
    steps = [{"op": "arrive", "id": ids[0], "prio": "p0"}, {"op": "await_verdict", "id": ids[0]}]      # uses up the quota
    first = ids[1:1 + nto]
    for i in first:
        steps.append({"op": "arrive", "id": i, "prio": rng.choice(["p0", "p1"])})
    for i in first:
        steps.append({"op": "await_verdict", "id": i})
    steps.append({"op": "sleep", "ms": rng.choice([30, 120])})          # the asynchronous clean-up runs
    for i in ids[1 + nto:1 + nto + size + 3]:
        steps.append({"op": "arrive", "id": i, "prio": rng.choice(["p0", "p1", "p2"])})
    steps.append({"op": "end"})
    return {"name": "refill-%d" % k, "config": {"ttl_s": 1, "queue_size": size, "qmax": 1, "qwin_s": 60, "slack_ms": SLACK_MS},
            "steps": steps}


def run(ctx):
    T = ctx.thorough
    binary = ctx.build_harness("c06")
    sd = ctx.spec_dir(SPEC)
    seen = set()
    ctx.cov["rule"] = ("recordings of the real Queue processor in a real engine: (a) schedules of the TLA+ model FlowQueueI "
                       "(TLC counterexamples of every model variant + TLC -simulate walks) forced through the yield points, "
                       "(b) bursts queued behind a held loop, bursts of 6-8 waiters of 3+ priorities with TTL expiries inside the queue, "
                       "watcher/loop overlap on one request with a blocked quota answer, timeouts followed by an over-size burst, (c) seeded free-running concurrent arrivals with random priorities / "
                       "queue sizes / quotas / shutdown; a recording is non-trivial when at least two requests waited in the "
                       "queue at the same time; distinct by the sequence of (event, request, outcome)")
    ctx.cov["checker_cmd"] = ("tlc -config MC_fixed2.cfg MC_C06.tla ; (thorough) tlc -config MC_asis3.cfg MC_C06.tla ; tlc -config MC_fixed3.cfg "
                              "MC_C06.tla ; tlc -config FlowQueueTrace.cfg FlowQueueTrace.tla")
    ctx.cov["trusted_base"] = ["TLC 1.8", "CommunityModules Json", "pcal translation (committed)", "Go toolchain",
                               "harness/cmd/c06 (gates on verifhook points, projection: early-response action = blocked)",
                               "child exit status = crash"]
    ctx.assumptions += ["single gateway (in-memory queue, redis_queue_size = -1)", "fixed-window quota attached to the queue only",
                        "TTL and quota window are whole seconds; 1 model tick = 1 s in forced schedules",
                        "time predicate InTTL with %d ms scheduling slack, not judged while a script holds gates; ordering "
                        "predicates without slack" % SLACK_MS,
                        "registration (AddRequest) and heap push are two model steps; pop, StartProcessing and the quota call are one model step; a failed quota lookup is injected at both GetQuota calls of an attempt"]

    # ---- (1) TLC: exhaustive I => P, the code as it is with its open finding, and every model variant (all in parallel)
    q2 = "MC_fixed2.cfg"
    if not T:
        q2 = "MC_fixed2q.cfg"
        open(os.path.join(sd, q2), "w").write(cfg_text(dict(SMALL2, MaxNow=4), {}, invariants=SAFETY + ["NotStranded"], spec="FairSpec",
                                                       props=["Answered", "DrainReleases"]))
    jobs = [("x", q2, "I => P, repaired design, 2 requests + shutdown: safety and liveness", 4)]
    if T:
        jobs.append(("x", "MC_asis3.cfg", "I => P, code as it is (open finding O12): all clauses but Order, Order only after a requeue", 6))
        jobs.append(("x", "MC_fixed3.cfg", "I => P, repaired design, 3 requests, 2 priorities: safety", 6))
        jobs.append(("x", "MC_fixed2m.cfg", "I => P, repaired design, 2 requests of different priority, queue of 2 + shutdown: safety", 4))
        if os.environ.get("VERIF_C06_BIG"):
            jobs.append(("x", "MC_fixed3_big.cfg", "I => P, repaired design, 3 requests, 2-tick quota window, 4 ticks: safety", 8))
    for name in VARIANTS:
        jobs.append(("v", name, None, 1))
    variants = {}

    def tlcjob(j):
        kind, what, label, w = j
        if kind == "x":
            exhaustive(ctx, sd, what, label, 2400, w)
        else:
            inst, flags, expect = VARIANTS[what]
            variants[what] = tlc_variant(ctx, sd, what, inst, flags, expect, workers=w)
    parallel(tlcjob, jobs, n=len(jobs))
    ctx.log("TLC refuted all %d model variants" % len(variants))
    # the open finding's counterexample must be the named deviation: the overtaken request was pushed back
    for kf, (flag, val) in KF_FLAGS.items():
        vn = next(n for n, (_, fl, _) in VARIANTS.items() if fl == {flag: val})
        last = variants[vn][1]
        if not last["requeued"]:
            raise Broken("counterexample of %s does not involve a requeue" % vn)

    # ---- (2) spec -> code: the counterexample of each variant forced on the real code, judged by P
    names = list(VARIANTS)
    scs = [directed_scenario(n, VARIANTS[n][0], variants[n][0], VARIANTS[n][1]) for n in names]
    # ---- (3) spec -> code: walks of the model of the code as it is, forced
    nw = 24 if not T else 300
    walks = []
    walkinst = []
    # normal operation with a 2-tick quota window (blocked attempts, requeues, expiry) / shutdown at any point (constants as in the cfgs)
    for gi, (gcfg, ginst) in enumerate([("GenC06_run.cfg", dict(SMALL3, QueueSize=2, QMax=1, QW=2, TTL=2, Prio="cPrio3")),
                                        ("GenC06.cfg", dict(SMALL3, QueueSize=2, QMax=1, QW=1, TTL=2, Prio="cPrio3"))]):
        n = nw * 2 // 3 if gi == 0 else nw - nw * 2 // 3
        g = ctx.tlc(sd, "GenC06", gcfg, workers=1, simulate="num=%d" % n, depth=150, extra=["-seed", str(ctx.seed + gi)],
                    timeout=900, label="schedule generation (walks of FlowQueueI, %s)" % gcfg)
        ws = tlc_vh_lines(g.out)
        ws.sort(key=len, reverse=True)
        keep = []
        for wk in ws:                               # a walk printed at quiescence and again later: keep the longest
            if not any(k[:len(wk)] == wk for k in keep):
                keep.append(wk)
        if len(keep) < n // 3:
            raise Broken("schedule generation %s produced %d walks: %s" % (gcfg, len(keep), g.out[-1500:]))
        walks += keep[:n]
        walkinst += [ginst] * len(keep[:n])
    for i, wk in enumerate(walks):
        scs.append(directed_scenario("walk-%d" % i, walkinst[i], wk))
        names.append("walk-%d" % i)
    nb = 6 if not T else 40
    for k in range(nb):
        scs.append(burst_scenario(ctx.rng, k))
        names.append("burst-%d" % k)
    for k in range(10 if not T else 40):
        scs.append(expiry_burst_scenario(ctx.rng, k))
        names.append("expiry-burst-%d" % k)
    for k in range(3 if not T else 9):
        scs.append(overlap_scenario(ctx.rng, k))
        names.append("overlap-%d" % k)
    for k in range(6 if not T else 12):
        scs.append(gap_scenario(k))
        names.append("gap-%d" % k)
    for k in range(4 if not T else 12):
        scs.append(fault_scenario(k))
        names.append("fault-%d" % k)
    for k in range(8 if not T else 24):
        scs.append(twoflow_scenario(ctx.rng, k))
        names.append("twoflow-%d" % k)
    for k in range(3 if not T else 9):
        scs.append(refill_scenario(ctx.rng, k))
        names.append("refill-%d" % k)
    arb_rounds = 20000 if not T else 100000
    for k, (pairing, procs) in enumerate([("loop-watcher", 0), ("drain-watcher", 0), ("loop-watcher", 4), ("drain-watcher", 2)]):
        scs.append(arbiter_scenario(k, pairing, arb_rounds, procs))
        names.append(scs[-1]["name"])
    # ---- (4) code -> spec: free-running recordings
    nr = 30 if not T else 400
    for k in range(nr):
        scs.append(random_scenario(ctx.rng, k, T))
        names.append("random-%d" % k)
    traces = execute(ctx, binary, scs, "all", par=32)
    narb = 0
    for i, n in enumerate(names):
        if n.startswith("arbiter"):
            traces[i], total, distinct = reduce_rounds(traces[i])
            narb += total
            ctx.cov["evaluations"] += total
        elif n.startswith("twoflow"):
            traces[i] = project_processors(traces[i])
    ctx.notes.append("arbiter rounds on the real Request object (two parties released at the same instant): %d" % narb)
    verdicts = judge(ctx, traces, "all")
    account(ctx, traces, verdicts, seen)

    forced = diverged = 0
    edges = set()
    steps_of = {n: variants[n][0] for n in VARIANTS}
    for i, wk in enumerate(walks):
        steps_of["walk-%d" % i] = wk
    for n, t in zip(names, traces):
        if n in steps_of:
            if any(e["ev"] == "diverged" for e in t):
                diverged += 1
            elif same_modulo_verdict_position(predicted_events(steps_of[n]), observed_events(t)):
                forced += 1
                for st in steps_of[n]:
                    kind = "R" if st["p"] in IDS else st["p"]
                    edges.add((kind, st["from"], st["to"]))
    ctx.log("forced schedules: %d as predicted by the model, %d could not be followed (of %d)" % (forced, diverged, len(steps_of)))
    missing = sorted(EDGES - edges)
    ctx.notes.append("transitions of FlowQueueI exercised on the real code by schedules forced exactly as predicted: %d of %d%s"
                     % (len(EDGES & edges), len(EDGES), (" (not exercised: %s)" % ", ".join("%s:%s->%s" % e for e in missing)) if missing else ""))
    ctx.notes.append("schedules of FlowQueueI forced on the real code: %d reproduced the model's observable events exactly, "
                     "%d diverged (real code left the schedule; recording still judged by P), of %d" % (forced, diverged, len(steps_of)))
    # the open finding must still be reproducible from the model's counterexample (else: close it)
    for kf, (flag, val) in KF_FLAGS.items():
        vn = next(n for n, (_, fl, _) in VARIANTS.items() if fl == {flag: val})
        v = verdicts[names.index(vn)]
        if v is None:
            ctx.notes.append("open finding %s: the model's counterexample no longer shows on the real code" % kf)

    for n, t in zip(names, traces):          # the scripted families must have been followed (else they show nothing)
        if n.startswith(("expiry-burst", "overlap", "burst", "gap", "fault")) and any(e["ev"] == "diverged" for e in t):
            ctx.notes.append("scripted scenario %s could not be followed: %s" % (n, [e for e in t if e["ev"] == "diverged"][0].get("why")))
    report(ctx, binary, [(n, sc, t, v) for n, sc, t, v in zip(names, scs, traces, verdicts) if v is not None])
    if not ctx.violations and forced < max(3, len(walks) // 4):
        raise Broken("only %d of %d model schedules could be forced on the real code (binding lost)" % (forced, len(steps_of)))
    ctx.sample({"kind": "forced-schedule", "name": names[0], "events": [e for e in traces[0] if e["ev"] != "tick"][:16]})
    ctx.sample({"kind": "free-running", "name": names[-1], "events": [e for e in traces[-1] if e["ev"] != "tick"][:16]})

    if T:
        # ---- (5) non-vacuity witnesses: each must be VIOLATED (the antecedents of the clauses are reachable)
        for wname in ["W_Requeued", "W_TwoWaiting", "W_Granted", "W_Expired", "W_Drained"]:
            cfg = "w_%s.cfg" % wname
            open(os.path.join(sd, cfg), "w").write(cfg_text(dict(SMALL2, QueueSize=2), {}, invariants=[wname]))
            r = ctx.tlc(sd, "MC_C06", cfg, timeout=600, workers=4, extra=["-noGenerateSpecTE"], label="witness %s must be reachable" % wname)
            if r.violated is None:
                raise Broken("witness %s is unreachable: the exhaustive run is vacuous for it\n%s" % (wname, r.out[-800:]))
        # ---- (6) binding self-test: corrupted recordings must be rejected
        base = next((t for n, t, v in zip(names, traces, verdicts) if v is None and n.startswith("random")
                     and any(e["ev"] == "grant" for e in t) and not any(e["ev"] == "crash" for e in t)), None)
        if base is None:
            raise Broken("self-test: no accepted free-running recording with an admission")
        k = next(i for i, e in enumerate(base) if e["ev"] == "grant")
        kq = max(i for i, e in enumerate(base[:k]) if e["ev"] == "quota" and e["id"] == base[k]["id"])
        bad1 = [dict(e) for e in base]
        bad1[kq]["ok"] = False                                   # admitted although the quota said no
        bad2 = [e for i, e in enumerate(base) if i != kq]        # the quota's consent dropped
        bad3 = [dict(e) for e in base if not (e["ev"] == "verdict" and e["id"] == base[k]["id"])]   # verdict dropped:
        bad3[-1]["t"] = base[0]["ttl"] + base[0]["slack"] + max(e.get("t", 0) for e in base) + 1    # ... never answered
        bad4 = [dict(e) for e in base] + [{"ev": "crash", "rc": 2, "msg": "injected"}]
        bad5 = [dict(e) for e in base[:k + 1]] + [dict(base[k])] + [dict(e) for e in base[k + 1:]]  # decided twice
        res = judge(ctx, [bad1, bad2, bad3, bad4, bad5], "selftest")
        want = ["T_OnlyIfQuota", "T_OnlyIfQuota", "T_InTTL", "T_NoCrash", "T_OneVerdict"]
        got = [r[1] if r else None for r in res]
        if got != want:
            raise Broken("self-test: corrupted recordings not rejected as expected: %r (want %r)" % (got, want))
        ctx.notes.append("self-test: quota answer flipped / quota event dropped / verdict dropped / crash appended / decision "
                         "duplicated -> rejected with %s" % ", ".join(got))


def replay(ctx, path):
    """re-execute the stored scenario on the real code (forced schedules: deterministic; free-running ones: up to 20
    attempts), judge each recording with the specification."""
    obj = json.load(open(path))
    binary = ctx.build_harness("c06")
    sc = obj["replay"]["scenario"]
    want = obj["witness"]["class"]
    gated = any(st["op"] == "hold" for st in sc["steps"])
    for a in range(3 if gated else 20):
        t = execute_reduced(ctx, binary, [sc], "replay", par=1)[0]
        v = judge(ctx, [t], "replay%d" % a)[0]
        if v is not None:
            for e in t:
                if e["ev"] != "tick":
                    print(json.dumps(e))
            w = witness_of(t, v[0], v[1])
            if ctx.match_known(w) is not None:
                print("KNOWN-FINDING: property=C06 %s" % ctx.match_known(w).get("describe", ""))
                print("replay shows the open finding only")
                return 0
            print("VIOLATION property=C06 replay=%s" % path)
            print("   rejected at event %d (%s): %s" % (v[0], v[1], json.dumps(t[v[0]])))
            return 1
    print("replay accepted by the specification (class %s not shown)" % want)
    return 0
