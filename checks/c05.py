"""C05 - every configuration the loader accepts runs safely on all traffic.

spec:     specs/c04_flow_graph  FlowGraphP (LoadVerdict: load = success-with-working-engine or error, never panic/crash;
          ExecSafeVerdict: every transaction returns within Bound(cfg) processor executions), FlowGraphI (loader model Accepts),
          FlowEngineI (engine model, invariant Safe), GenC04, FlowTrace
binding:  harness/cmd/c04: validation.NewValidator().WithValidationDir(dir).Validate() (= flows-validator, /validate_flows, reload
          dry-run) and streams.Stream.ExecuteFlow in a child process (debug.SetMaxStack): panics, fatal stack overflows and
          over-long walks are observations
"""
import _flowgraph as fg


def run(ctx):
    ctx.cov["rule"] = ("configurations = TLC-enumerated space (accepted and rejected, sampled by seed) + seeded random / hand-written "
                       "configurations + generated valid and invalid quota files; every accepted one is executed on every "
                       "branch-steering input, request and response, plus seeded malformed transactions (non-UTF-8 / truncated "
                       "bodies, header blobs that fail MIME parsing, empty and odd URLs, absurd statuses); a configuration is "
                       "non-trivial when the real loader rejected it or an accepted one executed at least one processor; "
                       "distinct by configuration")
    ctx.assumptions += ["Bound(cfg) = 2^(processors+1) + 2*quotas processor executions per transaction",
                        "transaction content is opaque to the specification: for malformed traffic only 'returns without panic "
                        "within the bound' is claimed",
                        "SPOE decoding in front of routing.processRequest is not exercised: transactions enter at "
                        "utils.ParseHeaders + NewRequestAPIStream/NewResponseAPIStream + Stream.ExecuteFlow"]
    fg.run_property(ctx, "C05")


def replay(ctx, path):
    return fg.replay_property(ctx, "C05", path)
