"""X02 (growth) - flows-mode caching (ReadCache / WriteCache) and transformation (TransformAPICall) processors.

spec:     specs/x02_cache_transform
          XCacheP  (property: history machine - candidates per key, freshness, record limit, witnessed capacity, Serve),
          XCacheI  (implementation-shaped: key join, whole-second storage time, alive test, cumulative size) run in lock step
          with XCacheP (MC_X02C), GenX02C (tlc -simulate walks), XCacheTrace (trace validation);
          XTransP  (property: Set / Delete / Obfuscate / Frame over flat documents), XTransI (transcription of transformer.go
          as a function on documents), MC_X02T (one TLC state per case of the bounded input space + case export),
          XTransTrace (one event per transformed side, judged by XTransP, compared with XTransI).
binding:  harness/cmd/x02 builds a REAL engine (streams.Stream) from generated flow YAML per configuration and runs request /
          response sides on the mock clock; it records the early response of a cache hit and, for transformations, the document
          the returned modify action tells the proxy to send on.  The statement is derived from the registry YAML of the three
          processors and the repository's own tests of them (it is written at the top of XCacheP.tla / XTransP.tla).
"""
import json, os, re, copy
from vlib import Broken, read_ndjson, write_ndjson, validate_history_trace, parallel, tlc_vh_lines, split_histories

SPEC = "x02_cache_transform"
LEVEL = "model_checking"
ALLDEV_T = ["query_dropped", "body_delete_ignored", "body_obf_dot_ignored", "host_suffix"]
UNIT = 131072            # one model size unit (MiB = 8 units)

# ------------------------------------------------------------------------------------------------ YAML rendering

EDGE_START_TO = "    - from:\n        stream:\n          name: globalStream\n          at: start\n      to:\n"
TO_END = "      to:\n        stream:\n          name: globalStream\n          at: end\n"


def y(s):
    return json.dumps(s)      # a JSON string is a valid YAML double-quoted scalar


def proc_to(name):
    return "        processor:\n          name: %s\n" % name


def from_proc(name, cond=None):
    return "    - from:\n        processor:\n          name: %s\n%s" % (name, ("          condition: %s\n" % cond) if cond else "")


def key_part_path(p):
    """key part descriptor -> JSONPath in the dialect of toolkit-core/jsonpath (PaesslerAG)"""
    if p[0] == "headers":
        return "$.request.headers.%s" % p[1] if p[1].isalnum() else '$.request.headers["%s"]' % p[1]
    if p[0] == "query":
        return "$.request.query_param.%s" % p[1]
    if p[0] == "body":
        return "$.request.body.%s" % p[1]
    if p[0] == "path":
        return "$.request.path"
    if p[0] == "seg":
        return "$.request.path_segments[%d]" % p[1]
    raise Broken("bad key part %r" % (p,))


def cache_flow(parts, ttl, recmax, maxmb):
    kp = "[" + ", ".join(y(key_part_path(p)) for p in parts) + "]"
    s = "name: CacheFlow\nfilter:\n  url: \"api.test/*\"\nprocessors:\n"
    s += "  rc:\n    processor: ReadCache\n    parameters:\n      - key: caching_key_parts\n        value: %s\n" % kp
    s += "  wc:\n    processor: WriteCache\n    parameters:\n      - key: caching_key_parts\n        value: %s\n" % kp
    s += "      - key: ttl_seconds\n        value: %d\n" % ttl
    s += "      - key: record_max_size_bytes\n        value: %d\n" % recmax
    s += "      - key: max_cache_size_mb\n        value: %d\n" % maxmb
    s += "flow:\n  request:\n" + EDGE_START_TO + proc_to("rc") + from_proc("rc", "cache_miss") + TO_END
    s += "  response:\n" + from_proc("rc", "cache_hit") + TO_END + EDGE_START_TO + proc_to("wc") + from_proc("wc") + TO_END
    return s


def rule_path(o):
    """rule -> JSONPath in the dialect of ojg/jp, in the forms transformation_test.go uses"""
    d, p = o["dir"], o["path"]

    def name(n):
        return "." + n if re.fullmatch(r"[A-Za-z_][A-Za-z0-9_]*", n) else "['%s']" % n
    if p[0] == "headers":
        return "$.%s.headers%s" % (d, name(p[1]))
    if p[0] == "body":
        return "$.%s.%s%s" % (d, o["note"] or "body", "".join(name(x) for x in p[1:]))
    if p[0] == "query":
        return "$.%s.parsed_query%s%s" % (d, name(p[1]), "" if o["kind"] == "delete" else "[0]")
    if p[0] == "path":
        return "$.%s.path" % d
    if p[0] == "host":
        return "$.%s.host" % d
    if p[0] == "status":
        return "$.%s.status_code" % d
    raise Broken("bad rule path %r" % (p,))


def transform_params(ops):
    s = ""
    sets = [o for o in ops if o["kind"] == "set"]
    if sets:
        s += "      - key: set\n        value:\n"
        for o in sets:
            v = int(o["val"][1]) if o["val"][0] == "n" else o["val"][1]
            s += "          %s: %s\n" % (y(rule_path(o)), json.dumps(v))
    for kind in ("delete", "obfuscate"):
        sel = [o for o in ops if o["kind"] == kind]
        if sel:
            s += "      - key: %s\n        value: [%s]\n" % (kind, ", ".join(y(rule_path(o)) for o in sel))
    return s


def transform_flow(ops, qf):
    """one TransformAPICall per side that has rules of either direction placed on it: the rules of BOTH directions are given
    to the processor of each side that is built (rules addressed to the other side must change nothing there)"""
    sides = sorted({o["dir"] for o in ops})
    s = "name: TFlow\nfilter:\n  url: \"api.test/*\"\n"
    if qf:
        s += "  query_params:\n    - key: q\n      value: \"1\"\n"
    s += "processors:\n"
    for d in sides:
        s += "  t%s:\n    processor: TransformAPICall\n    parameters:\n%s" % (d, transform_params(ops))
    s += "flow:\n"
    for d in ("request", "response"):
        s += "  %s:\n" % d
        if d in sides:
            s += EDGE_START_TO + proc_to("t" + d) + from_proc("t" + d) + TO_END
        else:
            s += EDGE_START_TO.replace("      to:\n", "") + TO_END
    return s


# ------------------------------------------------------------------------------------------------ documents

def unflatten_body(leaves):
    """body leaves [[path, [t, v]]...] -> body text"""
    body = [l for l in leaves if l[0][0] == "body"]
    if not body:
        return ""
    if len(body) == 1 and body[0][0] == ["body"]:
        return body[0][1][1]
    root = {}
    for p, (t, v) in body:
        cur = root
        for k in p[1:-1]:
            cur = cur.setdefault(k, {})
        cur[p[-1]] = v if t == "s" else {} if t == "o" else float(v) if t == "n" else v
    return json.dumps(root, sort_keys=True, separators=(",", ":"))


def doc_event(side, doc, n):
    """a document of the specification -> the concrete transaction side handed to the executor"""
    from urllib.parse import urlencode
    d = {tuple(p): v for p, v in doc}
    h = {p[1]: v[1] for p, v in doc if p[0] == "headers"}
    e = {"ev": "req" if side == "request" else "resp", "id": "t%d" % n, "m": "POST", "h": h, "want_doc": True,
         "body": unflatten_body(doc)}
    if side == "request":
        e["host"] = d[("host",)][1]
        e["path"] = d[("path",)][1]
        e["query"] = urlencode([(p[1], v[1]) for p, v in doc if p[0] == "query"])
    else:
        e["host"], e["path"], e["st"] = "api.test", "/p/a", int(d[("status",)][1])
    return e


def canon_doc(doc):
    return sorted([list(p), list(v)] for p, v in doc)


# ------------------------------------------------------------------------------------------------ execution / judging

def execute(ctx, binary, scripts, tag):
    d = ctx.sub("run-" + tag)
    sp = os.path.join(d, "scripts.json")
    json.dump(scripts, open(sp, "w"))
    ctx.run_harness(binary, ["run", sp, d], timeout=900)
    return [read_ndjson(os.path.join(d, "trace-%03d.ndjson" % i)) for i in range(len(scripts))]


def tlc_lines(out, tagname):
    """<<"TAG", line, ...>> tuples printed by a trace spec (possibly wrapped over several lines)"""
    res = []
    for m in re.finditer(r'<<\s*"%s",\s*(\d+)(.*?)>>[ \t]*(?=\n\S|\Z)' % tagname, out, re.S):
        res.append((int(m.group(1)), re.sub(r"\s+", " ", m.group(2)).strip(" ,")))
    return res


def judge_transform(ctx, events, dev, tag):
    """XTransTrace over one trace; returns (rejects {line: bad}, drifts [line])"""
    sd = ctx.spec_dir(SPEC)
    import shutil
    wd = os.path.join(ctx.scratch, "tvT-" + tag)
    if not os.path.isdir(wd):
        shutil.copytree(sd, wd)
    ev = [dict(events[0], dev=dev)] + events[1:]
    p = os.path.join(wd, "trace.ndjson")
    write_ndjson(p, ev)
    ok, hwm, r = ctx.tlc_trace(wd, "XTransTrace", p, timeout=900)
    if not ok:
        raise Broken("XTransTrace did not consume the trace (%s): hwm=%d %r\n%s" % (tag, hwm, r, r.out[-2500:]))
    rej = {ln: bad for ln, bad in tlc_lines(r.out, "REJECT")}
    drift = [ln for ln, _ in tlc_lines(r.out, "DRIFT")]
    return rej, drift


def clause_of(bad):
    ks = set(re.findall(r'<<"(set|delete|obfuscate|frame)"', bad))
    return "+".join(sorted(ks)) or "other"


def history_of_line(events, line):
    """(reset event index, event) of the 1-based trace line"""
    i = line - 1
    j = i
    while events[j].get("ev") != "reset":
        j -= 1
    return j, events[i]


def run_transform(ctx, binary, hists, tag, stats):
    """execute transformation histories, judge every recorded side with the property (deviations accepted), reproduce rejections,
    and count what only the named deviations make acceptable (strict pass)"""
    nchunk = 4
    k = (len(hists) + nchunk - 1) // nchunk
    chunks = [hists[i:i + k] for i in range(0, len(hists), k)]
    traces = execute(ctx, binary, [{"config": {}, "histories": c} for c in chunks], tag)

    # every recording is judged with all named deviations accepted (the verdict) and - to see what each deviation is needed
    # for - once more without each of them (quick: first chunk only)
    jobs = []
    for i, ev in enumerate(traces):
        jobs.append((i, None))
        if ctx.thorough or i == 0:
            jobs += [(i, d) for d in ALLDEV_T]

    def one(job):
        i, d = job
        if d is None:
            return judge_transform(ctx, traces[i], ALLDEV_T, "%s%d" % (tag, i))
        return judge_transform(ctx, traces[i], [x for x in ALLDEV_T if x != d], "%s%d-%s" % (tag, i, d))
    out = parallel(one, jobs, n=8)
    res = []
    for i in range(len(traces)):
        full = next(o for (j, d), o in zip(jobs, out) if j == i and d is None)
        without = {d: o[0] for (j, d), o in zip(jobs, out) if j == i and d is not None}
        res.append((full, without))
    for ci, (ev, ((rej, drift), without)) in enumerate(zip(traces, res)):
        sides = [e for e in ev if e.get("ev") in ("req", "resp")]
        refused = [e for e in ev if e.get("ev") == "reset" and e.get("refused")]
        stats["refused"] += len(refused)
        if refused and len(stats["refused_examples"]) < 3:
            stats["refused_examples"].append(refused[0]["refused"][:300])
        ctx.cov["evaluations"] += len(sides)
        ctx.cov["traces_validated_against_impl"] += sum(1 for e in ev if e.get("ev") == "reset" and not e.get("refused"))
        for e in sides:
            if e.get("err"):
                stats["errors"] += 1
            if e["doc_in"] != e["doc_out"]:
                key = json.dumps([e["doc_in"], e["doc_out"]], sort_keys=True)
                if key not in stats["seen"]:
                    stats["seen"].add(key)
                    ctx.cov["distinct_nontrivial"] += 1
        stats["drift"] += len(drift)
        if drift and len(stats["drift_examples"]) < 3:
            j, e = history_of_line(ev, drift[0])
            stats["drift_examples"].append({"ops": ev[j]["ops"], "qf": ev[j]["qf"], "in": e["doc_in"], "out": e["doc_out"]})
        for dname, rj in without.items():
            for ln, bad in rj.items():
                if ln in rej:
                    continue
                stats["strict"][dname] = stats["strict"].get(dname, 0) + 1
                j, e = history_of_line(ev, ln)
                better = dname not in stats["strict_examples"] or len(ev[j]["ops"]) < stats["strict_examples"][dname]["nrules"]
                if better:
                    stats["strict_examples"][dname] = {
                        "nrules": len(ev[j]["ops"]),
                        "rules": [rule_path(o) + ("=" + o["val"][1] if o["kind"] == "set" else "") + " (" + o["kind"] + ")" for o in ev[j]["ops"]],
                        "side": e["ev"], "url_parsed_before": ev[j]["qf"], "in": e["doc_in"], "out": e["doc_out"], "not_permitted": bad[:300]}
        for ln, bad in sorted(rej.items()):
            if stats.setdefault("reproduced", 0) >= 6:      # every reported violation is reproduced first; a handful is enough
                stats["unreported"] = stats.get("unreported", 0) + 1
                continue
            stats["reproduced"] += 1
            j, e = history_of_line(ev, ln)
            src = next(h for h in chunks[ci] if h[0].get("hid") == ev[j].get("hid"))
            script = [{"config": {}, "histories": [src]}]
            t2 = execute(ctx, binary, script, tag + "-repro")[0]
            rej2, _ = judge_transform(ctx, t2, ALLDEV_T, tag + "-repro")
            if not rej2:
                raise Broken("rejection not reproduced (%s): %s" % (tag, bad[:300]))
            w = {"class": "transform-" + clause_of(bad), "side": e["ev"], "rules": [rule_path(o) for o in ev[j]["ops"]],
                 "not_permitted": bad[:400]}
            ctx.violation(w, {"kind": "transform", "script": script})
    return traces


# ------------------------------------------------------------------------------------------------ transformation cases

def group_cases(cases, rng, max_groups, docs_per_side):
    """cases of the specification grouped by configuration (rules, parsed): one engine per group"""
    groups = {}
    for c in cases:
        key = json.dumps([sorted(json.dumps(o, sort_keys=True) for o in c["ops"]), c["parsed"]])
        groups.setdefault(key, []).append(c)
    keys = sorted(groups)
    rng.shuffle(keys)
    hists = []
    for gi, key in enumerate(keys[:max_groups]):
        cs = groups[key]
        ops = cs[0]["ops"]
        h = [{"ev": "reset", "hid": "g%d" % gi, "kind": "transform", "ops": ops, "qf": cs[0]["parsed"],
              "files": {"flows/t.yaml": transform_flow(ops, cs[0]["parsed"])}}]
        n = 0
        for side in ("request", "response"):
            sel = [c for c in cs if c["side"] == side]
            rng.shuffle(sel)
            for c in sel[:docs_per_side]:
                n += 1
                e = doc_event(side, c["in"], n)
                e["intended"] = canon_doc(c["in"])
                h.append(e)
        hists.append(h)
    return hists


HN = ["xa", "xb", "x-trace", "authorization", "accept", "x_env"]
BF = ["f", "g", "user", "o", "meta", "host"]
QN = ["q", "r", "page"]
SV = ["1", "2", "alice", "a b", "v/1", "", "x_y", "Bearer t0k", "ü"]


def rand_doc_t(rng, side):
    doc = []
    for n in rng.sample(HN, rng.randint(0, 3)):
        doc.append([["headers", n], ["s", rng.choice(SV)]])
    x = rng.random()
    if x < 0.15:
        doc.append([["body"], ["raw", rng.choice(["plain text", "<xml/>", "[1,2]"])]])
    elif x < 0.85:
        for f in rng.sample(BF, rng.randint(1, 3)):
            if f in ("o", "meta") and rng.random() < 0.7:
                for g in rng.sample(["x", "y", "host"], rng.randint(1, 2)):
                    doc.append([["body", f, g], ["s", rng.choice(SV)]])
            else:
                doc.append([["body", f], ["s", rng.choice(SV)]])
    if side == "request":
        doc.append([["host"], ["s", "api.test"]])
        doc.append([["path"], ["s", rng.choice(["/p/a", "/p/b/c", "/"])]])
        for n in rng.sample(QN, rng.randint(0, 2)):
            doc.append([["query", n], ["s", rng.choice([v for v in SV if v])]])
    else:
        doc.append([["status"], ["n", str(rng.choice([200, 201, 404, 500]))]])
    return doc


def rand_rule(rng, d):
    kind = rng.choice(["set", "set", "delete", "obfuscate"])
    secs = ["headers", "headers", "body", "body"] + (["query", "path", "host"] if d == "request" else ["status"])
    if kind != "set":
        secs = [s for s in secs if s not in ("path", "host", "status")]
    sec = rng.choice(secs)
    note = ""
    if sec == "headers":
        p = ["headers", rng.choice(HN + ["host"] if kind == "set" else HN)]
    elif sec == "body":
        f = rng.choice(BF)
        p = ["body", f] + ([rng.choice(["x", "y", "host"])] if f in ("o", "meta") and rng.random() < 0.6 else [])
        note = rng.choice(["body", "body", "body_map"])
    elif sec == "query":
        p = ["query", rng.choice(QN)]
    else:
        p = [sec]
    val = ["", ""]
    if kind == "set":
        val = ["n", str(rng.choice([204, 418]))] if sec == "status" else ["s", rng.choice(["/v2/z", "/n"])] if sec == "path" \
            else ["s", rng.choice(["h2.test", "other.test"])] if p[-1] == "host" else ["s", rng.choice([v for v in SV if v] + ["new value"])]
        # (a rule whose path ends in .host is taken as the new host by the engine - deviation host_suffix; a value that is not a
        #  host name makes url.Parse fail and the path / query rules of the same processor are lost with it: not generated)
    return {"kind": kind, "dir": d, "path": p, "val": val, "note": note}


def rand_transform_hist(rng, hid, ndocs):
    ops, seen = [], set()
    for _ in range(rng.choice([1, 1, 2, 2, 3, 4])):
        o = rand_rule(rng, rng.choice(["request", "request", "response"]))
        k = (o["kind"], o["dir"], tuple(o["path"])) if o["kind"] != "set" else ("set", o["dir"], tuple(o["path"]))
        if k in seen or any(x["kind"] == "set" and o["kind"] == "set" and x["dir"] == o["dir"] and x["path"] == o["path"] for x in ops):
            continue
        seen.add(k)
        ops.append(o)
    qf = rng.random() < 0.5
    h = [{"ev": "reset", "hid": hid, "kind": "transform", "ops": ops, "qf": qf, "files": {"flows/t.yaml": transform_flow(ops, qf)}}]
    for n in range(ndocs):
        side = rng.choice(sorted({o["dir"] for o in ops}))
        doc = rand_doc_t(rng, side)
        if side == "request" and qf:
            doc = [l for l in doc if l[0] != ["query", "q"]] + [[["query", "q"], ["s", "1"]]]
        h.append(doc_event(side, doc, n + 1))
    return h


# ------------------------------------------------------------------------------------------------ cache histories

def part_pool(rng, n, allow_path=True):
    pool = [["headers", "xa"], ["headers", "x-tenant"], ["headers", "api_key"], ["query", "q"], ["query", "id"], ["body", "f"],
            ["seg", 2]] + ([["path"]] if allow_path else [])
    parts = []
    for p in rng.sample(pool, len(pool)):
        if p[0] == "path" and any(x[0] == "seg" for x in parts) or p[0] == "seg" and any(x[0] == "path" for x in parts):
            continue
        parts.append(p)
        if len(parts) == n:
            break
    return parts


def concrete_request(parts, key, n, extra_h=None):
    """key = list of values (None = the part is absent) -> request event with the abstract fields the trace spec reads"""
    from urllib.parse import urlencode
    h, q, bf, path = dict(extra_h or {}), {}, {}, "/p/a"
    for p, v in zip(parts, key):
        if p[0] == "headers" and v is not None:
            h[p[1]] = v
        elif p[0] == "query" and v is not None:
            q[p[1]] = v
        elif p[0] == "body" and v is not None:
            bf[p[1]] = v
        elif p[0] == "path":
            path = "/p/" + (v if v is not None else "")
        elif p[0] == "seg":
            path = "/p/" + (v if v is not None else "")
    body = json.dumps(bf, sort_keys=True, separators=(",", ":")) if bf else ""
    return {"ev": "req", "id": "t%d" % n, "m": "GET", "host": "api.test", "path": path, "query": urlencode(sorted(q.items())),
            "h": h, "body": body, "q": q, "bf": bf, "segs": path.split("/")}


def concrete_response(n, st, tag, pad, h=None):
    h = dict(h or {"content-type": "application/json"})
    e = {"ev": "resp", "id": "t%d" % n, "m": "GET", "host": "api.test", "path": "/p/a", "st": st, "h": h,
         "hsz": sum(len(k) + len(v) for k, v in h.items())}
    if pad >= 48:
        e["bodygen"] = {"v": tag, "pad": pad}
        e["sz"] = len('{"pad":"","v":""}') + pad + len(tag)
    else:
        e["body"] = json.dumps({"v": tag}, separators=(",", ":"))
        e["sz"] = len(e["body"])
    return e


def cache_reset(hid, parts, ttl, recmax, maxmb, share=True):
    return {"ev": "reset", "hid": hid, "kind": "cache", "parts": parts, "ttl": ttl, "recmax": recmax, "maxmb": maxmb,
            "share": ["CacheFlow/rc", "CacheFlow/wc"] if share else [],
            "files": {"flows/c.yaml": cache_flow(parts, ttl, recmax, maxmb)}}


def walk_to_history(rng, walk, hid):
    """a TLC walk of the cache model -> concrete history (sizes in model units -> bytes)"""
    r = walk[0]
    n = r["nparts"]
    parts = part_pool(rng, n, allow_path=False)      # (a path is never absent)
    recmax = r["recmax"] * UNIT if r["recmax"] >= 0 else -1
    h = [cache_reset(hid, parts, r["ttl"], recmax, r["maxmb"])]
    pred = []
    for e in walk[1:]:
        if e["ev"] == "adv":
            h.append({"ev": "adv", "ms": e["d"]})
        elif e["ev"] == "req":
            key = [None if x[0] == "absent" else x[1] for x in e["k"]]
            h.append(concrete_request(parts, key, e["id"]))
            pred.append((len(h) - 1, e["out"]["kind"], e["out"].get("body")))
        elif e["ev"] == "resp":
            pad = e["sz"] * UNIT if e["sz"] > 1 else 0
            h.append(concrete_response(e["id"], e["st"], e["body"], pad))
    return h, pred


def rand_cache_history(rng, hid, ttl, recmax, maxmb, mode):
    """mode: plain | sized | private | join"""
    nparts = rng.choice([1, 2, 2, 3])
    parts = part_pool(rng, nparts)
    vals = ["a", "b", "c7", "a b"] if mode != "join" else ["a", "a_b", "b_a", "b", "a_b_a"]
    if mode == "join":
        parts = [p for p in parts if p[0] not in ("path", "seg")] or [["headers", "xa"]]
        if len(parts) < 2:
            parts = parts + [["query", "id"]] if parts[0] != ["query", "id"] else parts + [["headers", "xa"]]
    base = [rng.choice(vals) for _ in parts]
    keys = [base]
    for i in range(len(parts)):                       # keys differing from the base key in exactly one component
        k = list(base)
        k[i] = rng.choice([v for v in vals if v != base[i]])
        keys.append(k)
    if mode == "join":
        keys += [["a_b", "a"] + base[2:], ["a", "b_a"] + base[2:]]
    if rng.random() < 0.4 and parts[0][0] not in ("path", "seg"):
        k = list(base)
        k[0] = None
        keys.append(k)                                # a key part missing
    if rng.random() < 0.2 and parts[0][0] in ("headers", "query"):
        k = list(base)
        k[0] = ""
        keys.append(k)                                # an empty key part
    h = [cache_reset(hid, parts, ttl, recmax, maxmb, share=(mode != "private"))]
    n, pending, nresp = 0, [], 0
    length = rng.randint(10, 22)
    T = ttl * 1000
    for _ in range(length):
        x = rng.random()
        if x < 0.22:
            d = rng.choice([1, 250, 499, 500, 999, 1000, 1001, T - 1001, T - 1000, T - 999, T - 1, T, T + 1, T + 500, T + 999, T + 1000])
            if d > 0:
                h.append({"ev": "adv", "ms": d})
        elif x < 0.62 or not pending:
            n += 1
            key = rng.choice(keys) if rng.random() < 0.8 else keys[0]
            extra = {"accept": "*/*"} if rng.random() < 0.3 else {}
            h.append(concrete_request(parts, key, n, extra))
            pending.append(n)
        else:
            t = pending.pop(rng.randrange(len(pending)))
            nresp += 1
            if mode == "sized":
                pad = rng.choice([0, 0, 60, 2000, 90000, 200000, 200000, 400000, 700000])
            else:
                pad = rng.choice([0, 0, 0, 64, 300])
            hh = {"content-type": "application/json"}
            if rng.random() < 0.3:
                hh["x-resp"] = "r%d" % nresp
            h.append(concrete_response(t, rng.choice([200, 200, 200, 201, 404, 500]), "r%d" % nresp, pad, hh))
    if mode == "sized":
        # fill: one large response per key, then every key read back with no write in between (what is served then was held together)
        fill = [[v] + base[1:] for v in vals[:4]]
        for k in fill:
            n += 1
            h.append(concrete_request(parts, k, n))
            nresp += 1
            h.append(concrete_response(n, 200, "r%d" % nresp, rng.choice([600000, 700000, 700000])))
        for k in fill:
            n += 1
            h.append(concrete_request(parts, k, n))
    return h


def strip_answers(hist):
    """recorded history -> script (what the executor adds is removed; pending transactions whose request was answered from
    the cache get no response - the driver decides that from the recorded answer)"""
    keep = []
    for e in hist:
        e = {k: v for k, v in e.items() if k not in ("procs", "nact", "early", "est", "ebody", "ebodygen", "eh", "mod", "mh", "mhost",
                                                      "mpath", "mquery", "mbody", "mst", "doc_in", "doc_out", "err", "refused")}
        keep.append(e)
    return keep


def run_cache(ctx, binary, hists, tag, stats, dev_of):
    """execute cache histories on real engines (the executor does not send the response of a transaction the engine answered
    from the cache); TLC validates the recordings per configuration (ttl, recmax, maxmb, dev)."""
    nchunk = 4
    k = (len(hists) + nchunk - 1) // nchunk
    tr = execute(ctx, binary, [{"config": {}, "histories": hists[i:i + k]} for i in range(0, len(hists), k)], tag)
    rec = []
    for t in tr:
        _, hh = split_histories(t)
        rec += hh
    if len(rec) != len(hists):
        raise Broken("executor returned %d histories for %d" % (len(rec), len(hists)))
    final = hists
    groups = {}
    for src, r in zip(final, rec):
        if r[0].get("refused"):
            stats["refused"] += 1
            if len(stats["refused_examples"]) < 3:
                stats["refused_examples"].append(r[0]["refused"][:300])
            continue
        dev = dev_of(r[0])
        key = (r[0]["ttl"], r[0]["recmax"], r[0]["maxmb"], tuple(dev))
        groups.setdefault(key, []).append((src, r))
    items = sorted(groups.items(), key=lambda kv: str(kv[0]))

    def one(it):
        gi, (key, prs) = it
        cfg = {"ev": "config", "ttl": key[0], "recmax": key[1], "maxmb": key[2], "dev": list(key[3])}
        ev = [cfg] + [e for _, r in prs for e in r]
        return validate_history_trace(ctx, SPEC, "XCacheTrace", ev, tag="%s-%d" % (tag, gi), timeout=900)
    res = parallel(one, list(enumerate(items)), n=6)
    for (key, prs), (acc, rejected, _) in zip(items, res):
        ctx.cov["traces_validated_against_impl"] += acc
        for src, r in prs:
            reqs = [e for e in r if e.get("ev") == "req"]
            ctx.cov["evaluations"] += len(reqs) + sum(1 for e in r if e.get("ev") == "resp")
            stats["hits"] += sum(1 for e in reqs if e.get("early"))
            stats["reqs"] += len(reqs)
            k2 = json.dumps(strip_answers(r)[1:], sort_keys=True) + str(key)
            if k2 not in stats["seen"]:
                stats["seen"].add(k2)
                if nontrivial_cache(r):
                    ctx.cov["distinct_nontrivial"] += 1
        for rej in rejected:
            if stats.setdefault("reproduced", 0) >= 6:
                stats["unreported"] = stats.get("unreported", 0) + 1
                continue
            stats["reproduced"] += 1
            src = next(s for s, r in prs if r[0].get("hid") == rej["hist"][0].get("hid"))
            script = [{"config": {}, "histories": [src]}]
            t2 = execute(ctx, binary, script, tag + "-repro")[0]
            cfg = rej["config"]
            _, rej2, _ = validate_history_trace(ctx, SPEC, "XCacheTrace", [cfg] + t2[1:], tag=tag + "-repro")
            if not rej2:
                raise Broken("rejection not reproduced (%s): %s" % (tag, json.dumps(rej["hist"][rej["at"]])[:400]))
            ctx.violation(cache_witness(rej), {"kind": "cache", "script": script, "config": cfg, "rejected_at": rej["at"]})
    return rec


def nontrivial_cache(r):
    """a history exercises the property when the same key is answered from the cache and later (or for a neighbouring key) not"""
    reqs = [e for e in r if e.get("ev") == "req"]
    return any(e.get("early") for e in reqs) and any(not e.get("early") for e in reqs[1:])


def cache_witness(rej):
    h, at = rej["hist"], rej["at"]
    e = h[at]
    w = {"class": "cache-answer-not-allowed-by-spec", "event": {k: e.get(k) for k in ("ev", "id", "early", "est", "h", "q", "bf", "path")},
         "invariant": rej.get("invariant")}
    if e.get("ev") == "req":
        w["class"] = "cache-hit-not-accepted" if e.get("early") else "cache-miss-although-surely-stored-and-fresh"
    if rej.get("invariant"):
        w["class"] = "cache-size-bound"
    w["parts"] = h[0].get("parts")
    w["ttl"] = h[0].get("ttl")
    return w


# ------------------------------------------------------------------------------------------------ run

def run(ctx):
    T = ctx.thorough
    binary = ctx.build_harness("x02")
    sd = ctx.spec_dir(SPEC)
    rng = ctx.rng
    ctx.cov["rule"] = ("cache: histories = TLC -simulate walks of XCacheI and seeded random histories (1-3 key parts over headers / query / "
                       "body field / path / path segment, keys differing in one component, missing / empty parts, clock advances on and "
                       "around the TTL, overwrites, bodies up to 700 kB against record and cache limits, private-store and joined-key "
                       "families); non-trivial = some request was answered from the cache and a later one was not; "
                       "transform: cases = TLC-enumerated (rules <= 2, documents) and seeded random (rules <= 4, nested bodies, dashed "
                       "names) transaction sides; non-trivial = the document handed on differs from the one that arrived; distinct by content")
    ctx.cov["checker_cmd"] = ("tlc -config MC_C_quick.cfg MC_X02C.tla ; tlc -config MC_T_quick.cfg MC_X02T.tla ; "
                              "tlc -config XCacheTrace.cfg XCacheTrace.tla ; tlc -config XTransTrace.cfg XTransTrace.tla")
    ctx.cov["trusted_base"] = ["TLC 1.8", "CommunityModules Json", "Go toolchain", "clock.MockClock",
                               "harness/cmd/x02 projection (early-response action = hit with its status/body/headers; last modify action laid over "
                               "the original side the way lunar.lua's modify_request / modify_response do; JSON body flattened to leaves)",
                               "checks/x02.py rendering of key parts / rules to JSONPath text and of documents to requests",
                               "VerifSetStore: one in-memory store for the ReadCache and WriteCache of an engine (stands for the shared state)"]
    ctx.assumptions += ["one flow; ReadCache and WriteCache carry the same caching_key_parts; transactions are handled one after the other",
                        "cache hits need the two processors to share a store: arranged by the harness (add-only verif export), because the "
                        "build of this repository gives every processor a private store (deviation private_stores, judged separately)",
                        "ttl: a stored response may be served while elapsed <= ttl_seconds (no slack on the upper side); it must be served while "
                        "elapsed + 1 s <= ttl_seconds when it surely fitted every limit (6 x (body + headers) + 2 kB as the upper bound of a record)",
                        "transformations are judged on the action handed to the proxy; the background ExpireWatcher (real time, 2 min) never runs"]

    # (1) exhaustive: I => P on bounded instances, broken variants refuted, named deviations necessary, witnesses reachable
    ok_jobs = [("MC_X02C", "MC_C_quick.cfg"), ("MC_X02C", "MC_C_private.cfg"), ("MC_X02C", "MC_C_join.cfg"), ("MC_X02C", "MC_C_sized.cfg"),
               ("MC_X02T", "MC_T_quick.cfg" if not T else "MC_T_large.cfg")]
    if T:
        ok_jobs += [("MC_X02C", "MC_C_ttl2.cfg"), ("MC_X02C", "MC_C_mid.cfg"), ("MC_X02C", "MC_C_large.cfg"), ("MC_X02C", "MC_C_private_large.cfg"),
                    ("MC_X02C", "MC_C_join_large.cfg"), ("MC_X02C", "MC_C_sized_large.cfg"),
                    ("MC_X02C", "MC_C_benign_ms_ttl.cfg"), ("MC_X02T", "MC_T_benign_set_first.cfg")]
    bad_jobs = [("MC_X02C", "MC_C_bug_ge.cfg"), ("MC_X02C", "MC_C_bug_nokeypart.cfg"), ("MC_X02C", "MC_C_dev_private.cfg"),
                ("MC_X02C", "MC_C_dev_join.cfg"), ("MC_X02C", "MC_C_withit.cfg"), ("MC_X02C", "MC_C_witexpired.cfg"),
                ("MC_X02T", "MC_T_bug_hdr_merge.cfg"), ("MC_X02T", "MC_T_dev_query_dropped.cfg"), ("MC_X02T", "MC_T_dev_body_delete_ignored.cfg"),
                ("MC_X02T", "MC_T_witobf.cfg")]
    if T:
        bad_jobs += [("MC_X02C", "MC_C_bug_%s.cfg" % b) for b in ("staletime", "nostatus", "norecmax", "nocap")]
        bad_jobs += [("MC_X02C", "MC_C_witoverwrite.cfg"), ("MC_X02C", "MC_C_witrefused.cfg")]
        bad_jobs += [("MC_X02T", "MC_T_bug_obf_noop.cfg"), ("MC_X02T", "MC_T_bug_frame_drop.cfg"), ("MC_X02T", "MC_T_dev_body_obf_dot_ignored.cfg"),
                     ("MC_X02T", "MC_T_dev_host_suffix.cfg"), ("MC_X02T", "MC_T_witset.cfg"), ("MC_X02T", "MC_T_witdel.cfg")]

    nw = 10 if not T else 120
    gens = [("GenC_ttl1.cfg", []), ("GenC_ttl2.cfg", []), ("GenC_sized.cfg", []), ("GenC_join.cfg", ["join_key"])]

    def mc(job):
        mod, cfg, kind = job
        if kind == "gen-t":
            return ctx.tlc(sd, mod, cfg, workers=1, timeout=900, label="case generation", count=False, heap="4g")
        if kind == "gen-c":
            return ctx.tlc(sd, mod, cfg, workers=1, simulate="num=%d" % nw, depth=18, extra=["-seed", str(ctx.seed)], timeout=900,
                           label="behaviour generation", count=False, heap="2g")
        return ctx.tlc(sd, mod, cfg, workers=4 if kind == "ok" else 2, timeout=1500,
                       label="I=>P" if kind == "ok" else "non-vacuity (expected refuted)", heap="3g")
    if os.environ.get("X02_DEV_SKIP_MODEL"):        # development aid for mutation runs (the model does not depend on /repo)
        ok_jobs, bad_jobs = [], []
        ctx.notes.append("X02_DEV_SKIP_MODEL set: exhaustive model checking skipped")
    jobs = [(m, c, "ok") for m, c in ok_jobs] + [("MC_X02T", "Gen_T_quick.cfg" if not T else "Gen_T_large.cfg", "gen-t")] + \
           [("GenX02C", c, "gen-c") for c, _ in gens] + [(m, c, "bad") for m, c in bad_jobs]
    results = parallel(mc, jobs, n=8)
    g, gen_out = None, {}
    for (mod, cfg, kind), r in zip(jobs, results):
        if kind == "ok":
            if not r.ok:
                raise Broken("TLC %s/%s: %r\n%s" % (mod, cfg, r, r.out[-2500:]))
            ctx.cov["states"] += r.distinct
            ctx.cov["transitions"] += r.generated
            ctx.log("TLC %s %s: %d distinct states, %.1fs" % (mod, cfg, r.distinct, r.wall))
        elif kind == "bad":
            if r.violated is None:
                raise Broken("variant %s of the model is not refuted (vacuous check): %r\n%s" % (cfg, r, r.out[-1500:]))
        elif kind == "gen-t":
            g = r
        else:
            gen_out[cfg] = r
    ctx.notes.append("model: %d broken variants / named deviations / witnesses refuted as expected" % len(bad_jobs))

    # (2) transformations, spec -> code: the TLC-enumerated input space on the real processor
    tstats = {"refused": 0, "refused_examples": [], "errors": 0, "drift": 0, "drift_examples": [], "strict": {}, "strict_examples": {},
              "seen": set()}
    m = re.search(r'"GEN-CASES",\s*(\d+)', g.out)
    gp = os.path.join(sd, "gen_cases.json")
    if not g.ok or not m or not os.path.exists(gp):
        raise Broken("case generation failed: %r\n%s" % (g, g.out[-2000:]))
    cases = json.load(open(gp))["cases"]
    if len(cases) != int(m.group(1)):
        raise Broken("case file has %d cases, TLC reported %s" % (len(cases), m.group(1)))
    hists = group_cases(cases, rng, 260 if not T else 1400, 4 if not T else 8)
    traces = run_transform(ctx, binary, hists, "tgen", tstats)
    # bookkeeping: the executor's reading of the input must be the document the specification meant
    for ev in traces:
        for e in ev:
            if e.get("ev") in ("req", "resp") and canon_doc(e["doc_in"]) != e["intended"]:
                raise Broken("rendering lost the document: intended %s, the engine was given %s" % (e["intended"], e["doc_in"]))
    ctx.sample({"kind": "tlc-case-replayed", "rules": [rule_path(o) for o in traces[0][1]["ops"]],
                "in": traces[0][2]["doc_in"], "out": traces[0][2]["doc_out"]})
    ctx.log("transform: %d TLC-generated configurations (%d cases in the space), %d sides executed" % (
        len(hists), len(cases), sum(len(h) - 1 for h in hists)))
    ctx.cov["exhaustive"] = bool(T and len(hists) * 8 >= len(cases))

    # (3) transformations, code -> spec: seeded random configurations and documents
    nh, nd = (160, 6) if not T else (1500, 8)
    rh = [rand_transform_hist(rng, "r%d" % i, nd) for i in range(nh)]
    tr = run_transform(ctx, binary, rh, "trand", tstats)
    ctx.log("transform: %d random configurations, %d sides executed" % (len(rh), sum(len(h) - 1 for h in rh)))
    ctx.sample({"kind": "recorded-transform", "rules": [rule_path(o) for o in tr[0][1]["ops"]], "in": tr[0][2]["doc_in"], "out": tr[0][2]["doc_out"]})
    if tstats.get("unreported"):
        ctx.notes.append("transform: %d further rejected sides were not reproduced / reported (cap)" % tstats["unreported"])
    if tstats["refused"]:
        ctx.notes.append("transform: %d configurations refused by the loader, e.g. %s" % (tstats["refused"], tstats["refused_examples"][:1]))
    if tstats["drift"]:
        ctx.cov["model_drift"] = True
        ctx.notes.append("MODEL-DRIFT: %d transformed sides permitted by XTransP differ from XTransI, e.g. %s" % (
            tstats["drift"], json.dumps(tstats["drift_examples"][:1])[:700]))
    for c, n in sorted(tstats["strict"].items()):
        ctx.notes.append("DOC-CODE DISAGREEMENT (transform, deviation %s): %d recorded sides are accepted only because the deviation is listed, e.g. %s" % (
            c, n, json.dumps(tstats["strict_examples"][c])[:1200]))
    if not ctx.violations and set(tstats["strict"]) != set(ALLDEV_T):
        raise Broken("not every named deviation of XTransP was needed by a recorded transformation: %s" % sorted(tstats["strict"]))

    # (4) cache, spec -> code: walks of the implementation-shaped model replayed on real engines
    cstats = {"refused": 0, "refused_examples": [], "hits": 0, "reqs": 0, "seen": set()}
    walks_h, preds = [], []
    for cfg, dev in gens:
        g = gen_out[cfg]
        ws = tlc_vh_lines(g.out)
        if len(ws) < nw // 2:
            raise Broken("behaviour generation %s produced %d walks: %s" % (cfg, len(ws), g.out[-1500:]))
        rng.shuffle(ws)
        for w in ws[:nw * 3]:
            h, pred = walk_to_history(rng, w, "w%d" % len(walks_h))
            h[0]["dev"] = dev
            walks_h.append(h)
            preds.append(pred)
    rec = run_cache(ctx, binary, walks_h, "cgen", cstats, lambda r: r.get("dev", []))
    mism, mism_ex = 0, []
    for r, pred, src in zip(rec, preds, walks_h):
        reqs = [e for e in r if e.get("ev") == "req"]
        bad = [(e, p) for e, p in zip(reqs, pred) if ("hit" if e.get("early") else "miss") != p[1]]
        if len(reqs) == len(pred) and bad:
            mism += 1
            if len(mism_ex) < 2:
                mism_ex.append({"config": {k: r[0].get(k) for k in ("parts", "ttl", "recmax", "maxmb")}, "request": bad[0][0]["id"],
                                "model": bad[0][1][1], "real": "hit" if bad[0][0].get("early") else "miss",
                                "history": [{k: v for k, v in e.items() if k in ("ev", "id", "ms", "h", "q", "bf", "path", "early", "st", "sz")} for e in r[1:]]})
    ctx.log("cache: %d TLC walks replayed, %d answered differently from the model's prediction; %d/%d requests answered from the cache" % (
        len(walks_h), mism, cstats["hits"], cstats["reqs"]))
    if mism:
        ctx.cov["model_drift"] = True
        ctx.notes.append("MODEL-DRIFT: %d of %d generated cache walks answered differently from XCacheI, e.g. %s" % (
            mism, len(walks_h), json.dumps(mism_ex[:1])[:1800]))
    ctx.sample({"kind": "tlc-walk-replayed", "events": [{k: v for k, v in e.items() if k in ("ev", "id", "ms", "h", "q", "bf", "path", "early", "est", "st")}
                                                        for e in rec[0][:9]]})

    # (5) cache, code -> spec: seeded random histories over random configurations
    nh = 36 if not T else 400
    rh = []
    for i in range(nh):
        mode = ["plain", "plain", "sized", "private", "join", "plain"][i % 6]
        # few distinct (ttl, limits): one TLC start per distinct configuration
        if mode == "sized":
            ttl, recmax, maxmb = rng.choice([(2, -1, 1), (2, 300000, 1), (3, -1, 0), (3, 1000000, 2)] if T else [(2, -1, 1), (3, 300000, 1), (2, -1, 0)])
        else:
            ttl, recmax, maxmb = rng.choice([(1, -1, 100), (2, -1, 1), (3, 4000, 1), (2, 4000, 100), (3, -1, 100)] if T else [(1, -1, 100), (2, -1, 1), (3, 4000, 1)])
        h = rand_cache_history(rng, "c%d" % i, ttl, recmax, maxmb, mode)
        h[0]["dev"] = ["private_stores"] if mode == "private" else ["join_key"] if mode == "join" else []
        rh.append(h)
    before = cstats["hits"]
    rec = run_cache(ctx, binary, rh, "crand", cstats, lambda r: r.get("dev", []))
    ctx.log("cache: %d random histories, %d requests answered from the cache" % (len(rh), cstats["hits"] - before))
    if not ctx.violations and cstats["hits"] - before < nh // 3:
        raise Broken("random cache histories are vacuous: only %d requests answered from the cache" % (cstats["hits"] - before))
    ex = next((r for r in rec if any(e.get("early") for e in r)), rec[0])
    ctx.sample({"kind": "recorded-cache-history", "events": [{k: v for k, v in e.items() if k in ("ev", "id", "ms", "parts", "ttl", "h", "q", "bf", "path", "early", "est", "st")}
                                                             for e in ex[:10]]})
    # what the build of the repository does by itself (private stores): judged without the deviation -> disagreement, not a violation
    priv = [r for r in rec if not r[0].get("share")]
    jn = [r for r in rec if "join_key" in r[0].get("dev", [])]
    pv_hits = sum(1 for r in priv for e in r if e.get("early"))

    def strict(it):
        i, r = it
        cfg = {"ev": "config", "ttl": r[0]["ttl"], "recmax": r[0]["recmax"], "maxmb": r[0]["maxmb"], "dev": []}
        return validate_history_trace(ctx, SPEC, "XCacheTrace", [cfg] + r, tag="strict%d" % i, max_rounds=1)[1]
    sel = priv[:4 if not T else 12] + jn[:6 if not T else 40]
    sres = parallel(strict, list(enumerate(sel)), n=6)
    np_, nj = 0, 0
    for r, rj in zip(sel, sres):
        if not rj:
            continue
        e = rj[0]["hist"][rj[0]["at"]]
        if not r[0].get("share"):
            np_ += 1
            if np_ == 1:
                ctx.notes.append("DOC-CODE DISAGREEMENT (cache, deviation private_stores): engine built from YAML as the repository builds it (no "
                                 "shared store, key parts %s): request %s for a key stored just before is answered cache_miss; %d hits in %d such histories" % (
                                     json.dumps(r[0]["parts"]), json.dumps({k: e.get(k) for k in ("id", "h", "q", "bf", "path")}), pv_hits, len(priv)))
        else:
            nj += 1
            if nj == 1:
                ctx.notes.append("DOC-CODE DISAGREEMENT (cache, deviation join_key): key parts %s: request %s was answered from the cache with a response "
                                 "stored for DIFFERENT key-part values whose '_'-joined string is the same" % (
                                     json.dumps(r[0]["parts"]), json.dumps({k: e.get(k) for k in ("id", "h", "q", "bf", "early", "ebody")})))
    if priv and not np_ and not ctx.violations:
        raise Broken("private-store histories never needed the deviation private_stores: family is vacuous")
    if pv_hits:
        raise Broken("a private-store engine answered from the cache: the harness does not run the build as it is")
    if T and jn and not nj:
        ctx.notes.append("joined-key family: no collision was served in this run")
    if cstats.get("unreported"):
        ctx.notes.append("cache: %d further rejected histories were not reproduced / reported (cap)" % cstats["unreported"])
    if cstats["refused"]:
        ctx.notes.append("cache: %d configurations refused by the loader, e.g. %s" % (cstats["refused"], cstats["refused_examples"][:1]))

    # (6) binding self-test (thorough): corrupted / truncated recordings must be rejected
    if T:
        good = next(r for r in rec if r[0].get("share") and any(e.get("early") for e in r) and not r[0].get("dev"))
        cfg = {"ev": "config", "ttl": good[0]["ttl"], "recmax": good[0]["recmax"], "maxmb": good[0]["maxmb"], "dev": []}
        k = next(i for i, e in enumerate(good) if e.get("early"))
        bad1 = copy.deepcopy(good)
        bad1[k]["est"] = bad1[k]["est"] + 1
        wid = None
        for e in good[:k]:
            if e.get("ev") == "resp":
                wid = e["id"]
        bad2 = [e for e in good if not (e.get("ev") == "resp")]
        _, r1, _ = validate_history_trace(ctx, SPEC, "XCacheTrace", [cfg] + bad1, tag="self1", max_rounds=1)
        _, r2, _ = validate_history_trace(ctx, SPEC, "XCacheTrace", [cfg] + bad2, tag="self2", max_rounds=1)
        tr0 = next(t for t in tr if any(e.get("ev") in ("req", "resp") and e["doc_in"] != e["doc_out"] for e in t))
        bad3 = copy.deepcopy(tr0)
        e3 = next(e for e in bad3 if e.get("ev") in ("req", "resp") and e["doc_in"] != e["doc_out"])
        e3["doc_out"] = e3["doc_out"] + [[["headers", "x-injected"], ["s", "1"]]]
        rej3, _ = judge_transform(ctx, bad3, ALLDEV_T, "self3")
        if not r1 or not r2 or not rej3:
            raise Broken("self-test: corrupted recording accepted (status flip=%s, responses dropped=%s, foreign header=%s)" % (
                bool(r1), bool(r2), bool(rej3)))
        ctx.notes.append("self-test: flipped status of a served response rejected; history without its responses rejected; "
                         "foreign header in a transformed side rejected")


def replay(ctx, path):
    obj = json.load(open(path))
    binary = ctx.build_harness("x02")
    rp = obj["replay"]
    t = execute(ctx, binary, rp["script"], "replay")[0]
    for e in t:
        print(json.dumps(e)[:600])
    if rp["kind"] == "cache":
        _, rej, _ = validate_history_trace(ctx, SPEC, "XCacheTrace", [rp["config"]] + t[1:], tag="replay")
        bad = bool(rej)
        what = json.dumps(rej[0]["hist"][rej[0]["at"]])[:500] if rej else ""
    else:
        rej, _ = judge_transform(ctx, t, ALLDEV_T, "replay")
        bad = bool(rej)
        what = str(sorted(rej.items())[:1])[:500]
    if bad:
        print("VIOLATION property=X02 replay=%s" % path)
        print("   rejected: %s" % what)
        return 1
    print("replay accepted by the specification")
    return 0
