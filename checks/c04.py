"""C04 - flow execution follows the configured processor graph.

spec:     specs/c04_flow_graph  FlowGraphP (property: TxVerdict = depth-first walk acceptor over the flow's connections, early-response
          hand-over, flow references, system-flow ordering), FlowGraphI + FlowEngineI (transcription of the loader and of
          stream.ExecuteFlow / streams.executeReq/executeRes/executeFlow), GenC04 (bounded configuration space), FlowTrace
binding:  harness/cmd/c04 loads every configuration with the real validator and runs every branch-steering transaction through
          streams.Stream.ExecuteFlow in a child process; executed processors observed at verifhook point proc.exec
"""
import _flowgraph as fg


def run(ctx):
    ctx.cov["rule"] = ("cases = (configuration, transaction): every configuration of the TLC-enumerated space accepted by the model "
                       "(sampled by seed) + seeded random and hand-written configurations (up to 5 processors, two flows with "
                       "cross references, limiters, quotas generating system flows), each with every input vector steering the "
                       "Filter/Limiter outputs, request and response; a case is non-trivial when the user flow executed >= 2 "
                       "processors and a processor produced a named output or the walk crossed to the response side after an "
                       "early response; distinct by (configuration, inputs, direction)")
    ctx.assumptions += ["processor vocabulary: Filter (hit/miss on a request header), UserDefinedMetrics (unconditional), GenerateResponse "
                        "(answers the request), Limiter (below/above) - other registry processors are not exercised",
                        "one user flow matches a transaction (which flows match is C03); processor keys are not shared between flows; "
                        "'flow.processor' dotted references are not generated",
                        "configurations with two entry points, duplicated connections or nested references are not WellFormed: "
                        "nothing is claimed about them here (they still run under C05)"]
    fg.run_property(ctx, "C04")


def replay(ctx, path):
    return fg.replay_property(ctx, "C04", path)
