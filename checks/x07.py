"""X07 - policy-mode concurrency: concurrency_based_throttling and account_orchestration under concurrent transactions
(growth item; the policy-mode counterpart of C02 / C18).  Not one of the listed properties: no meta file, `bin/check X07`.

spec:     specs/x07_policy_concurrency  PolConcP (sequential property machine, statement at its top), PolConcI + MC_X07 (implementation-
          shaped interleaving model in lock step with P: I => P), PolConcTrace (linearizability search), GenX07 (walks of P)
binding:  harness/cmd/x07 drives (a) the REAL ConcurrencyBasedThrottlingPlugin / concurrency.Limiter / MapVacuum goroutines and the REAL
          AccountOrchestrationPlugin on a lock-step clock, (b) the REAL routing.Handler of a policy-mode manager with SPOE messages
          from several goroutines; every call is recorded at invocation and return with what the real code answered
oracle:   TLC only (PolConcTrace: a history is accepted iff its answers are explained by some one-at-a-time order of the remedies)
"""
import json, os, re, copy
from vlib import Broken, read_ndjson, validate_history_trace, parallel, split_histories, tlc_vh_lines

SPEC = "x07_policy_concurrency"
LEVEL = "model_checking"
TTL, GC = 8, 4            # ticks of 250 ms: proxy timeout 2 s, reclaim slack 1 s (the limiter's vacuum period is 500 ms)
NOOP = {"k": "noop", "st": 0, "b": "", "h": []}


# ----------------------------------------------------------------------------- configurations
def plugin_config(dev="both"):
    return {"ttl": TTL, "gc": GC, "dev": dev, "endpoints": [], "globals": [], "tokens": []}


def to_yaml(o, ind=0):
    sp = "  " * ind
    if isinstance(o, dict):
        if not o:
            return " {}\n"
        s = "\n"
        for k, v in o.items():
            s += "%s%s:%s" % (sp, k, to_yaml(v, ind + 1))
        return s
    if isinstance(o, list):
        if not o:
            return " []\n"
        s = "\n"
        for v in o:
            body = to_yaml(v, ind + 1)
            if body.startswith("\n"):
                lines = body[1:].split("\n")
                first = lines[0][len("  " * (ind + 1)):]
                s += "%s- %s\n" % (sp, first) + "".join(l + "\n" for l in lines[1:] if l)
            else:
                s += "%s-%s" % (sp, body)
        return s
    if isinstance(o, bool):
        return " %s\n" % ("true" if o else "false")
    if isinstance(o, (int, float)):
        return " %s\n" % o
    return " %s\n" % json.dumps(o)


def remedy_yaml(r, name, tokens):
    if r["k"] == "conc":
        cfg = {"concurrency_based_throttling": {"max_concurrent_requests": r["max"], "response_status_code": r["st"]}}
    else:
        cfg = {"account_orchestration": {"round_robin": ["a%d" % i for i in range(r["n"])]}}
    return {"name": name, "enabled": r["on"], "config": cfg}


def policies_yaml(cfg):
    accounts = {"a%d" % i: {"tokens": [{"header": {"name": "x-acct", "value": v}}]} for i, v in enumerate(cfg["tokens"])}
    doc = {"global": {"remedies": [remedy_yaml(r, "g%d" % i, cfg["tokens"]) for i, r in enumerate(cfg["globals"])], "diagnosis": []},
           "endpoints": [{"url": e["url"], "method": e["m"],
                          "remedies": [remedy_yaml(r, "e%d_%d" % (j, i), cfg["tokens"]) for i, r in enumerate(e["rems"])], "diagnosis": []}
                         for j, e in enumerate(cfg["endpoints"])],
           "accounts": accounts,
           "exporters": {"file": {"file_dir": "/tmp/x07-unused", "file_name": "out"}, "s3": {"bucket_name": "b", "region": "r"},
                         "s3_minio": {"bucket_name": "b", "url": "http://127.0.0.1:9"}}}
    return to_yaml(doc)[1:]


def conc(mx, st, on=True):
    return {"k": "conc", "on": on, "max": mx, "st": st, "n": 0}


def acct(n, on=True):
    return {"k": "acct", "on": on, "max": 0, "st": 0, "n": n}


HURLS = [("GET", "api.test/a"), ("POST", "api.test/a"), ("GET", "api.test/b"), ("GET", "api.test/z")]     # /z is not declared


def rand_handler_config(rng):
    """literal endpoints with a concurrency remedy (some with the rotation before / after it, some with a disabled one) and
    0-1 global concurrency remedy (counted per method over all URLs); at most one account_orchestration remedy"""
    k = rng.choice([2, 3])
    tokens = ["v%d" % i for i in range(k)]
    acct_at = rng.choice(["a-first", "a-last", "global", "none"])
    eps = []
    for m, url in HURLS[:3]:
        rems = [conc(rng.choice([1, 1, 2, 3]), 429 + len(eps))]
        if rng.random() < 0.25:
            rems.append(conc(1, 499, on=False))
        if url == "api.test/a" and m == "GET":
            if acct_at == "a-first":
                rems.insert(0, acct(k))
            elif acct_at == "a-last":
                rems.append(acct(k))
        if rng.random() < 0.85:
            eps.append({"m": m, "url": url, "rems": rems})
    gl = []
    if rng.random() < 0.6:
        gl.append(conc(rng.choice([2, 3, 4]), 440))
    if acct_at == "global":
        gl.insert(rng.randrange(len(gl) + 1), acct(k))
    return {"ttl": TTL, "gc": GC, "dev": "both", "endpoints": eps, "globals": gl, "tokens": tokens}


def rand_handler_history(rng, cfg, hid):
    """SPOE requests / responses from 2-4 goroutines; a transaction's response is sent after its request returned (same
    goroutine later, or a later round); some responses never come, some come twice"""
    h = [{"ev": "reset", "now": 0}]
    hot = rng.choice(HURLS)
    k, open_tx = 0, []
    for rnd in range(rng.randint(2, 4)):
        if rnd % 2 == 1 and rng.random() < 0.5:
            # a storm: simultaneous requests to one URL
            threads = []
            for _ in range(rng.randint(3, 5)):
                k += 1
                threads.append([{"op": "hreq", "t": "h%s_%d" % (hid, k), "m": hot[0], "url": hot[1]}])
                open_tx.append(threads[-1][0]["t"])
            h.append({"ev": "conc", "threads": threads})
            continue
        threads = []
        pool = open_tx
        open_tx = []
        for _ in range(rng.randint(2, 4)):
            ops, mine = [], []
            for _ in range(rng.randint(1, 3)):
                x = rng.random()
                if x < 0.6 or not (mine or pool):
                    k += 1
                    m, url = hot if rng.random() < 0.7 else rng.choice(HURLS)
                    ops.append({"op": "hreq", "t": "h%s_%d" % (hid, k), "m": m, "url": url})
                    mine.append(ops[-1]["t"])
                else:
                    src = mine if (mine and (not pool or rng.random() < 0.5)) else pool
                    t = src.pop(rng.randrange(len(src)))
                    ops.append({"op": "hres", "t": t, "status": rng.choice([200, 200, 500])})
                    if rng.random() < 0.15:
                        open_tx.append(t)          # its response will come a second time
            open_tx += mine
            threads.append(ops)
        open_tx += [t for t in pool if rng.random() < 0.7]      # the others' responses never come
        h.append({"ev": "conc", "threads": threads})
    return h


# ----------------------------------------------------------------------------- plugin-level histories
LIMS = [("GET", "a.test/x", "e"), ("POST", "a.test/x", "e"), ("GET", "a.test/y", "e"), ("GET", "a.test/x", "g"), ("GET", "a.test/z", "g")]


def take(t, lim, mx, st=429):
    return {"op": "take", "t": t, "m": lim[0], "url": lim[1], "scope": lim[2], "max": mx, "st": st}


def rand_plugin_history(rng, hid, conc_ok=True):
    """requests on a hot limiter (limit 1-3, sometimes reconfigured), a few on others (isolation; the second slot of a chain),
    responses (also repeated, of refused and of unknown transactions), lost responses with clock steps around the proxy
    timeout, rotation requests; ops of one `conc` event run in 1-4 goroutines at one instant"""
    h = [{"ev": "reset", "now": rng.randint(0, 7)}]
    hot = rng.choice(LIMS)
    mx = rng.choice([1, 1, 2, 3])
    k_rot = rng.choice([2, 3, 4])
    n, pool, taken = 0, [], {}
    for _ in range(rng.randint(8, 16)):
        x = rng.random()
        if x < 0.22:
            h.append({"ev": "adv", "d": rng.choice([1, 1, 2, 3, TTL - 1, TTL, TTL + 1, TTL + 2, TTL + GC, TTL + GC + 1])})
            continue
        if x < 0.30:
            mx = rng.choice([0, 1, 2, 3, 4])
        threads = []
        nthreads = rng.randint(2, 4) if (conc_ok and rng.random() < 0.7) else 1
        mine_all = []
        for _ in range(nthreads):
            ops, mine = [], []
            for _ in range(rng.randint(1, 3) if nthreads > 1 else 1):
                y = rng.random()
                if y < 0.55 or not (mine or pool):
                    n += 1
                    t = "p%s_%d" % (hid, n)
                    lim = hot if rng.random() < 0.8 else rng.choice(LIMS)
                    ops.append(take(t, lim, mx if lim == hot else rng.choice([1, 2])))
                    taken[t] = {(lim[0], "" if lim[2] == "g" else lim[1])}
                    mine.append(t)
                elif y < 0.62 and mine:
                    # the second limiter of a chain: the same transaction asks another limiter
                    t = mine[-1]
                    lim = rng.choice(LIMS)
                    key = (lim[0], "" if lim[2] == "g" else lim[1])
                    if key not in taken[t]:
                        taken[t].add(key)
                        ops.append(take(t, lim, rng.choice([1, 2, 3])))
                elif y < 0.85:
                    src = mine if (mine and (not pool or rng.random() < 0.5)) else pool
                    if src:
                        t = src.pop(rng.randrange(len(src)))
                        ops.append({"op": "rel", "t": t})
                        if rng.random() < 0.15:
                            mine_all.append(t)      # its response will come once more
                    else:
                        ops.append({"op": "rel", "t": "unknown%s_%d" % (hid, n)})
                else:
                    ops.append({"op": "pick", "k": k_rot})
            if ops:
                threads.append(ops)
            mine_all += mine
        pool += mine_all
        if threads:
            h.append({"ev": "conc", "threads": threads})
    return h


def storm_history(rng, hid, nstorms, nthreads):
    """simultaneous FIRST requests on fresh limiters (first-use race of the limiters map), simultaneous requests on a limiter at
    its limit, simultaneous rotation requests"""
    h = [{"ev": "reset", "now": 0}]
    k = rng.choice([2, 3, 5])
    for i in range(nstorms):
        x = i % 5
        if x == 4:
            # simultaneous rotation requests; every fourth time each goroutine asks 300 times back to back
            h.append({"ev": "pstorm", "k": k, "n": rng.choice([2, nthreads, nthreads + 1]), "it": 300 if i % 20 == 4 else 1})
        elif x == 3:
            # a limiter used before, partly full
            h.append({"ev": "tstorm", "m": "GET", "url": "a.test/r%s" % hid, "scope": "e", "max": 3, "st": 429,
                      "n": nthreads, "then": rng.choice(["rel", "rel", "half"]) if i < nstorms - 8 else "rel"})
        else:
            h.append({"ev": "tstorm", "m": "GET", "url": "a.test/s%s_%d" % (hid, i), "scope": rng.choice(["e", "e", "g"]) if i % 50 == 0 else "e",
                      "max": rng.choice([1, 1, 2]), "st": 430, "n": 2 if i % 3 else nthreads, "then": "rel" if i % 25 else "keep"})
    return h


def d1_history(level):
    """directed: a transaction that holds a slot of its endpoint remedy and of the global remedy gets its response; the next
    request to the endpoint (limit 1) shows whether the endpoint slot came back (T4 as documented) or not (engine)"""
    if level == "plugin":
        e, g = ("GET", "a.test/x", "e"), ("GET", "a.test/x", "g")
        return [{"ev": "reset", "now": 0}] + [{"ev": "conc", "threads": [[op]]} for op in
                                             (take("d1", e, 1), take("d1", g, 5), {"op": "rel", "t": "d1"}, take("d2", e, 1))]
    return [{"ev": "reset", "now": 0}] + [{"ev": "conc", "threads": [[op]]} for op in
                                         ({"op": "hreq", "t": "d1", "m": "GET", "url": "api.test/a"}, {"op": "hres", "t": "d1", "status": 200},
                                          {"op": "hreq", "t": "d2", "m": "GET", "url": "api.test/a"})]


D1_HANDLER_CFG = {"ttl": TTL, "gc": GC, "dev": "both", "tokens": [],
                  "endpoints": [{"m": "GET", "url": "api.test/a", "rems": [conc(1, 429)]}], "globals": [conc(5, 440)]}


# ----------------------------------------------------------------------------- execution
def script_of(level, cfg, hists):
    sc = {"level": level, "config": cfg, "histories": hists}
    if level == "handler":
        sc["files"] = {"1": policies_yaml(cfg)}
    return sc


def execute(ctx, binary, scripts, tag):
    d = ctx.sub("run-" + tag)
    sp = os.path.join(d, "scripts.json")
    json.dump(scripts, open(sp, "w"))
    port = str(20000 + (os.getpid() * 7 + len(tag) * 131 + ctx.seed * 17 + 7) % 20000)
    last = None
    for attempt in range(4):
        p = ctx.run_harness(binary, ["run", sp, d], timeout=900, check=False,
                            env={"HAPROXY_MANAGE_ENDPOINTS_PORT": port, "LUNAR_HEALTHCHECK_PORT": port, "LOG_LEVEL": "panic"})
        if p.returncode == 0:
            return [read_ndjson(os.path.join(d, "trace-%03d.ndjson" % i)) for i in range(len(scripts))]
        last = p
        if "cannot listen" not in p.stderr:
            break
        port = str(int(port) + 1 + attempt)
    m = re.search(r"(fatal error: [^\n]*|panic: [^\n]*)", last.stderr)
    if m and last.returncode != 3:
        raise EngineCrash(m.group(1))
    raise Broken("harness failed rc=%d\nstdout: %s\nstderr: %s" % (last.returncode, last.stdout[-1500:], last.stderr[-3000:]))


class EngineCrash(Exception):
    pass


def run_observing_crashes(ctx, binary, scripts, tag):
    """the process dying inside the plugins under a concurrent history (Go runtime 'concurrent map writes', a panic) is itself an
    observation: no call of the history got an answer.  A violation once it happens again on a re-run."""
    try:
        return execute(ctx, binary, scripts, tag)
    except EngineCrash as c:
        msg = str(c)
        for attempt in range(5):
            try:
                execute(ctx, binary, scripts, tag + "-recrash")
            except EngineCrash as c2:
                ctx.violation({"class": "plugin-process-crashed", "message": str(c2)[:200]},
                              {"scripts": scripts, "first_message": msg, "schedule_dependent": True, "crash": True})
                return None
        raise Broken("crash not reproduced in 5 runs: %s" % msg)


def overlap(hist):
    cur = best = 0
    for e in hist:
        if e["ev"] == "begin":
            cur += 1
            best = max(best, cur)
        elif e["ev"] == "end":
            cur -= 1
    return best


def refused(e):
    if e["ev"] == "tbatch":
        return len(e["adm"]) < len(e["ts"])
    if e["ev"] != "begin":
        return False
    return e.get("act", {}).get("k") == "early" or any(a.get("k") == "early" for a in e.get("acts", []))


def calls(h):
    return sum((len(e["ts"]) if e["ev"] in ("tbatch", "rbatch") else e["n"] if e["ev"] == "pbatch" else 1)
               for e in h if e["ev"] in ("begin", "tbatch", "rbatch", "pbatch"))


def witness_of(rej):
    h, at = rej["hist"], min(rej["at"], len(rej["hist"]) - 1)
    e = h[at]
    if e["ev"] == "end":       # the call that could not take effect anywhere between its invocation and this return
        e = next((x for x in h if x["ev"] == "begin" and x["id"] == e["id"]), e)
    now, advanced = 0, False
    for x in h[: at + 1]:
        if x["ev"] == "reset":
            now = x["now"]
        elif x["ev"] == "adv":
            now += x["d"]
            advanced = True
    ev = {k: v for k, v in e.items() if k not in ("racts",)}
    return {"class": "no-sequential-order-explains-answers", "op": e.get("op", e["ev"]), "event": ev, "now": now, "after_clock_step": advanced,
            "overlap": overlap(h), "level": rej["config"].get("level"), "invariant": rej.get("invariant")}


def validate(ctx, events, tag, max_rounds=4):
    return validate_history_trace(ctx, SPEC, "PolConcTrace", events, tag=tag, deque=True, max_rounds=max_rounds, timeout=900)


def with_dev(events, dev):
    c = dict(events[0])
    c["dev"] = dev
    return [c] + events[1:]


def judge(ctx, binary, scripts, traces, tag, stats):
    """TLC judges every recorded trace; a rejection is re-executed before it counts"""
    def one(it):
        i, ev = it
        return validate(ctx, ev, "%s%d" % (tag, i))
    res = parallel(one, list(enumerate(traces)), n=8)
    for (acc, rejected, rounds), ev, sc in zip(res, traces, scripts):
        cfg, hs = split_histories(ev)
        ctx.cov["traces_validated_against_impl"] += acc
        stats["histories"] += len(hs)
        for h in hs:
            n = calls(h)
            ctx.cov["evaluations"] += n
            stats["calls"] += n
            stats["vacuums"] += sum(e["vacuums"] for e in h if e["ev"] == "stats")
            stats["admitted"] += sum((len(e["adm"]) if e["ev"] == "tbatch" else 1) for e in h
                                     if (e["ev"] == "tbatch") or (e["ev"] == "begin" and e.get("op") == "take" and e["act"]["k"] == "noop"))
            if any(refused(e) for e in h) and (overlap(h) >= 2 or any(e["ev"] in ("tbatch", "pbatch") for e in h)):
                ctx.cov["distinct_nontrivial"] += 1
        for rej in rejected[:1]:          # one witness per script is enough
            stats["rejected"] += 1
            w = witness_of(rej)
            idx = hs.index(rej["hist"])
            hscript = sc["histories"][idx]
            concurrent = w["overlap"] >= 2 or w["op"] in ("tbatch", "pbatch")
            reproduced = None
            ncopies = 1 if not concurrent else max(1, min(30, 4000 // max(1, len(rej["hist"]))))
            for attempt in range(1 if not concurrent else 20):
                sc2 = dict(sc, histories=[hscript] * ncopies)
                t2 = execute(ctx, binary, [sc2], "%s-repro" % tag)[0]
                _, r2, _ = validate(ctx, t2, "%s-repro" % tag, max_rounds=1)
                if r2:
                    reproduced = (r2[0], dict(sc, histories=[hscript] * ncopies))
                    break
            if reproduced is None:
                raise Broken("rejection not reproduced (%s, %d attempts): %s" % (tag, 1 if not concurrent else 20, json.dumps(w)[:1500]))
            r2, sc2 = reproduced
            w2 = witness_of(r2)
            w2["reproduced"] = True
            ctx.violation(w2, {"script": sc2, "trace": [r2["config"]] + r2["hist"], "rejected_at": r2["at"], "schedule_dependent": concurrent})


# ----------------------------------------------------------------------------- exhaustive runs of I x P
MC_BASE = {"one": "MC_one.cfg", "two": "MC_two.cfg", "lim2": "MC_lim2.cfg"}
REFUTED = [("gt", "one", "both"), ("check_then_act", "one", "both"), ("assign_race", "one", "both"), ("no_release", "one", "both"),
           ("no_vacuum", "one", "both"), ("early_vacuum", "one", "both"), ("pick_split", "one", "both"),
           ("none", "two", "doc"),            # the engine as it is does NOT satisfy T4 as documented (deviation D1)
           ("release_all", "two", "engine")]
ACCEPTED = [("release_all", "two", "doc"), ("release_all", "two", "both"), ("none", "two", "engine")]
WITNESS = [("NoRefusal", "one"), ("NoVacuumed", "one"), ("NoLateResponse", "one"), ("NoTwoHeld", "two"), ("NoLeftBehind", "two")]


def mc_cfg(sd, base, variant="none", dev="both", invariants=None, overrides=None):
    s = open(os.path.join(sd, MC_BASE[base])).read()
    s = s.replace('Variant = "none"', 'Variant = "%s"' % variant).replace('Dev = "both"', 'Dev = "%s"' % dev)
    if invariants:
        s = re.sub(r"^INVARIANTS.*$", "INVARIANTS " + " ".join(invariants), s, flags=re.M)
    for k, v in (overrides or {}).items():
        s = re.sub(r"^(\s*%s\s*=).*$" % k, r"\1 %s" % v, s, flags=re.M)
    name = "MC_run_%s_%s_%s_%s.cfg" % (base, variant, dev, "-".join(invariants or ["std"]))
    open(os.path.join(sd, name), "w").write(s)
    return name


def exhaustive(ctx, sd):
    T = ctx.thorough
    big = {"one": {"Txn": "{t1, t2, t3, t4}", "MaxNow": "6"}, "two": {"Txn": "{t1, t2, t3}", "MaxResp": "2"}, "lim2": {}} if T else {"one": {}, "two": {}}
    jobs = [("base", (base,), mc_cfg(sd, base, overrides=big[base]), "I x P, instance %s: Conforms / Agree / ExpiryBound / OnePerKey" % base)
            for base in (("one", "two", "lim2") if T else ("one", "two"))]
    # quick tier: a subset of the variants (one per mechanism); thorough: all of them
    refuted = REFUTED if T else [it for it in REFUTED if it[0] in ("check_then_act", "no_vacuum", "pick_split", "none")]
    accepted = ACCEPTED if T else ACCEPTED[:1]
    jobs += [("refuted", it, mc_cfg(sd, it[1], it[0], it[2]), "non-vacuity: variant %s (Dev=%s) must be refuted" % (it[0], it[2])) for it in refuted]
    jobs += [("accepted", it, mc_cfg(sd, it[1], it[0], it[2]), "variant %s (Dev=%s) satisfies the property" % (it[0], it[2])) for it in accepted]
    jobs += [("witness", it, mc_cfg(sd, it[1], invariants=[it[0]]), "witness %s must be reached" % it[0]) for it in (WITNESS if T else WITNESS[2:])]

    def one(job):
        kind, it, cfg, label = job
        return ctx.tlc(sd, "MC_X07", cfg, workers=(4 if kind == "base" else 1), timeout=1500, heap=("4g" if kind == "base" else "1g"), label=label)
    for (kind, it, cfg, label), r in zip(jobs, parallel(one, jobs, n=10)):
        if kind == "base":
            if not r.ok or r.distinct <= 1:
                raise Broken("TLC MC_X07/%s: %r\n%s" % (cfg, r, r.out[-3000:]))
            ctx.cov["states"] += r.distinct
            ctx.cov["transitions"] += r.generated
            ctx.log("TLC MC_X07 %s: %d generated / %d distinct, depth %d, %.1fs" % (cfg, r.generated, r.distinct, r.depth, r.wall))
        elif kind == "refuted" and r.violated is None:
            raise Broken("the model cannot tell variant %s (instance %s, Dev=%s) from the property: %r" % (it + (r,)))
        elif kind == "accepted" and not r.ok:
            raise Broken("variant %s (instance %s, Dev=%s) should satisfy the property: %r" % (it + (r,)))
        elif kind == "witness" and r.violated is None:
            raise Broken("vacuous model: the situation %s is never reached on instance %s: %r" % (it + (r,)))
    ctx.notes.append("I x P: %d broken variants refuted, %d designs accepted (incl. the engine as it is under Dev=engine/both), %d witnesses reached; "
                     "the engine as it is (Variant none) is REFUTED against T4 as documented (Dev=doc): deviation D1" % (
                         len(refuted), len(accepted), len(WITNESS if T else WITNESS[2:])))


# ----------------------------------------------------------------------------- the check
def walks_to_hists(walks):
    hists = []
    for wi, b in enumerate(walks):
        h = [{"ev": "reset", "now": 0}]
        for e in b:
            if e["op"] == "adv":
                h.append({"ev": "adv", "d": e["d"]})
            else:
                op = {k: v for k, v in e.items() if k != "out"}
                if "t" in op:
                    op["t"] = "g%d_%s" % (wi, op["t"])
                h.append({"ev": "conc", "threads": [[op]]})
        hists.append(h)
    return hists


def drift_of(walk, rec):
    """bookkeeping (not a verdict): does the real run take the branch the walk took?"""
    outs = [e for e in walk if e["op"] != "adv"]
    real = [e for e in rec if e["ev"] == "begin"]
    for w, r in zip(outs, real):
        if w["op"] == "take" and (r["act"]["k"] == "noop") != (w["out"] == "admit"):
            return True
        if w["op"] == "pick" and r["out"] != w["out"]:
            return True
    return False


def run(ctx):
    T = ctx.thorough
    binary = ctx.build_harness("x07")
    sd = ctx.spec_dir(SPEC)
    stats = {"histories": 0, "calls": 0, "rejected": 0, "vacuums": 0, "admitted": 0}
    ctx.cov["rule"] = ("histories = TLC walks of PolConcP + seeded random programs of 1-4 goroutines over the real plugins (requests on limiters with "
                       "limits 0-4 incl. reconfiguration, second slot of a chain, responses incl. repeated / unknown / late ones, lost responses with "
                       "clock steps around the proxy timeout, rotation requests) + storms of simultaneous first requests on fresh limiters + SPOE "
                       "requests / responses of 2-5 goroutines through routing.Handler; non-trivial = a request was refused and at least two calls "
                       "overlapped (or the history holds a storm)")
    ctx.cov["checker_cmd"] = "tlc -config MC_one.cfg MC_X07.tla ; tlc -config PolConcTrace.cfg PolConcTrace.tla (StateDeque)"
    ctx.cov["trusted_base"] = ["TLC 1.8", "CommunityModules Json", "Go toolchain and scheduler", "harness/cmd/x07 (action snapshots are direct field reads; "
                               "per-goroutine attribution of runner.req_action / resp_action points)", "harness/internal/c12q lock-step clock",
                               "loopback stand-in of the HAProxy admin API (handler level)"]
    ctx.assumptions += ["1 tick = 250 ms; proxy timeout 2 s at plugin level; the clock moves only between calls (no call overlaps a clock step)",
                        "transaction ids are unique; a transaction asks a limiter at most once",
                        "one account_orchestration list per history (X01 reports that all such remedies share one rotation)",
                        "handler level: literal endpoint URLs only (pattern matching is C13 / X01), no clock steps, no policy reloads",
                        "only interleavings the Go scheduler produced in this run are observed on the real code; the TLC model covers all interleavings of the modelled steps",
                        "P accepts both readings of T4 for a transaction holding two slots (Dev=both); the exhaustive run and a directed history record which one the engine shows"]

    # (1) exhaustive: I x P on the bounded instances, broken variants, witnesses
    exhaustive(ctx, sd)
    ctx.log("exhaustive stage done")

    # (2) spec -> code: walks of P replayed into the real plugins, judged by the linearizability spec
    nw = 60 if not T else 600
    g = ctx.tlc(sd, "GenX07", "GenX07.cfg", workers=1, simulate="num=%d" % nw, depth=45, extra=["-seed", str(ctx.seed)], timeout=600,
                label="behaviour generation (walks of PolConcP)")
    walks = tlc_vh_lines(g.out)[: nw + nw // 2]
    if len(walks) < nw // 2:
        raise Broken("behaviour generation produced %d walks: %s" % (len(walks), g.out[-1500:]))
    gsc = [script_of("plugin", plugin_config(), walks_to_hists(walks))]
    gtr = run_observing_crashes(ctx, binary, gsc, "gen")
    if gtr is None:
        return
    _, ghs = split_histories(gtr[0])
    drift = sum(1 for w, h in zip(walks, ghs) if drift_of(w, h))
    ctx.sample({"kind": "tlc-walk", "events": walks[0][:10]})
    judge(ctx, binary, gsc, gtr, "gen", stats)
    ctx.log("replayed %d walks (%d drift)" % (len(walks), drift))
    ctx.notes.append("replayed %d walks of PolConcP (lost slots reclaimed one vacuum period after the proxy timeout, as the engine does); in %d the real "
                     "code takes another permitted branch than the walk" % (len(walks), drift))

    # (3) code -> spec, plugin level: random concurrent programs and storms
    nscripts, nh = (5, 32) if not T else (16, 120)
    scripts = [script_of("plugin", plugin_config(), [rand_plugin_history(ctx.rng, "%d_%d" % (s, i), conc_ok=(i % 4 != 0)) for i in range(nh)])
               for s in range(nscripts)]
    for s in range(4 if not T else 8):
        scripts.append(script_of("plugin", plugin_config(), [storm_history(ctx.rng, "%d_%d" % (s, i), 500, 8) for i in range(3 if not T else 12)]))
    traces = run_observing_crashes(ctx, binary, scripts, "plug")
    if traces is None:
        return
    ctx.sample({"kind": "recorded-concurrent-history", "events": split_histories(traces[0])[1][1][:14]})
    ctx.log("plugin level: %d scripts executed" % len(scripts))
    judge(ctx, binary, scripts, traces, "plug", stats)
    ctx.log("plugin level judged: %s" % stats)

    # (4) code -> spec, handler level: SPOE messages through routing.Handler
    hscripts = []
    for s in range(6 if not T else 24):
        cfg = rand_handler_config(ctx.rng)
        hscripts.append(script_of("handler", cfg, [rand_handler_history(ctx.rng, cfg, "%d_%d" % (s, i)) for i in range(12 if not T else 30)]))
    htraces = run_observing_crashes(ctx, binary, hscripts, "hand")
    if htraces is None:
        return
    ctx.sample({"kind": "recorded-handler-history", "events": [{k: v for k, v in e.items() if k != "racts"} for e in split_histories(htraces[0])[1][0][:8]]})
    ctx.log("handler level: %d scripts executed" % len(hscripts))
    judge(ctx, binary, hscripts, htraces, "hand", stats)
    ctx.log("handler level judged: %s" % stats)

    # (5) the named deviation D1 on the real code (a directed history at both levels): accepted by P (Dev=both); judged again with
    #     T4 as documented (Dev=doc) to record which reading the engine shows.  Not a verdict either way.
    dsc = [script_of("plugin", plugin_config(), [d1_history("plugin")]), script_of("handler", D1_HANDLER_CFG, [d1_history("handler")])]
    dtr = execute(ctx, binary, dsc, "d1")
    judge(ctx, binary, dsc, dtr, "d1", stats)
    shown = []
    dres = parallel(lambda it: validate(ctx, with_dev(it[1], it[2]), "d1-%s-%s" % (it[2], it[0]), max_rounds=1)[1],
                    [(lvl, t, dev) for lvl, t in zip(("plugin", "handler"), dtr) for dev in ("doc", "engine")], n=4)
    for i, lvl in enumerate(("plugin", "handler")):
        rej, rej2 = dres[2 * i], dres[2 * i + 1]
        shown.append("%s: %s" % (lvl, "engine reading (only the last slot comes back; the endpoint slot stays held until the proxy timeout)" if rej and not rej2
                                 else "documented reading (all slots come back)" if rej2 and not rej else "inconclusive"))
    ctx.cov["deviation_D1"] = shown
    ctx.notes.append("D1 (response of a transaction holding two slots): " + "; ".join(shown))

    if stats["admitted"]:
        ctx.cov["vacuum_goroutines_per_admitted_transaction"] = round(stats["vacuums"] / stats["admitted"], 3)
        ctx.notes.append("observation O1: %d vacuum goroutines were started for %d admitted transactions at plugin level (each keeps waking every "
                         "500 ms for the life of the process)" % (stats["vacuums"], stats["admitted"]))
    ctx.cov["histories"] = stats["histories"]
    ctx.cov["real_calls"] = stats["calls"]
    if stats["histories"] < 50 or ctx.cov["distinct_nontrivial"] < 10:
        raise Broken("vacuous run: %d histories, %d non-trivial" % (stats["histories"], ctx.cov["distinct_nontrivial"]))

    # (6) binding self-test (thorough): corrupted recordings must be rejected
    if T:
        selftest(ctx, traces[0])


def selftest(ctx, ev):
    cfg, hs = split_histories(ev)
    done = 0
    for h in hs:
        k = next((i for i, e in enumerate(h) if e["ev"] == "begin" and e.get("op") == "take" and e["act"]["k"] == "early"), None)
        k2 = next((i for i, e in enumerate(h) if e["ev"] == "begin" and e.get("op") == "pick"), None)
        if k is None or k2 is None:
            continue
        bad = [cfg] + [dict(e) for e in h]
        bad[k + 1]["act"] = NOOP                      # a refused request rewritten to let through
        _, r1, _ = validate(ctx, bad, "self1", max_rounds=1)
        bad2 = [cfg] + [dict(e) for e in h]
        bad2[k2 + 1]["out"] = (bad2[k2 + 1]["out"] + 1) % bad2[k2 + 1]["k"]     # another account
        _, r2, _ = validate(ctx, bad2, "self2", max_rounds=1)
        bad3 = [cfg] + [dict(e) for e in h]
        bad3[k + 1]["act"] = dict(bad3[k + 1]["act"], st=bad3[k + 1]["act"]["st"] + 1)   # another refusal status
        _, r3, _ = validate(ctx, bad3, "self3", max_rounds=1)
        if not (r1 and r2 and r3):
            raise Broken("self-test: a corrupted history was accepted (verdict %s, account %s, status %s)" % (bool(r1), bool(r2), bool(r3)))
        done += 1
        if done >= 2:
            break
    if not done:
        raise Broken("self-test found no history with a refusal and a rotation request")
    ctx.notes.append("self-test: rewritten verdict / account / status rejected in %d histories" % done)


def replay(ctx, path):
    obj = json.load(open(path))
    binary = ctx.build_harness("x07")
    rp = obj["replay"]
    if rp.get("crash"):
        for attempt in range(10):
            try:
                execute(ctx, binary, rp["scripts"], "replay")
            except EngineCrash as c:
                print("process crashed: %s" % c)
                print("VIOLATION property=X07 replay=%s" % path)
                return 1
        print("re-execution (10 runs) finished without a crash")
        return 0
    _, rej0, _ = validate(ctx, rp["trace"], "replay-rec", max_rounds=1)
    print("recorded history: %s by the specification" % ("REJECTED (no one-at-a-time order explains it)" if rej0 else "accepted"))
    for attempt in range(20 if rp.get("schedule_dependent") else 1):
        t = execute(ctx, binary, [rp["script"]], "replay")[0]
        _, rej, _ = validate(ctx, t, "replay", max_rounds=1)
        if rej:
            for e in rej[0]["hist"][:60]:
                print(json.dumps(e))
            print("VIOLATION property=X07 replay=%s" % path)
            print("   rejected at event %d: %s" % (rej[0]["at"], json.dumps(witness_of(rej[0])["event"])[:400]))
            return 1
    print("re-execution accepted by the specification" + (" (schedule-dependent case, 20 attempts)" if rp.get("schedule_dependent") else ""))
    return 0
