"""C20 - diagnosis fail-safe reacts only to stable health changes and never flaps.

spec:     specs/c20_diagnosis_failsafe  WatcherP (property: monitor over obs/react events), WatcherI (implementation-shaped:
          one action per iteration of StateChangeWatcher.run), WatcherTrace, WatcherITrace, GenC20
binding:  harness/cmd/c20 drives the real failsafe.NewStateChangeWatcher with a lock-step clock and a predicate that blocks on a
          channel (one observation per iteration); callbacks append react events with the clock value; `wire` mode drives
          NewDiagnosisFailsafeStateChangeWatcher (real statistics predicate over a loopback fake, real reverts on a real accessor)
"""
import json, os, socket
from vlib import Broken, read_ndjson, validate_history_trace, parallel, tlc_vh_lines, split_histories

SPEC = "c20_diagnosis_failsafe"
BUGS = ["count0", "nocooldown", "nostable", "periodfirst", "flat"]


def rand_history(rng, thorough):
    N = rng.choice([0, 1, 1, 2, 2, 3, 3, 4, 5])      # incl. the degenerate settings: N <= 1, stable period 0, cool-down 0
    iv = rng.choice([1, 2, 2, 3, 5])
    ms = rng.choice([0, 0, 1, iv, 2 * iv, 2 * iv + 1, 3 * iv, 9])
    cd = rng.choice([0, 0, 1, iv, 3 * iv + 1, 7, 12, 30])
    jmax, lmax = rng.choice([0, 0, 1, 2]), rng.choice([0, 0, 1, 3])
    h = [{"ev": "reset", "N": N, "ms": ms, "cd": cd, "iv": iv}]
    b = rng.random() < 0.3
    stick = rng.choice([0.5, 0.7, 0.85, 0.95])     # probability that the signal keeps its value: from flapping to calm
    for _ in range(rng.randint(10, 30 if not thorough else 50)):
        if rng.random() > stick:
            b = not b
        h.append({"ev": "step", "b": b, "j": rng.randint(0, jmax), "lat": rng.randint(0, lmax)})
    return h


def script_of(hist):
    """recorded history -> script (the inputs are carried by the obs events)"""
    out = [dict(hist[0])]
    for e in hist[1:]:
        if e["ev"] == "obs":
            out.append({"ev": "step", "b": e["b"], "j": e["j"], "lat": e["lat"]})
    return out


def nontrivial(h):
    """exercises the property: at least one reaction fired and at least one change of the observed value did not lead to a
    reaction (a run that was too short / too young / of the already stable value)"""
    reacts = sum(1 for e in h if e["ev"] == "react")
    obs = [e["b"] for e in h if e["ev"] == "obs"]
    changes = sum(1 for a, b in zip([True] + obs, obs) if a != b)
    return reacts >= 1 and changes > reacts


def witness_of(rej):
    h, at = rej["hist"], rej["at"]
    e = h[at]
    w = {"class": "event-not-allowed-by-spec", "settings": {k: h[0].get(k) for k in ("N", "ms", "cd", "iv")}, "event": e,
         "invariant": rej.get("invariant")}
    if e.get("ev") == "react":
        obs = [x for x in h[1:at] if x["ev"] == "obs"]
        run = 0
        for x in reversed(obs):
            if x["b"] == obs[-1]["b"]:
                run += 1
            else:
                break
        prev = [x for x in h[1:at] if x["ev"] == "react"]
        w.update({"class": "reaction-not-allowed", "run_length": run, "run_age": e["t"] - obs[-run]["t"] if run else None,
                  "previous_reaction": prev[-1] if prev else None})
    return w



def unreached(ctx, sd, out, modules, allow=()):
    """non-vacuity from `tlc -coverage 1`: expressions of the given modules that were never evaluated in the Next relation
    (count 0), minus lines whose source text contains one of `allow`."""
    import re
    bad = []
    for m in re.finditer(r"line (\d+), col (\d+) to line \d+, col \d+ of module (\w+): 0\s*$", out, re.M):
        ln, mod = int(m.group(1)), m.group(3)
        if mod not in modules:
            continue
        src = open(os.path.join(sd, mod + ".tla")).read().splitlines()[ln - 1]
        if not any(a in src for a in allow):
            bad.append("%s:%d %s" % (mod, ln, src.strip()))
    return bad

def execute(ctx, binary, scripts, tag):
    d = ctx.sub("run-" + tag)
    sp = os.path.join(d, "scripts.json")
    json.dump(scripts, open(sp, "w"))
    ctx.run_harness(binary, ["run", sp, d])
    return [read_ndjson(os.path.join(d, "trace-%03d.ndjson" % i)) for i in range(len(scripts))]


def execute_wired(ctx, binary, scripts, tag):
    """same scripts against NewDiagnosisFailsafeStateChangeWatcher: real predicate (HAProxy statistics from a loopback fake on
    localhost:9000), real reactions (reverts on a real TxnPoliciesAccessor).  None = port 9000 is taken on this machine."""
    d = ctx.sub("run-" + tag)
    sp = os.path.join(d, "scripts.json")
    json.dump(scripts, open(sp, "w"))
    s = socket.socket(); s.bind(("127.0.0.1", 0)); port = str(s.getsockname()[1]); s.close()
    p = ctx.run_harness(binary, ["wire", sp, d], env={"HAPROXY_MANAGE_ENDPOINTS_PORT": port, "LUNAR_HEALTHCHECK_PORT": port},
                        check=False, timeout=600)
    if p.returncode == 4:
        return None
    if p.returncode != 0:
        raise Broken("harness (wire) failed rc=%d\n%s" % (p.returncode, p.stderr[-3000:]))
    return [read_ndjson(os.path.join(d, "trace-%03d.ndjson" % i)) for i in range(len(scripts))]


def judge(ctx, binary, traces, tag, seen, exe=None):
    exe = exe or execute
    def one(it):
        i, ev = it
        return validate_history_trace(ctx, SPEC, "WatcherTrace", ev, tag="%s%d" % (tag, i))
    def one_i(it):
        i, ev = it
        return validate_history_trace(ctx, SPEC, "WatcherITrace", ev, tag="%si%d" % (tag, i), max_rounds=3)
    res = parallel(one, list(enumerate(traces)), n=4)
    res_i = parallel(one_i, list(enumerate(traces)), n=4)
    for (acc, rejected, _), (acc_i, rej_i, _), ev in zip(res, res_i, traces):
        _, hs = split_histories(ev)
        ctx.cov["traces_validated_against_impl"] += acc
        for h in hs:
            ctx.cov["evaluations"] += sum(1 for e in h if e["ev"] == "obs")
            key = json.dumps(h, sort_keys=True)
            if key not in seen:
                seen.add(key)
                if nontrivial(h):
                    ctx.cov["distinct_nontrivial"] += 1
        if rej_i and not rejected:
            ctx.cov["model_drift"] = True
            r = rej_i[0]
            ctx.notes.append("MODEL-DRIFT (%s): WatcherI does not predict %s after %s" % (
                tag, json.dumps(r["hist"][r["at"]]), json.dumps(r["hist"][0])))
        for rej in rejected:
            w = witness_of(rej)
            script = [{"histories": [script_of(rej["hist"])]}]
            t2 = exe(ctx, binary, script, "%s-repro" % tag)[0]
            _, r2, _ = validate_history_trace(ctx, SPEC, "WatcherTrace", t2, tag="%s-repro" % tag)
            if not r2:
                raise Broken("rejection not reproduced (%s): %s" % (tag, json.dumps(w)))
            ctx.violation(w, {"script": script, "trace": [rej["config"]] + rej["hist"], "rejected_at": rej["at"]})


def chunks(xs, n):
    k = max(1, (len(xs) + n - 1) // n)
    return [xs[i:i + k] for i in range(0, len(xs), k)]


def run(ctx):
    T = ctx.thorough
    binary = ctx.build_harness("c20")
    sd = ctx.spec_dir(SPEC)
    ctx.cov["rule"] = ("cases = every boolean observation sequence of length 8 (thorough: 12) for 24 settings (N 0..3, stable period, "
                       "cool-down), generated by TLC from WatcherI + TLC random walks with late wake-ups / slow predicate + seeded random "
                       "scripts (flapping to calm signals, random settings incl. check interval); non-trivial = at least one reaction "
                       "fired and at least one change of the observed value did not lead to a reaction; distinct by (settings, events)")
    ctx.cov["checker_cmd"] = "tlc -config MC_small.cfg MC_C20.tla ; tlc -config MC_jitter.cfg MC_C20.tla ; tlc -config WatcherTrace.cfg WatcherTrace.tla"
    ctx.cov["trusted_base"] = ["TLC 1.8", "CommunityModules Json", "Go toolchain", "harness StepClock (lock-step clock.Clock)",
                               "harness/cmd/c20 (events are appended by the predicate / the callbacks themselves with the clock value)"]
    ctx.assumptions += ["1 tick = 1 s; the watcher is the only user of its clock",
                        "the statement constrains reactions only: P neither obliges the watcher to react nor to stop observing during the cool-down",
                        "an observation is stamped with the instant the predicate returns",
                        "Stable and the unconditional flapping clause combine to: a reaction needs max(N, 2) equal consecutive observations "
                        "(a value read once cannot be told from a signal that changes at every check); see the head of WatcherP.tla"]

    # (1) exhaustive: all boolean sequences up to length 12 for all small settings; late wake-ups on a shorter bound;
    #     the monitor itself; every broken variant refuted; witnesses reachable
    ctx.tlc_exhaustive(sd, "MC_C20", "MC_small.cfg", timeout=900, label="I=>P, sequences <= 12, exact wake-ups", workers=4)
    ctx.tlc_exhaustive(sd, "MC_C20", "MC_jitter.cfg" if not T else "MC_jitter_large.cfg", timeout=1500,
                       label="I=>P, late wake-ups / slow predicate", workers=8 if not T else None)
    ctx.tlc_exhaustive(sd, "MC_C20P", "MC_P.cfg", timeout=600, label="monitor sanity (NoFlap follows from Stable)", workers=2)
    jobs = [("MC_bug_%s.cfg" % b, b, True) for b in BUGS] + [("MC_wit_healthy.cfg", "wit-healthy", True), ("MC_wit_third.cfg", "wit-third", True)]
    def mc(job):
        return ctx.tlc(sd, "MC_C20", job[0], workers=2, timeout=600, label="expected violated: %s" % job[1])
    for job, r in zip(jobs, parallel(mc, jobs, n=4)):
        if r.violated is None:
            raise Broken("%s is not refuted / not reachable (vacuous check): %r" % (job[1], r))

    if T:
        r = ctx.tlc(sd, "MC_C20", "MC_small.cfg", workers=4, timeout=900, extra=["-coverage", "1"], label="coverage (non-vacuity)", count=False)
        bad = unreached(ctx, sd, r.out, ("WatcherI", "WatcherP"))
        if not r.ok or bad:
            raise Broken("vacuous exploration: unreached parts of the model: %s %r" % (bad[:5], r))
        ctx.notes.append("coverage: every expression of WatcherI/WatcherP reached by the exhaustive run")

    seen = set()
    # (2) spec -> code: TLC enumerates the scripts of every behaviour of WatcherI; replayed, judged by P, compared with I
    g = ctx.tlc(sd, "GenC20", "GenC20.cfg" if not T else "GenC20_12.cfg", workers=1, timeout=900, label="case enumeration", heap="6g")
    cases = tlc_vh_lines(g.out)
    want = 24 * (2 ** (8 if not T else 12))
    if len(cases) != want:
        raise Broken("case enumeration produced %d scripts, expected %d: %s" % (len(cases), want, g.out[-1500:]))
    g2 = ctx.tlc(sd, "GenC20", "GenC20_jit.cfg", workers=1, simulate="num=%d" % (40 if not T else 400), depth=20,
                 extra=["-seed", str(ctx.seed)], timeout=900, label="walk generation (late wake-ups)")
    walks = tlc_vh_lines(g2.out)
    if len(walks) < 20:
        raise Broken("walk generation produced %d scripts: %s" % (len(walks), g2.out[-1500:]))
    scripts = [{"histories": c} for c in chunks(cases, 6 if not T else 16)] + [{"histories": walks}]
    traces = execute(ctx, binary, scripts, "gen")
    ctx.cov["exhaustive"] = True
    ctx.sample({"kind": "tlc-case-replayed", "events": traces[0][1:14]})
    judge(ctx, binary, traces, "gen", seen)
    ctx.log("replayed %d enumerated cases + %d walks" % (len(cases), len(walks)))

    # (3) code -> spec: random scripts
    nscripts, nh = (4, 60) if not T else (12, 250)
    scripts = [{"histories": [rand_history(ctx.rng, T) for _ in range(nh)]} for _ in range(nscripts)]
    traces = execute(ctx, binary, scripts, "rand")
    ctx.sample({"kind": "recorded-trace", "events": traces[0][1:16]})
    judge(ctx, binary, traces, "rand", seen)

    # (3b) the wiring: NewDiagnosisFailsafeStateChangeWatcher with the real predicate and the real reverts on a real accessor;
    #      a reaction is what the accessor shows (new current version, diagnosis-free or full)
    wired_scripts = [{"histories": [rand_history(ctx.rng, T) for _ in range(30 if not T else 150)] +
                      ctx.rng.sample(cases, 40 if not T else 300)}]
    wired = execute_wired(ctx, binary, wired_scripts, "wire")
    if wired is None:
        ctx.notes.append("wiring part skipped: localhost:9000 (fixed address of the HAProxy statistics page) is not available")
    else:
        nre = sum(1 for e in wired[0] if e.get("ev") == "react")
        if nre == 0:
            raise Broken("wired run saw no reaction at all")
        ctx.sample({"kind": "recorded-trace-wired", "events": wired[0][1:12]})
        judge(ctx, binary, wired, "wire", seen, exe=execute_wired)
        ctx.notes.append("wiring: %d reverts observed on the real accessor, all allowed by WatcherP" % nre)

    # (4) binding self-test (thorough)
    if T:
        ev = traces[0]
        k = next(i for i, e in enumerate(ev) if e.get("ev") == "react" and e["k"] == "healthy")
        bad = [dict(e) for e in ev]; bad[k]["k"] = "unhealthy"
        _, rej, _ = validate_history_trace(ctx, SPEC, "WatcherTrace", bad, tag="selftest1", max_rounds=1)
        # dropping the observation just before a reaction of a history with N >= 2 and no slack leaves the run too short
        rej2 = None
        _, hs = split_histories(ev)
        for h in hs:
            for i, e in enumerate(h):
                if e["ev"] == "react" and h[0]["N"] >= 2:
                    obs = [x for x in h[1:i] if x["ev"] == "obs"]
                    run = 0
                    for x in reversed(obs):
                        if x["b"] == obs[-1]["b"]:
                            run += 1
                        else:
                            break
                    if run == h[0]["N"]:
                        drop = [ev[0]] + h[:i - 1] + h[i:]
                        _, rej2, _ = validate_history_trace(ctx, SPEC, "WatcherTrace", drop, tag="selftest2", max_rounds=1)
                        break
            if rej2 is not None:
                break
        if not rej or not rej2:
            raise Broken("self-test: corrupted trace accepted (flip=%s drop=%s)" % (bool(rej), rej2 if rej2 is None else bool(rej2)))
        ctx.notes.append("self-test: flipped reaction kind rejected, dropped observation before a reaction rejected")


def replay(ctx, path):
    obj = json.load(open(path))
    binary = ctx.build_harness("c20")
    t = execute(ctx, binary, obj["replay"]["script"], "replay")[0]
    acc, rej, _ = validate_history_trace(ctx, SPEC, "WatcherTrace", t, tag="replay")
    for e in t:
        print(json.dumps(e))
    if rej:
        print("VIOLATION property=C20 replay=%s" % path)
        print("   rejected at event %d: %s" % (rej[0]["at"], json.dumps(rej[0]["hist"][rej[0]["at"]])))
        return 1
    print("replay accepted by the specification")
    return 0
