"""C08 - a configuration update is all-or-nothing.

spec:     specs/c08_config_update  CfgUpdateP (property monitor), CfgUpdateI (implementation-shaped model of the
          handler, Backup/Restore, the engine switch, one injected failure, probe transactions), MC_C08 (bounded
          instance), GenC08 (case generation), CfgTraceP / CfgTraceI (trace validation)
binding:  harness/cmd/c08 drives the real PUT /configuration and PUT /apply_flows handlers of
          routing.HandlingDataManager (mux + in-process request) against a loopback fake of the HAProxy admin API,
          injects failures through verifhook.Fault (fs.store, fs.remove, hdm.initialize) and the fake (n-th call
          answers 500), runs probe transactions through the active engine before / inside / after the switch
          (hooks hdm.published, hdm.initialized), records SHA-256 + abstract contents of the configuration tree.
"""
import json, os, random, re
from vlib import Broken, read_ndjson, write_ndjson, validate_history_trace, parallel, tlc_vh_lines, split_histories

SPEC = "c08_config_update"
FLOWS = ["flows/a.yaml", "flows/b.yaml", "flows/c.yaml"]
GW, MX = "gateway_config.yaml", "metrics.yaml"
REPORTED = set()       # witness classes already reproduced and reported in this run
UNREPRODUCED = []      # rejections that no re-execution showed again
NESTED_OLD = {"path_params/team/np.yaml": "p1", "flows/team/n.yaml": "v1", "quotas/team/nq.yaml": "q1"}
NESTED_NEW = {"path_params/team/np.yaml": "p2", "flows/team/n.yaml": "v2", "quotas/team/nq.yaml": "q2"}
P_EVENTS = ("reset", "probe", "call", "status", "fault", "reply")     # what the property observes


# ------------------------------------------------------------------------------------------------ cases
def case_key(c):
    return json.dumps({k: c.get(k) for k in ("endpoint", "method", "disk", "payload", "raw", "badb64", "fault", "conc")},
                      sort_keys=True)


def from_model(o):
    """a case printed by GenC08 -> harness case"""
    c = o["case"]
    out = {"endpoint": c["endpoint"], "method": c["method"],
           "disk": {k: v for k, v in c["disk"].items() if v != "none"},
           "payload": dict(c["payload"]) if isinstance(c["payload"], dict) else {},
           "badb64": sorted(c["badb64"])}
    if not c["decodable"]:
        out["raw"] = "{\"flows\": not json"
    if c["fault"]["point"] != "none":
        out["fault"] = {"point": c["fault"]["point"], "nth": c["fault"]["nth"]}
    return out


def kind_of(c):
    """bookkeeping only: the payload kind of the statement's quantifier"""
    if c.get("raw"):
        return "undecodable"
    if c.get("badb64"):
        return "bad-base64"
    pl = c.get("payload", {})
    tags = set(pl.values())
    hollow = {"e0", "ws", "cm"}        # placeholders: flows and top-level quota files must have content, the gateway config may be empty
    if tags & {"bad", "junk"} or any(v in hollow and "/team/" not in k and (k.startswith("flows/") or k.startswith("quotas/"))
                                     for k, v in pl.items()):
        return "fails-validation"
    if pl.get(GW) in ("ws", "cm"):
        return "fails-gateway-config"
    if "gbad" in tags:
        return "fails-gateway-config"
    if "mbad" in tags:
        return "fails-metrics-reload"
    if not pl:
        return "empty"
    if c.get("endpoint") == "apply_flows" and any(k not in pl for k, v in c["disk"].items() if k.startswith("flows/")):
        return "valid-remove"
    if any(k not in c["disk"] for k in pl):
        return "valid-add"
    return "valid-change"


def rand_case(rng, thorough, endpoints):
    """seeded random case over a wider universe than the exhaustive model: three flows, quota and path-parameter files,
    several invalid files at once, junk contents, v3, concurrent probe goroutines."""
    disk = {MX: "m1"} if rng.random() < 0.8 else {}      # without the user's file the built-in default metrics file is in force
    for f in FLOWS:
        if rng.random() < 0.6:
            disk[f] = rng.choice(["v1", "v1", "v3"])
    if not any(f in disk for f in FLOWS):
        disk[rng.choice(FLOWS)] = "v1"
    if rng.random() < 0.5:
        disk[GW] = "g1"
    if rng.random() < 0.3:
        disk["quotas/q.yaml"] = "q1"
    if rng.random() < 0.3:
        disk["path_params/p.yaml"] = "p1"
    for sf, tag in (("quotas/a.yaml", "q1"), ("path_params/a.yaml", "p1")):     # the same base name in several directories
        if rng.random() < 0.3:
            disk[sf] = tag
    if rng.random() < 0.25:                            # legal placeholders: empty gateway config / path-parameter file
        disk[GW] = "e0"
    if rng.random() < 0.15:
        disk["path_params/p.yaml"] = "e0"
    for nf, tag in NESTED_OLD.items():                # files in sub-directories (path parameters are loaded recursively)
        if rng.random() < 0.25:
            disk[nf] = tag if "path_params" in nf or rng.random() < 0.7 else rng.choice(["e0", "ws", "cm"])
    ep = rng.choice(endpoints)
    c = {"endpoint": ep, "method": "PUT", "disk": disk, "payload": {}, "badb64": []}
    x = rng.random()
    if x < 0.05:
        c["raw"] = rng.choice(["{not json", "", "[1,2", "\"flows\""])
        return c
    pl = {}
    for f in FLOWS:
        y = rng.random()
        if y < 0.45:
            pl[f] = rng.choice(["v2", "v2", "v2", "bad", "junk"] if rng.random() < 0.5 else ["v2"])
    if rng.random() < 0.35:
        pl[GW] = rng.choice(["g2", "g2", "gbad"])
    if ep == "configuration" and rng.random() < 0.35:
        pl[MX] = rng.choice(["m2", "m2", "mbad"])
    if rng.random() < 0.25:
        pl["quotas/q.yaml"] = "q2"
    if rng.random() < 0.2:
        pl["path_params/p.yaml"] = "p2"
    for sf, tag in (("quotas/a.yaml", "q2"), ("path_params/a.yaml", "p2")):
        if rng.random() < 0.2:
            pl[sf] = tag
    if rng.random() < 0.12:                            # placeholders in payloads, for every kind of file
        k = rng.choice([GW, GW, "quotas/q.yaml", "path_params/p.yaml", "flows/b.yaml", "flows/team/n.yaml", "quotas/team/nq.yaml"])
        # (a single-file kind cannot be pushed empty: an empty string in the payload means "not part of this update")
        pl[k] = "e0" if k == "path_params/p.yaml" else rng.choice(["ws", "cm"]) if k == GW else rng.choice(["e0", "e0", "ws", "cm"])
    for nf, tag in NESTED_NEW.items():
        if rng.random() < 0.2:
            pl[nf] = tag
    if ep == "apply_flows" and not any(f in pl for f in FLOWS):
        pl[rng.choice(FLOWS)] = "v2"
    c["payload"] = pl
    if pl and rng.random() < 0.08:
        c["badb64"] = sorted(rng.sample(sorted(pl), rng.randint(1, min(2, len(pl)))))
    if rng.random() < 0.06:
        c["method"] = rng.choice(["POST", "GET", "DELETE", "PATCH"])
    y = rng.random()
    if y < 0.55:
        pt = rng.choice(["fs.store", "fs.store", "fs.remove", "haproxy", "haproxy", "hdm.initialize"])
        c["fault"] = {"point": pt, "nth": rng.randint(1, 2 if pt == "hdm.initialize" else 8)}
    if rng.random() < (0.15 if thorough else 0.08):
        c["conc"] = rng.choice([1, 2, 4])
    return c


def rand_history(rng, thorough, endpoints):
    """a history of 2-4 updates issued to the same gateway one after the other (tree, engine and handler state carried over):
    success that changes / removes files then failures at every step, failure then success, the endpoints alternating.
    Every update but the last is one whose roll-back cannot be hit by the injected failure (valid payload, or no failure)."""
    n = rng.choice([2, 2, 3, 3, 4])
    hist = []
    for j in range(n):
        last = j == n - 1
        for _ in range(50):
            c = rand_case(rng, thorough, endpoints)
            c.pop("conc", None)
            if j == 0 and rng.random() < 0.6:        # start with an update that is meant to succeed, often one that drops files
                c["endpoint"] = rng.choice(["apply_flows", "apply_flows", "configuration"])
                c.pop("fault", None); c.pop("raw", None); c["badb64"] = []; c["method"] = "PUT"
                c["payload"] = {k: ("v2" if k.startswith("flows/") else v) for k, v in c["payload"].items()
                                if v not in ("gbad", "mbad") and not (c["endpoint"] == "apply_flows" and k == MX)}
                if not any(k.startswith("flows/") for k in c["payload"]):
                    c["payload"][rng.choice(FLOWS)] = "v2"
            invalid = bool(c.get("raw") or c.get("badb64") or c.get("method", "PUT") != "PUT" or
                           set(c["payload"].values()) & {"bad", "junk", "gbad", "mbad", "e0", "ws", "cm"})
            if last or not (invalid and c.get("fault")):
                break
        if j > 0:
            c["disk"] = {}
        hist.append(c)
    return hist


def histories_from_model(outs, maxn):
    """TLC-generated histories: the terminal states of the last update carry the earlier updates in `prev`."""
    hs = {}
    for o in outs:
        if o["n"] < 2:
            continue
        seq = [from_model({"case": b}) for b in o["prev"]] + [from_model(o)]
        for c in seq[1:]:
            c["disk"] = {}
        hs.setdefault(json.dumps([case_key(c) for c in seq]), seq)
    return [hs[k] for k in sorted(hs)]


# ------------------------------------------------------------------------------------------------ execution
def run_batches(ctx, binary, batches, tag, fname="trace.ndjson"):
    """one child process per batch (the engine reads its ports at package init; NewHandlingDataManager costs 3 s)."""
    def one(it):
        i, cases = it
        d = ctx.sub("run-%s-%d" % (tag, i))
        for k, c in enumerate(cases):
            c["id"] = k + 1
        json.dump({"cases": cases}, open(os.path.join(d, "cases.json"), "w"))
        for attempt in range(3):
            p = ctx.run_harness(binary, ["run", os.path.join(d, "cases.json"), d], cwd=ctx.sub("cwd-%s-%d" % (tag, i)),
                                timeout=900, check=False)
            if p.returncode != 4:          # 4 = port clash with another process: try again with another port
                break
        if p.returncode != 0:
            raise Broken("harness c08 failed rc=%d (%s batch %d)\nstderr: %s" % (p.returncode, tag, i, p.stderr[-3000:]))
        return read_ndjson(os.path.join(d, fname))
    return parallel(one, list(enumerate(batches)), n=min(8, len(batches)) or 1)


def batches_of(units, n):
    """distribute units (a unit = a history: list of updates issued one after the other to the same gateway; a single
    update is a history of length 1) over n processes; a history is never split and keeps its order."""
    units = [u if isinstance(u, list) else [u] for u in units]
    n = max(1, min(n, len(units)))
    out = [[] for _ in range(n)]
    for ui, u in enumerate(units):
        for j, c in enumerate(u):
            c["unit"], c["pos"], c["hlen"] = ui, j, len(u)
            c["keep"] = j > 0
            out[ui % n].append(c)
    return out


def project_p(events):
    return [e for e in events if e["ev"] in P_EVENTS or e["ev"] == "config"]


def case_of_history(h, cases_by_id):
    return cases_by_id[h[0]["case"]]


def nontrivial(h):
    """the update failed after at least one file had been written (DESIGN §10 rule for C08)."""
    wrote = False
    for e in h:
        if e["ev"] == "fs" and e["op"] == "store":
            wrote = True
        if e["ev"] == "reply":
            return wrote and not e["ok"]
    return False


def witness_of(rej, case):
    h, at = rej["hist"], rej["at"]
    e = h[min(at, len(h) - 1)]
    inv = rej.get("invariant") or "rejected"
    rep = next((x for x in h if x["ev"] == "reply"), {})
    case = dict(case, disk=h[0].get("disk", case.get("disk", {})))       # for a later update of a history: the tree it started from
    return {"class": inv, "endpoint": case["endpoint"], "method": case.get("method", "PUT"), "kind": kind_of(case),
            "fault": (case.get("fault") or {"point": "none"})["point"], "status": rep.get("code"),
            "at_event": e["ev"], "concurrent": bool(case.get("conc")),
            "history_len": case.get("hlen", 1), "position": case.get("pos", 0) + 1}


def clean(c):
    return {k: v for k, v in c.items() if k not in ("id", "unit", "pos", "hlen")}


def reproduce(ctx, binary, batch, c, tag):
    """re-execute in a fresh process and let TLC judge again: first the history the rejected update belongs to, on its own;
    if that is accepted, everything this process had executed up to and including that history (same instance, same order:
    the rejection may depend on what earlier updates left in the handler).  Go's map iteration order differs from run to
    run, hence a few attempts each.  Returns (witness, replay object) or None."""
    unit = [x for x in batch if x["unit"] == c["unit"]]
    last = max(i for i, x in enumerate(batch) if x["unit"] == c["unit"])
    plans = [("history", unit, 3 if not any(x.get("conc") for x in unit) else 20)]
    if last + 1 > len(unit):
        plans.append(("process-prefix", batch[: last + 1], 3))
    for scope, seq, attempts in plans:
        seq = [dict(x) for x in seq]
        want = {i + 1 for i, x in enumerate(seq) if x["unit"] == c["unit"]}
        for attempt in range(attempts):
            t2 = run_batches(ctx, binary, [seq], "%s-repro" % tag)[0]
            a2, r2, _ = validate_history_trace(ctx, SPEC, "CfgTraceP", project_p(t2), tag="%s-repro" % tag, max_rounds=3)
            r2 = [r for r in r2 if r["hist"][0]["case"] in want]
            if r2:
                cc = seq[r2[0]["hist"][0]["case"] - 1]
                w = witness_of(r2[0], cc)
                w["needs_earlier_updates_of_process"] = scope == "process-prefix"
                return w, {"cases": [clean(x) for x in seq], "rejected_case": r2[0]["hist"][0]["case"], "scope": scope,
                           "trace": t2, "clause": w["class"]}
    return None


def judge(ctx, binary, traces, batches, tag, seen):
    """TLC validates every recorded trace against the property monitor; each rejection is re-executed in a fresh process
    and judged again before it is reported."""
    def one(it):
        i, ev = it
        return validate_history_trace(ctx, SPEC, "CfgTraceP", project_p(ev), tag="%s%d" % (tag, i), max_rounds=4)
    res = parallel(one, list(enumerate(traces)), n=5)
    for bi, ((acc, rejected, rounds), ev) in enumerate(zip(res, traces)):
        cfg, hs = split_histories(ev)
        ids = {k + 1: c for k, c in enumerate(batches[bi])}
        ctx.cov["traces_validated_against_impl"] += acc
        for h in hs:
            ctx.cov["evaluations"] += 1
            c = ids[h[0]["case"]]
            key = case_key(dict(c, disk=h[0]["disk"]))
            if key not in seen:
                seen.add(key)
                if nontrivial(h):
                    ctx.cov["distinct_nontrivial"] += 1
            if c.get("pos", 0) > 0:
                ctx.cov["history_updates"] = ctx.cov.get("history_updates", 0) + 1
        for rej in rejected:
            c = ids[rej["hist"][0]["case"]]
            w = witness_of(rej, c)
            sig = json.dumps(w, sort_keys=True)
            if sig in REPORTED or len(ctx.violations) >= 6:      # a handful of reproduced witnesses is enough for a verdict
                continue
            REPORTED.add(sig)
            r = reproduce(ctx, binary, batches[bi], c, "%s%d" % (tag, bi))
            if r is None:
                UNREPRODUCED.append(w)        # must not hide the reproduced ones: decided at the end of the run
                ctx.log("rejection not reproduced: %s" % json.dumps(w))
                continue
            ctx.violation(r[0], r[1])


# ------------------------------------------------------------------------------------------------ overlapping updates
CONC_KINDS = [{}, {"flows/a.yaml": "v2"}, {"flows/b.yaml": "v3"}, {"flows/a.yaml": "v2", "flows/b.yaml": "v3"},
              {"flows/a.yaml": "bad"}, {"flows/b.yaml": "v3", "metrics.yaml": "mbad"}, {"flows/a.yaml": "v2", "metrics.yaml": "mbad"},
              {"flows/c.yaml": "v2", "gateway_config.yaml": "gbad"}, {"flows/b.yaml": "v3", "path_params/team/np.yaml": "p2"}]


def conc_from_model(o):
    """a quiescent state printed by MC_Conc (EmitC): old tree, one update per process, the order in which the processes
    were let go at their yield points"""
    ups = []
    for k in sorted(o["ups"]):
        u = o["ups"][k]
        ups.append({"key": k, "endpoint": u["endpoint"], "payload": dict(u["payload"]) if isinstance(u["payload"], dict) else {}})
    return {"endpoint": "conc", "disk": {k: v for k, v in o["disk"].items() if v != "none"}, "updates": ups, "sched": list(o["sched"])}


def rand_conc(rng):
    """2-3 overlapping updates with a random order of release at the yield points"""
    disk = {MX: "m1", "flows/a.yaml": "v1"}
    if rng.random() < 0.5:
        disk["flows/b.yaml"] = "v1"
    if rng.random() < 0.3:
        disk["path_params/team/np.yaml"] = "p1"
    keys = ["A", "B", "C"][: rng.choice([2, 2, 3])]
    ups = []
    for k in keys:
        ep = rng.choice(["configuration", "configuration", "apply_flows"])
        pl = dict(rng.choice(CONC_KINDS))
        if ep == "apply_flows":
            pl.pop(MX, None)
            if not any(f.startswith("flows/") and "/team/" not in f for f in pl):
                pl["flows/a.yaml"] = "v2"
        ups.append({"key": k, "endpoint": ep, "payload": pl})
    return {"endpoint": "conc", "disk": disk, "updates": ups, "sched": [rng.choice(keys) for _ in range(rng.randint(6, 40))]}


def conc_witness(rej, c):
    h = rej["hist"]
    return {"class": rej.get("invariant") or "rejected", "kind": "overlapping-updates", "n_updates": len(c["updates"]),
            "codes": {e["u"]: e["code"] for e in h if e["ev"] == "reply"},
            "endpoints": sorted({u["endpoint"] for u in c["updates"]})}


def judge_conc(ctx, binary, traces, batches, tag):
    """recorded overlapping updates -> TLC (CfgConcTrace, property monitor CfgConcP); a rejection is re-executed (the same
    schedule in a fresh process) and judged again before it is reported"""
    def one(it):
        i, ev = it
        return validate_history_trace(ctx, SPEC, "CfgConcTrace", ev, tag="%s%d" % (tag, i), max_rounds=4)
    for bi, ((acc, rejected, rounds), ev) in enumerate(zip(parallel(one, list(enumerate(traces)), n=4), traces)):
        ids = {k + 1: c for k, c in enumerate(batches[bi])}
        ctx.cov["traces_validated_against_impl"] += acc
        cfg, hs = split_histories(ev)
        for h in hs:
            ctx.cov["evaluations"] += sum(1 for e in h if e["ev"] == "call")
            ctx.cov["overlapping_cases"] = ctx.cov.get("overlapping_cases", 0) + 1
            if sum(1 for e in h if e["ev"] == "reply" and e["code"] != 226) >= 2:
                ctx.cov["overlapping_cases_both_ran"] = ctx.cov.get("overlapping_cases_both_ran", 0) + 1
        for rej in rejected:
            c = ids[rej["hist"][0]["case"]]
            w = conc_witness(rej, c)
            sig = json.dumps([w["class"], w["n_updates"], w["endpoints"]])
            if sig in REPORTED or len(ctx.violations) >= 6:
                continue
            REPORTED.add(sig)
            found = None
            for attempt in range(4):
                t2 = run_batches(ctx, binary, [[clean(c)]], "%s-repro" % tag, fname="trace-conc.ndjson")[0]
                a2, r2, _ = validate_history_trace(ctx, SPEC, "CfgConcTrace", t2, tag="%s-repro" % tag, max_rounds=1)
                if r2:
                    found = (conc_witness(r2[0], c), t2)
                    break
            if found is None:
                UNREPRODUCED.append(w)
                ctx.log("rejection not reproduced: %s" % json.dumps(w))
                continue
            ctx.violation(found[0], {"cases": [clean(c)], "conc": True, "trace": found[1], "clause": found[0]["class"]})


def drift_check(ctx, traces, batches, tag, stats):
    """bind the implementation-shaped model to the code: every recorded event sequence (sequential cases) must be a
    behaviour of CfgUpdateI.  A mismatch is model drift (DESIGN §2.5), never a violation."""
    def one(it):
        i, ev = it
        cfg, hs = split_histories(ev)
        ids = {k + 1: c for k, c in enumerate(batches[i])}
        hs = [h for h in hs if not ids[h[0]["case"]].get("conc")]
        if not hs:
            return 0, []
        flat = [cfg] + [e for h in hs for e in h]
        acc, rej, _ = validate_history_trace(ctx, SPEC, "CfgTraceI", flat, tag="I%s%d" % (tag, i), max_rounds=3)
        return acc, [(ids[r["hist"][0]["case"]], r) for r in rej]
    for acc, rej in parallel(one, list(enumerate(traces)), n=5):
        stats["accepted"] += acc
        for c, r in rej:
            stats["rejected"] += 1
            if len(stats["examples"]) < 3:
                h, at = r["hist"], r["at"]
                stats["examples"].append({"case": {k: v for k, v in c.items() if k != "id"},
                                          "unexplained_event": h[min(at, len(h) - 1)], "index": at})


# ------------------------------------------------------------------------------------------------ run
def run(ctx):
    T = ctx.thorough
    os.environ.setdefault("JAVA_TOOL_OPTIONS", "-Xmx2g")      # many TLC processes run side by side: bound each JVM
    binary = ctx.build_harness("c08")
    sd = ctx.spec_dir(SPEC)
    import threading
    jvms, tlc0 = threading.BoundedSemaphore(4), ctx.tlc        # at most four TLC processes at a time
    def tlc_capped(*a, **kw):
        with jvms:
            return tlc0(*a, **kw)
    ctx.tlc = tlc_capped
    ctx.cov["rule"] = ("case = (old tree, payload, verb, endpoint, one injected failure); cases = terminal states of the bounded "
                       "TLA+ model (every payload kind x every failure step) + seeded random cases over a wider universe; "
                       "+ histories of 2-4 updates on one gateway (TLC walks / enumeration of the two-update model, seeded random); "
                       "non-trivial = the update failed after at least one file had been written; distinct by (tree before, case)")
    ctx.cov["checker_cmd"] = ("tlc -config MC_quick.cfg|MC_thorough.cfg|MC_thorough3.cfg MC_C08.tla ; tlc -config MC_nv_<flag>.cfg MC_C08.tla ; "
                              "tlc -config GenC08.cfg|GenC08_full.cfg GenC08.tla ; tlc -config CfgTraceP.cfg CfgTraceP.tla ; "
                              "tlc -config CfgTraceI.cfg CfgTraceI.tla")
    ctx.cov["trusted_base"] = ["TLC 1.8", "CommunityModules Json", "Go toolchain",
                               "loopback fake of the HAProxy admin / health API (harness/cmd/c08)",
                               "probe projection: header written by the flow's TransformAPICall processor = version of that flow file",
                               "SHA-256 / content table of the tree computed by the harness"]
    ctx.assumptions += ["one injected failure per update (the n-th occurrence of a fault point fails once)",
                        "a failure injected into the roll-back itself (after the handler signalled failure) exempts the case",
                        "fs.store fails after the old file was removed and before the new one is created",
                        "overlapping updates are interleaved at the yield points (start, before each file operation, hdm.initialized, "
                        "hdm.published), not inside the code between two of them; they carry no injected failure",
                        "in a history every update is judged against the tree its predecessor left; a history ends after an exempt update"]
    endpoints = ["configuration", "configuration", "apply_flows"]

    # (1) exhaustive: I => P on the bounded instance; every deviation flag must be refuted (non-vacuity)
    # (2) spec -> code: TLC enumerates the cases (terminal states of the model without probes) with predicted outcomes
    def stage(job):
        kind, arg = job
        if kind == "mc":
            return ctx.tlc_exhaustive(sd, "MC_C08", arg, timeout=1500, heap="3g", workers=(8 if T else 4),
                                      label="I=>P, all cases x all interleavings of probes")
        if kind == "nv":
            return ctx.tlc(sd, "MC_C08", "MC_nv_%s.cfg" % arg, workers=1, timeout=600, heap="1g",
                           label="non-vacuity: %s must be refuted" % arg)
        if kind == "rand":     # the seeded random cases do not depend on TLC's output: record them meanwhile
            return run_batches(ctx, binary, arg, "rand")
        if kind == "cmc":      # overlapping updates: the lock as an explicit variable, every interleaving at the yield points
            return ctx.tlc_exhaustive(sd, "MC_Conc", arg, timeout=900, heap="2g", workers=4, label="overlapping updates: I=>P")
        if kind == "cnv":
            return ctx.tlc(sd, "MC_Conc", arg, workers=1, timeout=600, heap="1g", label="non-vacuity: UnlockBeforeReload must be refuted")
        if kind == "csim":     # schedules of overlapping updates: walks of the model (arg[0]) through the yield points
            return ctx.tlc(sd, "MC_Conc", arg[0], workers=1, timeout=600, heap="2g", simulate="num=%d" % arg[1], depth=300,
                           extra=["-seed", str(ctx.seed)], label="schedule generation (walks)")
        if kind == "sim":      # histories: random walks of the model through 2..4 consecutive updates
            cfgname, num = arg
            return ctx.tlc(sd, "GenC08", cfgname, workers=1, timeout=600, heap="2g", simulate="num=%d" % num, depth=600,
                           extra=["-seed", str(ctx.seed)], label="history generation (walks)")
        return ctx.tlc(sd, "GenC08", arg, workers=(4 if T else 2), timeout=900, heap="3g", label="case generation")
    flags = ["RestoreWrongDirection", "PublishBeforeInit", "ContinueAfter405", "ApplyNoBackup", "MetricsToDefaultPath",
             "NoReloadAfterRestore", "StaleBackup", "BackupNotRecursive", "CleanSkips"]
    nr, nrh = (100, 50) if not T else (3000, 1200)
    rc = [rand_case(ctx.rng, T, endpoints) for _ in range(nr)]
    rh = [rand_history(ctx.rng, T, endpoints) for _ in range(nrh)]
    rbatches = batches_of(rc + rh, 4 if not T else 8)
    jobs = [("mc", "MC_quick.cfg" if not T else "MC_thorough.cfg"), ("mc", "MC_hist.cfg" if not T else "MC_hist3.cfg")] + \
           [("nv", f) for f in flags] + \
           [("rand", rbatches), ("gen", "GenC08.cfg" if not T else "GenC08_full.cfg"),
            ("sim", ("GenC08_hist.cfg", 120) if not T else ("GenC08_hist4.cfg", 500)),
            ("mc", "MC_nested.cfg" if not T else "MC_nested_full.cfg"), ("gen", "GenC08_nested.cfg"), ("gen", "GenC08_names.cfg"),
            ("cmc", "MC_Conc.cfg" if not T else "MC_Conc3.cfg"), ("cnv", "MC_Conc_nv.cfg"),
            ("csim", ("GenConc.cfg", 40 if not T else 400)), ("csim", ("GenConc_dev.cfg", 300 if not T else 3000))]
    if T:
        jobs += [("mc", "MC_thorough3.cfg"), ("gen", "GenC08_mx.cfg"), ("gen", "GenC08_thorough.cfg"), ("gen", "GenC08_hist.cfg")]
    res = parallel(stage, jobs, n=len(jobs))
    byjob = {(k, a if isinstance(a, str) else (a[0] if isinstance(a, tuple) else "batches")): r for (k, a), r in zip(jobs, res)}
    for (kind, arg), r in zip(jobs, res):
        if kind == "nv" and r.violated is None:
            raise Broken("model cannot tell deviation %s from the property (vacuous refinement check): %r" % (arg, r))
        if kind == "cnv" and r.violated is None:
            raise Broken("overlapping-updates model cannot tell an early unlock from the property: %r" % r)
        if kind in ("gen", "sim", "csim") and not r.ok:
            raise Broken("case generation %s failed: %r" % (arg, r))
    rtraces = byjob[("rand", "batches")]
    g = byjob[("gen", "GenC08.cfg" if not T else "GenC08_full.cfg")]
    outs = tlc_vh_lines(g.out)
    if len(outs) < 1000:
        raise Broken("case generation produced %d outcomes: %s" % (len(outs), g.out[-1500:]))
    predicted = {}
    for o in outs:
        c = from_model(o)
        predicted.setdefault(case_key(c), (c, []))[1].append(o)
    gen = [v[0] for v in predicted.values()]
    health = [c for c in gen if (c.get("fault") or {}).get("point") == "health"]
    gen = [c for c in gen if (c.get("fault") or {}).get("point") != "health"]      # 10 s each: only a few, in a batch of their own
    rng = random.Random(ctx.seed)
    rng.shuffle(gen)
    rng.shuffle(health)
    ngen = 260 if not T else len(gen)
    sel = gen[:ngen]
    ctx.cov["exhaustive"] = bool(T)       # thorough: every case of the two-flow instances (GenC08_full.cfg, GenC08_mx.cfg) is replayed
    # files in sub-directories (TLC-enumerated instance with a nested path-parameter and a nested flow file); thorough: plus every
    # case of the instance without a user metrics file, plus a seeded sample of the three-flow instance
    for cfgname, take in [("GenC08_nested.cfg", 60 if not T else 3000), ("GenC08_names.cfg", 80 if not T else 3000)] + \
                         ([("GenC08_mx.cfg", None), ("GenC08_thorough.cfg", 4000)] if T else []):
        cs = {}
        for o in tlc_vh_lines(byjob[("gen", cfgname)].out):
            c = from_model(o)
            if (c.get("fault") or {}).get("point") != "health":
                cs.setdefault(case_key(c), c)
                predicted.setdefault(case_key(c), (c, []))[1].append(o)
        extra = [cs[k] for k in sorted(cs)]
        if cfgname == "GenC08_nested.cfg":        # only the cases that touch a nested file
            extra = [c for c in extra if any("/team/" in k for k in list(c["disk"]) + list(c["payload"]))]
        if cfgname == "GenC08_names.cfg":         # the same base name in two directories / an empty gateway config in the old tree
            extra = [c for c in extra if "path_params/a.yaml" in list(c["disk"]) + list(c["payload"]) or c["disk"].get(GW) == "e0"]
        rng.shuffle(extra)
        sel = sel + (extra if take is None else extra[:take])
        ctx.log("%s: %d cases generated, %d replayed" % (cfgname, len(cs), len(extra) if take is None else min(take, len(extra))))
    # histories of updates on one gateway (tree, engine and handler state carried over), generated by TLC
    mh = histories_from_model(tlc_vh_lines(byjob[("sim", "GenC08_hist.cfg" if not T else "GenC08_hist4.cfg")].out), 4)
    if T:
        bh = histories_from_model(tlc_vh_lines(byjob[("gen", "GenC08_hist.cfg")].out), 2)
        rng.shuffle(bh)
        mh = mh + bh[:2500]
    mh = [h for h in mh if not any((c.get("fault") or {}).get("point") == "health" for c in h)]
    if len(mh) < (40 if not T else 1000):
        raise Broken("history generation produced only %d histories" % len(mh))
    ctx.log("TLC generated %d histories of 2-4 updates; + %d seeded random histories" % (len(mh), len(rh)))
    ctx.sample({"kind": "generated-history", "updates": [clean(c) for c in mh[0]]})
    # (3) code -> spec: seeded random cases over a wider universe (three flows, quota / path-parameter files, several bad files,
    #     other verbs, concurrent probe goroutines), recorded and validated together with the generated ones
    ctx.log("TLC generated %d outcomes / %d cases; replaying %d of them + %d seeded random cases + %d health-check failures" % (
        len(outs), len(predicted), len(sel), len(rc), 1 if not T else 4))
    nb = 7 if not T else 14
    batches = batches_of(sel + mh, nb) + batches_of(health[: (1 if not T else 4)], 1)
    # overlapping updates: schedules from walks of the concurrent model (the code's and the one with the early unlock - its
    # violating walks are directed schedules), plus seeded random ones
    def uniq(cases):
        seen_, out = set(), []
        for c in cases:
            k = json.dumps(c, sort_keys=True)
            if k not in seen_:
                seen_.add(k); out.append(c)
        return out
    okw = uniq([conc_from_model(o) for o in tlc_vh_lines(byjob[("csim", "GenConc.cfg")].out)])
    devo = tlc_vh_lines(byjob[("csim", "GenConc_dev.cfg")].out)
    devw = uniq([conc_from_model(o) for o in devo if o["violated"]]) + uniq([conc_from_model(o) for o in devo if not o["violated"]])
    n1, n2, n3 = (20, 30, 25) if not T else (300, 600, 500)
    if len(devw) < 10 or not any(o["violated"] for o in devo):
        raise Broken("schedule generation for overlapping updates produced %d walks" % len(devw))
    cc = okw[:n1] + devw[:n2] + [rand_conc(ctx.rng) for _ in range(n3)]
    cbatches = [cc[i::(2 if not T else 6)] for i in range(2 if not T else 6)]
    ctx.log("overlapping updates: %d cases (%d model walks, %d walks of the early-unlock model, %d random)" % (
        len(cc), len(okw[:n1]), len(devw[:n2]), n3))
    traces, ctraces = parallel(lambda f: f(), [lambda: run_batches(ctx, binary, batches, "gen"),
                                               lambda: run_batches(ctx, binary, cbatches, "conc", fname="trace-conc.ndjson")], n=2)
    batches, traces = batches + rbatches, traces + rtraces
    ctx.log("recorded %d cases in %d processes" % (sum(len(b) for b in batches), len(batches)))
    ctx.sample({"kind": "generated-case", "case": clean(sel[0]),
                "model_outcome": predicted[case_key(sel[0])][1][0]})
    ctx.sample({"kind": "recorded-trace", "events": [e for e in traces[0][1:60] if e["ev"] != "haproxy"][:18]})
    seen = set()
    drift = {"accepted": 0, "rejected": 0, "examples": []}
    parallel(lambda f: f(), [lambda: judge(ctx, binary, traces, batches, "p", seen),
                             lambda: drift_check(ctx, traces, batches, "i", drift),
                             lambda: judge_conc(ctx, binary, ctraces, cbatches, "c")], n=3)
    ctx.notes.append("implementation-shaped model vs code: %d recorded cases accepted by CfgTraceI, %d not explained" %
                     (drift["accepted"], drift["rejected"]))
    if drift["rejected"]:
        ctx.cov["model_drift"] = True
        ctx.notes.append("MODEL-DRIFT examples: %s" % json.dumps(drift["examples"])[:1500])
        ctx.log("MODEL-DRIFT: %d cases not explained by CfgUpdateI, e.g. %s" % (drift["rejected"], json.dumps(drift["examples"][:1])[:600]))
        if not ctx.violations and not ctx.known_hits:
            # the property held on everything observed but the exhaustive result no longer speaks about this code
            ctx.cov["states"] = 0
            ctx.cov["transitions"] = 0

    if UNREPRODUCED:
        ctx.notes.append("rejections not reproduced by re-execution: %s" % json.dumps(UNREPRODUCED)[:1500])
        if not ctx.violations and not ctx.known_hits:
            raise Broken("rejection not reproduced: %s" % json.dumps(UNREPRODUCED[0]))

    # (4) thorough: non-vacuity witnesses and per-action coverage of the model, binding self-test
    if T:
        vacuity(ctx, sd)
        self_test(ctx, traces, batches)


ACTIONS = ["PickMC", "Call", "Probe", "FaultEv", "Signal", "Reply", "MethodOK", "Method405", "DecodeBad", "DecodeOK", "Backup",
           "ParseBad", "ParseOK", "CleanRemove", "CleanDone", "SaveRemove", "SaveStore", "SaveDone", "ValidateOK", "ValidateBad",
           "BuildInit", "HookInitialized", "Publish", "HealthFail", "HealthOK", "HapCall", "HapDone", "MetricsBad", "MetricsOK",
           "RestoreBegin", "RStoreRemove", "RStoreStore", "RRemove", "RestoreDone"]


def vacuity(ctx, sd):
    """the antecedents of the clauses are reachable (witness invariants must be VIOLATED) and every action of the model
    that stands for a step of the repaired code is taken at least once (TLC -coverage)."""
    wits = ["WitnessOpenTxnServedByNew", "WitnessFailedNotExempt", "WitnessExempt"]
    def one(w):
        if w == "cov":
            return ctx.tlc(sd, "MC_C08", "MC_cov.cfg", workers=4, timeout=900, heap="3g", extra=["-coverage", "1"], count=False,
                           label="action coverage")
        return ctx.tlc(sd, "MC_C08", "MC_wit_%s.cfg" % w, workers=2, timeout=600, heap="1g", count=False, label="witness " + w)
    res = parallel(one, wits + ["cov"], n=4)
    for w, r in zip(wits, res):
        if r.violated != w:
            raise Broken("vacuous: witness %s is not reachable in the model (%r)" % (w, r))
    cov = res[-1]
    if not cov.ok:
        raise Broken("coverage run failed: %r" % cov)
    counts = {}
    for m in re.finditer(r"^<(\w+) line \d+, col \d+ to line \d+, col \d+ of module \w+>: (\d+):(\d+)", cov.out, re.M):
        counts[m.group(1)] = max(counts.get(m.group(1), 0), int(m.group(3)))
    dead = [a for a in ACTIONS if counts.get(a, 0) == 0]
    if dead:
        raise Broken("vacuous: model actions never taken: %s" % dead)
    ctx.notes.append("witnesses reachable: %s; all %d model actions taken (least: %s)" % (
        wits, len(ACTIONS), sorted(((counts[a], a) for a in ACTIONS))[:3]))


def self_test(ctx, traces, batches):
    ev = project_p(traces[0])
    cfg, hs = split_histories(ev)
    failed = next((h for h in hs if any(e["ev"] == "reply" and not e["ok"] for e in h) and
                   any(e["ev"] == "status" for e in h) and not any(e["ev"] == "fault" for e in h)), None)
    okh = next((h for h in hs if any(e["ev"] == "reply" and e["ok"] for e in h)), None)
    if failed is None or okh is None:
        raise Broken("self-test: no failed / successful case in the first batch")
    results = {}
    # (a) corrupt one field: the tree after a failed update differs in one file
    bad = [dict(e) for e in failed]
    for e in bad:
        if e["ev"] == "reply":
            e["disk"] = dict(e["disk"]); e["disk"]["flows/zz.yaml"] = "v2"; e["tree"] = "0" * 64
    _, rej, _ = validate_history_trace(ctx, SPEC, "CfgTraceP", [cfg] + bad, tag="self-a", max_rounds=1)
    results["tree changed after failure"] = bool(rej) and rej[0].get("invariant") == "DiskAtomic"
    # (b) corrupt one field: a probe during a successful update answered by an empty engine
    bad = [dict(e) for e in okh]
    k = max(i for i, e in enumerate(bad) if e["ev"] == "probe")
    bad[k]["served"] = {f: "none" for f in bad[k]["served"]}
    _, rej, _ = validate_history_trace(ctx, SPEC, "CfgTraceP", [cfg] + bad, tag="self-b", max_rounds=1)
    results["probe served by an empty engine"] = bool(rej) and rej[0].get("invariant") == "NeverHalf"
    # (c) drop one event: the call
    drop = [e for e in okh if e["ev"] != "call"]
    _, rej, _ = validate_history_trace(ctx, SPEC, "CfgTraceP", [cfg] + drop, tag="self-c", max_rounds=1)
    results["dropped call event"] = bool(rej)
    # (d) implementation model: drop one file-system event / validate against the model of the pinned (defective) Restore
    full_cfg, full_hs = split_histories(traces[0])
    ids = {k + 1: c for k, c in enumerate(batches[0])}
    rb = next((h for h in full_hs if not ids[h[0]["case"]].get("conc") and
               sum(1 for e in h if e["ev"] == "fs" and e["op"] == "store") >= 2 and
               any(e["ev"] == "reply" and not e["ok"] for e in h) and not any(e["ev"] == "fault" for e in h)), None)
    if rb is None:
        raise Broken("self-test: no rolled-back case in the first batch")
    k = next(i for i, e in enumerate(rb) if e["ev"] == "fs" and e["op"] == "store")
    _, rej, _ = validate_history_trace(ctx, SPEC, "CfgTraceI", [full_cfg] + [e for i, e in enumerate(rb) if i != k], tag="self-d", max_rounds=1)
    results["dropped fs.store event (model I)"] = bool(rej)
    _, rej, _ = validate_history_trace(ctx, SPEC, "CfgTraceI", [full_cfg] + rb, cfg="CfgTraceI_wrong.cfg", tag="self-e", max_rounds=1)
    results["model of the defective Restore rejects the repaired code"] = bool(rej)
    # (f) a transaction whose request was handled by the new and whose response by the old configuration of a successful update
    mixed = next((h for h in hs if any(e["ev"] == "reply" and e["ok"] for e in h) and
                  len({json.dumps(e["served"], sort_keys=True) for e in h if e["ev"] == "probe"}) == 2), None)
    if mixed is None:
        raise Broken("self-test: no successful case that changed the behaviour in the first batch")
    probes = [e for e in mixed if e["ev"] == "probe"]
    oldb, newb = probes[0]["served"], probes[-1]["served"]
    tail = [dict(probes[-1], txn=9001, ph="req", served=newb), dict(probes[-1], txn=9001, ph="resp", served=oldb)]
    _, rej, _ = validate_history_trace(ctx, SPEC, "CfgTraceP", [cfg] + mixed + tail, tag="self-f", max_rounds=1)
    results["request by new, response by old"] = bool(rej) and rej[0].get("invariant") == "OneConfig"
    ctx.notes.append("self-test: " + json.dumps(results))
    if not all(results.values()):
        raise Broken("binding self-test failed: %s" % json.dumps(results))


def replay(ctx, path):
    obj = json.load(open(path))
    binary = ctx.build_harness("c08")
    rp = obj["replay"]
    seq = [dict(c) for c in (rp["cases"] if "cases" in rp else [rp["case"]])]
    if rp.get("conc"):
        for attempt in range(6):
            t = run_batches(ctx, binary, [[dict(c) for c in seq]], "replay", fname="trace-conc.ndjson")[0]
            acc, rej, _ = validate_history_trace(ctx, SPEC, "CfgConcTrace", t, tag="replay", max_rounds=1)
            if rej:
                break
        for e in t:
            print(json.dumps(e))
        if rej:
            print("VIOLATION property=C08 replay=%s" % path)
            print("   clause %s violated (overlapping updates)" % rej[0].get("invariant"))
            return 1
        print("replay accepted by the specification")
        return 0
    for attempt in range(6):           # Go's map iteration order may matter
        t = run_batches(ctx, binary, [[dict(c) for c in seq]], "replay")[0]
        acc, rej, _ = validate_history_trace(ctx, SPEC, "CfgTraceP", project_p(t), tag="replay", max_rounds=1)
        if rej:
            break
    for e in t:
        if e["ev"] != "haproxy":
            print(json.dumps(e))
    if rej:
        print("VIOLATION property=C08 replay=%s" % path)
        print("   clause %s violated in update %d of %d at event %d: %s" % (
            rej[0].get("invariant"), rej[0]["hist"][0]["case"], len(seq), rej[0]["at"],
            json.dumps(rej[0]["hist"][min(rej[0]["at"], len(rej[0]["hist"]) - 1)])[:400]))
        return 1
    print("replay accepted by the specification")
    return 0
