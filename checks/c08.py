"""C08 - a configuration update is all-or-nothing.

spec:     specs/c08_config_update  CfgUpdateP (property monitor), CfgUpdateI (implementation-shaped model of the
          handler, Backup/Restore, the engine switch, one injected failure, probe transactions), MC_C08 (bounded
          instance), GenC08 (case generation), CfgTraceP / CfgTraceI (trace validation)
binding:  harness/cmd/c08 drives the real PUT /configuration and PUT /apply_flows handlers of
          routing.HandlingDataManager (mux + in-process request) against a loopback fake of the HAProxy admin API,
          injects failures through verifhook.Fault (fs.store, fs.remove, hdm.initialize) and the fake (n-th call
          answers 500), runs probe transactions through the active engine before / inside / after the switch
          (hooks hdm.published, hdm.initialized), records SHA-256 + abstract contents of the configuration tree.
"""
import json, os, random
from vlib import Broken, read_ndjson, write_ndjson, validate_history_trace, parallel, tlc_vh_lines, split_histories

SPEC = "c08_config_update"
FLOWS = ["flows/a.yaml", "flows/b.yaml", "flows/c.yaml"]
GW, MX = "gateway_config.yaml", "metrics.yaml"
REPORTED = set()       # witness classes already reproduced and reported in this run
P_EVENTS = ("reset", "probe", "call", "status", "fault", "reply")     # what the property observes


# ------------------------------------------------------------------------------------------------ cases
def case_key(c):
    return json.dumps({k: c.get(k) for k in ("endpoint", "method", "disk", "payload", "raw", "badb64", "fault", "conc")},
                      sort_keys=True)


def from_model(o):
    """a case printed by GenC08 -> harness case"""
    c = o["case"]
    out = {"endpoint": c["endpoint"], "method": c["method"],
           "disk": {k: v for k, v in c["disk"].items() if v != "none"},
           "payload": dict(c["payload"]) if isinstance(c["payload"], dict) else {},
           "badb64": sorted(c["badb64"])}
    if not c["decodable"]:
        out["raw"] = "{\"flows\": not json"
    if c["fault"]["point"] != "none":
        out["fault"] = {"point": c["fault"]["point"], "nth": c["fault"]["nth"]}
    return out


def kind_of(c):
    """bookkeeping only: the payload kind of the statement's quantifier"""
    if c.get("raw"):
        return "undecodable"
    if c.get("badb64"):
        return "bad-base64"
    pl = c.get("payload", {})
    tags = set(pl.values())
    if tags & {"bad", "junk"}:
        return "fails-validation"
    if "gbad" in tags:
        return "fails-gateway-config"
    if "mbad" in tags:
        return "fails-metrics-reload"
    if not pl:
        return "empty"
    if c.get("endpoint") == "apply_flows" and any(k not in pl for k, v in c["disk"].items() if k.startswith("flows/")):
        return "valid-remove"
    if any(k not in c["disk"] for k in pl):
        return "valid-add"
    return "valid-change"


def rand_case(rng, thorough, endpoints):
    """seeded random case over a wider universe than the exhaustive model: three flows, quota and path-parameter files,
    several invalid files at once, junk contents, v3, concurrent probe goroutines."""
    disk = {MX: "m1"}
    for f in FLOWS:
        if rng.random() < 0.6:
            disk[f] = rng.choice(["v1", "v1", "v3"])
    if not any(f in disk for f in FLOWS):
        disk[rng.choice(FLOWS)] = "v1"
    if rng.random() < 0.5:
        disk[GW] = "g1"
    if rng.random() < 0.3:
        disk["quotas/q.yaml"] = "q1"
    if rng.random() < 0.3:
        disk["path_params/p.yaml"] = "p1"
    ep = rng.choice(endpoints)
    c = {"endpoint": ep, "method": "PUT", "disk": disk, "payload": {}, "badb64": []}
    x = rng.random()
    if x < 0.05:
        c["raw"] = rng.choice(["{not json", "", "[1,2", "\"flows\""])
        return c
    pl = {}
    for f in FLOWS:
        y = rng.random()
        if y < 0.45:
            pl[f] = rng.choice(["v2", "v2", "v2", "bad", "junk"] if rng.random() < 0.5 else ["v2"])
    if rng.random() < 0.35:
        pl[GW] = rng.choice(["g2", "g2", "gbad"])
    if ep == "configuration" and rng.random() < 0.35:
        pl[MX] = rng.choice(["m2", "m2", "mbad"])
    if rng.random() < 0.25:
        pl["quotas/q.yaml"] = "q2"
    if rng.random() < 0.2:
        pl["path_params/p.yaml"] = "p2"
    if ep == "apply_flows" and not any(f in pl for f in FLOWS):
        pl[rng.choice(FLOWS)] = "v2"
    c["payload"] = pl
    if pl and rng.random() < 0.08:
        c["badb64"] = sorted(rng.sample(sorted(pl), rng.randint(1, min(2, len(pl)))))
    if rng.random() < 0.06:
        c["method"] = rng.choice(["POST", "GET", "DELETE", "PATCH"])
    y = rng.random()
    if y < 0.55:
        pt = rng.choice(["fs.store", "fs.store", "fs.remove", "haproxy", "haproxy", "hdm.initialize"])
        c["fault"] = {"point": pt, "nth": rng.randint(1, 2 if pt == "hdm.initialize" else 8)}
    if rng.random() < (0.15 if thorough else 0.08):
        c["conc"] = rng.choice([1, 2, 4])
    return c


# ------------------------------------------------------------------------------------------------ execution
def run_batches(ctx, binary, batches, tag):
    """one child process per batch (the engine reads its ports at package init; NewHandlingDataManager costs 3 s)."""
    def one(it):
        i, cases = it
        d = ctx.sub("run-%s-%d" % (tag, i))
        for k, c in enumerate(cases):
            c["id"] = k + 1
        json.dump({"cases": cases}, open(os.path.join(d, "cases.json"), "w"))
        for attempt in range(3):
            p = ctx.run_harness(binary, ["run", os.path.join(d, "cases.json"), d], cwd=ctx.sub("cwd-%s-%d" % (tag, i)),
                                timeout=900, check=False)
            if p.returncode != 4:          # 4 = port clash with another process: try again with another port
                break
        if p.returncode != 0:
            raise Broken("harness c08 failed rc=%d (%s batch %d)\nstderr: %s" % (p.returncode, tag, i, p.stderr[-3000:]))
        return read_ndjson(os.path.join(d, "trace.ndjson"))
    return parallel(one, list(enumerate(batches)), n=min(8, len(batches)) or 1)


def batches_of(cases, n):
    n = max(1, min(n, len(cases)))
    return [cases[i::n] for i in range(n)]


def project_p(events):
    return [e for e in events if e["ev"] in P_EVENTS or e["ev"] == "config"]


def case_of_history(h, cases_by_id):
    return cases_by_id[h[0]["case"]]


def nontrivial(h):
    """the update failed after at least one file had been written (DESIGN §10 rule for C08)."""
    wrote = False
    for e in h:
        if e["ev"] == "fs" and e["op"] == "store":
            wrote = True
        if e["ev"] == "reply":
            return wrote and not e["ok"]
    return False


def witness_of(rej, case):
    h, at = rej["hist"], rej["at"]
    e = h[min(at, len(h) - 1)]
    inv = rej.get("invariant") or "rejected"
    rep = next((x for x in h if x["ev"] == "reply"), {})
    return {"class": inv, "endpoint": case["endpoint"], "method": case.get("method", "PUT"), "kind": kind_of(case),
            "fault": (case.get("fault") or {"point": "none"})["point"], "status": rep.get("code"),
            "at_event": e["ev"], "concurrent": bool(case.get("conc"))}


def judge(ctx, binary, traces, batches, tag, seen):
    """TLC validates every recorded trace against the property monitor; each rejection is re-executed once more in a
    fresh process and judged again before it is reported."""
    def one(it):
        i, ev = it
        return validate_history_trace(ctx, SPEC, "CfgTraceP", project_p(ev), tag="%s%d" % (tag, i), max_rounds=4)
    res = parallel(one, list(enumerate(traces)), n=8)
    for bi, ((acc, rejected, rounds), ev) in enumerate(zip(res, traces)):
        cfg, hs = split_histories(ev)
        ids = {k + 1: c for k, c in enumerate(batches[bi])}
        ctx.cov["traces_validated_against_impl"] += acc
        for h in hs:
            ctx.cov["evaluations"] += 1
            c = ids[h[0]["case"]]
            key = case_key(c)
            if key not in seen:
                seen.add(key)
                if nontrivial(h):
                    ctx.cov["distinct_nontrivial"] += 1
        for rej in rejected:
            c = dict(ids[rej["hist"][0]["case"]])
            w = witness_of(rej, c)
            sig = json.dumps(w, sort_keys=True)
            if sig in REPORTED:
                continue
            REPORTED.add(sig)
            reproduced = None
            for attempt in range(1 if not c.get("conc") else 20):
                t2 = run_batches(ctx, binary, [[dict(c)]], "%s-repro%d" % (tag, bi))[0]
                a2, r2, _ = validate_history_trace(ctx, SPEC, "CfgTraceP", project_p(t2), tag="%s-repro%d" % (tag, bi), max_rounds=1)
                if r2 and (r2[0].get("invariant") == rej.get("invariant")):
                    reproduced = t2
                    break
            if reproduced is None:
                raise Broken("rejection not reproduced (%s): %s" % (tag, json.dumps(w)))
            c.pop("id", None)
            ctx.violation(w, {"case": c, "trace": reproduced, "clause": w["class"]})


# ------------------------------------------------------------------------------------------------ run
def run(ctx):
    T = ctx.thorough
    binary = ctx.build_harness("c08")
    sd = ctx.spec_dir(SPEC)
    ctx.cov["rule"] = ("case = (old tree, payload, verb, endpoint, one injected failure); cases = terminal states of the bounded "
                       "TLA+ model (every payload kind x every failure step) + seeded random cases over a wider universe; "
                       "non-trivial = the update failed after at least one file had been written; distinct by case")
    ctx.cov["checker_cmd"] = "tlc -config MC_quick.cfg MC_C08.tla ; tlc -config GenC08.cfg GenC08.tla ; tlc -config CfgTraceP.cfg CfgTraceP.tla"
    ctx.cov["trusted_base"] = ["TLC 1.8", "CommunityModules Json", "Go toolchain",
                               "loopback fake of the HAProxy admin / health API (harness/cmd/c08)",
                               "probe projection: header written by the flow's TransformAPICall processor = version of that flow file",
                               "SHA-256 / content table of the tree computed by the harness"]
    ctx.assumptions += ["one injected failure per update (the n-th occurrence of a fault point fails once)",
                        "a failure injected into the roll-back itself (after the handler signalled failure) exempts the case",
                        "fs.store fails after the old file was removed and before the new one is created",
                        "updates are issued one at a time (the handler's TryLock is not raced)"]
    endpoints = ["configuration"]

    # (1) exhaustive: I => P on the bounded instance; every deviation flag must be refuted (non-vacuity)
    # (2) spec -> code: TLC enumerates the cases (terminal states of the model without probes) with predicted outcomes
    def stage(job):
        kind, arg = job
        if kind == "mc":
            return ctx.tlc_exhaustive(sd, "MC_C08", arg, timeout=1500, label="I=>P, all cases x all interleavings of probes")
        if kind == "nv":
            return ctx.tlc(sd, "MC_C08", "MC_nv_%s.cfg" % arg, workers=2, timeout=600, label="non-vacuity: %s must be refuted" % arg)
        return ctx.tlc(sd, "GenC08", arg, workers=4, timeout=900, label="case generation")
    flags = ["RestoreWrongDirection", "PublishBeforeInit", "ContinueAfter405"]
    jobs = [("mc", "MC_quick.cfg" if not T else "MC_thorough.cfg")] + [("nv", f) for f in flags] + \
           [("gen", "GenC08.cfg" if not T else "GenC08_thorough.cfg")]
    if T:
        jobs.insert(1, ("mc", "MC_thorough3.cfg"))
    res = parallel(stage, jobs, n=len(jobs))
    for (kind, arg), r in zip(jobs, res):
        if kind == "nv" and r.violated is None:
            raise Broken("model cannot tell deviation %s from the property (vacuous refinement check): %r" % (arg, r))
    g = res[-1]
    outs = tlc_vh_lines(g.out)
    if len(outs) < 1000:
        raise Broken("case generation produced %d outcomes: %s" % (len(outs), g.out[-1500:]))
    predicted = {}
    for o in outs:
        c = from_model(o)
        predicted.setdefault(case_key(c), (c, []))[1].append(o)
    gen = [v[0] for v in predicted.values()]
    health = [c for c in gen if (c.get("fault") or {}).get("point") == "health"]
    gen = [c for c in gen if (c.get("fault") or {}).get("point") != "health"]      # 10 s each: only a few
    rng = random.Random(ctx.seed)
    rng.shuffle(gen)
    rng.shuffle(health)
    ngen = 560 if not T else len(gen)
    sel = gen[:ngen] + health[: (1 if not T else 4)]
    ctx.cov["exhaustive"] = bool(T)
    ctx.log("TLC generated %d outcomes / %d cases; replaying %d" % (len(outs), len(predicted), len(sel)))
    seen = set()
    nb = 8 if not T else 14
    batches = batches_of(sel, nb)
    traces = run_batches(ctx, binary, batches, "gen")
    ctx.sample({"kind": "generated-case", "case": sel[0], "model_outcome": predicted[case_key(sel[0])][1][0]})
    judge(ctx, binary, traces, batches, "gen", seen)

    # (3) code -> spec: seeded random cases over a wider universe (three flows, quota / path-parameter files, several bad files,
    #     other verbs, concurrent probe goroutines), recorded and validated
    nr = 240 if not T else 4000
    rc = [rand_case(ctx.rng, T, endpoints) for _ in range(nr)]
    rb = batches_of(rc, nb)
    rtraces = run_batches(ctx, binary, rb, "rand")
    ctx.sample({"kind": "recorded-trace", "events": [e for e in rtraces[0][1:40] if e["ev"] != "haproxy"][:16]})
    judge(ctx, binary, rtraces, rb, "rand", seen)


def replay(ctx, path):
    obj = json.load(open(path))
    binary = ctx.build_harness("c08")
    c = dict(obj["replay"]["case"])
    t = run_batches(ctx, binary, [[c]], "replay")[0]
    acc, rej, _ = validate_history_trace(ctx, SPEC, "CfgTraceP", project_p(t), tag="replay", max_rounds=1)
    for e in t:
        if e["ev"] != "haproxy":
            print(json.dumps(e))
    if rej:
        print("VIOLATION property=C08 replay=%s" % path)
        print("   clause %s violated at event %d: %s" % (rej[0].get("invariant"), rej[0]["at"],
                                                         json.dumps(rej[0]["hist"][min(rej[0]["at"], len(rej[0]["hist"]) - 1)])[:400]))
        return 1
    print("replay accepted by the specification")
    return 0
