"""C14 - traffic a flow or policy must see is always registered as managed.

spec:     specs/c14_managed_endpoints  ManagedP (property: NoBypass, Literal), ManagedI (character-level transcription of
          config.HaproxyEndpointFormat + map_reg search, engine match of a loaded item), SpaceC14 + MC_C14 (exhaustive I => P
          and case generation), ManagedTrace (trace validation of the real verdicts)
binding:  harness/cmd/c14: the REAL expressions (config.BuildHAProxyEndpointsRequest / config.HaproxyEndpointFormat over the
          real Filter.GetSupportedMethods / routing.buildHAProxyFlowsEndpointsRequest of an engine loaded from YAML) compiled
          with Go's regexp and searched in "METHOD:::url" as HAProxy's map_reg does, versus the REAL engine verdict
          (runner.getRemedies on the EndpointPolicyTree / FilterTree.GetFlow / Stream.ExecuteFlow flow invocations)
oracle:   TLC only: the verdict of a case whose real verdict pair equals the model's is the one TLC computed for exactly that
          input and pair (ManagedP.Verdict in the case file); every other real pair, every non-"ok" case, a seeded sample
          and all random configurations go through TLC trace validation (ManagedTrace).
"""
import glob, json, os, shutil
from vlib import Broken, write_ndjson, parallel

SPEC = "c14_managed_endpoints"
KF_CLASS = "trailing-slash"
METHODS9 = ["GET", "POST", "PUT", "DELETE", "PATCH", "HEAD", "OPTIONS", "CONNECT", "TRACE"]


def render(h, p, var=""):
    if var == "uc":
        h = [l.upper() for l in h]
    return ".".join(h) + ("." if var == "dot" else "") + ("/" + "/".join(p) if p else "") + ("/" if var == "ts" else "")


def load_groups(sd, prefix):
    return [json.load(open(fn)) for fn in sorted(glob.glob(os.path.join(sd, prefix + "*.json")))]


def execute(ctx, binary, groups, tag):
    """groups: [{"kind", "items":[{name,m,h,p}], "reqs":[{m,h,p,ts}]}] -> executor answers"""
    d = ctx.sub("run-" + tag)
    inp, outp = os.path.join(d, "groups.ndjson"), os.path.join(d, "out.ndjson")
    with open(inp, "w") as f:
        for g in groups:
            f.write(json.dumps({"kind": g["kind"], "items": g["items"], "reqs": g["reqs"]}) + "\n")
    ctx.run_harness(binary, ["run", inp, outp, os.path.join(d, "work")], timeout=1500)
    res = [json.loads(l) for l in open(outp) if l.strip()]
    if len(res) != len(groups):
        raise Broken("executor answered %d groups for %d" % (len(res), len(groups)))
    return res


def item_kind(g):
    return "policy" if g["kind"] == "policy" else "flow"


def events_of(g, real, ri_list):
    ev = [{"ev": "group", "manage_all": bool(real["manage_all"]),
           "items": [{"name": it["name"], "kind": item_kind(g), "m": it["m"], "h": it["h"], "p": it["p"]} for it in g["items"]]}]
    for ri in ri_list:
        rq, o = g["reqs"][ri], real["outs"][ri]
        ev.append({"ev": "req", "m": rq["m"], "h": rq["h"], "p": rq["p"], "var": rq.get("var", ""),
                   "engine": o["engine"], "proxy": len(o["proxy"]) > 0})
    return ev


def tlc_validate(ctx, blocks, tag, strict=False):
    """ManagedTrace over blocks (each: group event + req events).  Returns (n_req_accepted (negative: gave up), rejections, ts_hits)"""
    sd = ctx.spec_dir(SPEC)
    wd = os.path.join(ctx.scratch, "tv-" + tag)
    if not os.path.isdir(wd):
        shutil.copytree(sd, wd, ignore=shutil.ignore_patterns("*.json", "*.ndjson", "states", "meta-*"))
    blocks = [list(b) for b in blocks]
    rejections, rounds = [], 0
    while True:
        rounds += 1
        flat, owner = [{"ev": "config"}], [None]
        for bi, b in enumerate(blocks):
            for e in b:
                flat.append(e)
                owner.append(bi)
        p = os.path.join(wd, "trace.ndjson")
        write_ndjson(p, flat)
        ok, hwm, r = ctx.tlc_trace(wd, "ManagedTrace", p, cfg="ManagedTrace_strict.cfg" if strict else "ManagedTrace.cfg", timeout=900)
        hits = []
        for line in r.out.splitlines():
            if line.startswith('<<"KF-TS", '):
                k = int(line.split(",")[1].strip(" >"))
                hits.append((owner[k - 1], flat[k - 1]))
        if ok:
            return sum(1 for e in flat if e["ev"] == "req"), rejections, hits
        if hwm < 1 or hwm >= len(flat):
            raise Broken("trace validation made no progress (%s): %r\n%s" % (tag, r, r.out[-2000:]))
        bad, bi = flat[hwm], owner[hwm]
        if bad["ev"] != "req":
            raise Broken("trace validation rejected a non-req event (%s): %s" % (tag, json.dumps(bad)[:300]))
        rejections.append({"block": bi, "group": blocks[bi][0], "req": bad})
        blocks[bi].remove(bad)
        if rounds >= 4:
            return -sum(1 for e in flat[:hwm] if e["ev"] == "req"), rejections, hits


def describe(group_ev, req_ev):
    return {"items": ["%s %s %s" % (it["kind"], "|".join(it["m"]) or "any-method", render(it["h"], it["p"])) for it in group_ev["items"]],
            "request": "%s %s" % (req_ev["m"], render(req_ev["h"], req_ev["p"], req_ev.get("var", ""))),
            "engine": req_ev["engine"], "proxy": req_ev["proxy"], "manage_all": group_ev["manage_all"]}


def report_rejection(ctx, binary, kind, rej, origin):
    """reproduce (deterministic: one re-execution judged again by TLC) and report"""
    gev, rq = rej["group"], rej["req"]
    g = {"kind": kind, "items": [{"name": it["name"], "m": it["m"], "h": it["h"], "p": it["p"]} for it in gev["items"]],
         "reqs": [{"m": rq["m"], "h": rq["h"], "p": rq["p"], "var": rq["var"]}]}
    w = describe(gev, rq)
    w["class"] = "bypass" if rq["engine"] and not rq["proxy"] else "literal-not-managed"
    w["level"] = kind
    w["origin"] = origin
    # the engine's request builder walks Go maps: what it registers may depend on the iteration order of one build, so a
    # rejection at engine level is reproduced like a concurrent one (up to 20 fresh engine builds), elsewhere once
    real, ev = None, None
    for attempt in range(20 if kind == "engine" else 1):
        real = execute(ctx, binary, [g], "repro")[0]
        if real["err"]:
            raise Broken("rejection not reproduced (configuration no longer loads): %s" % json.dumps(w)[:600])
        ev = events_of(g, real, [0])
        _, rej2, _ = tlc_validate(ctx, [ev], "repro", strict=True)
        if rej2:
            w["reproduced_after_attempts"] = attempt + 1
            break
    else:
        raise Broken("rejection not reproduced: %s" % json.dumps(w)[:800])
    ctx.violation(w, {"group": g, "trace": ev, "exprs": [e["e"] for e in real["exprs"]]})


def judge_blocks(ctx, binary, blocks, kinds, origin, tag):
    if not blocks:
        return 0
    chunks, cur, ck, n = [], [], [], 0
    for b, k in zip(blocks, kinds):
        cur.append(b)
        ck.append(k)
        n += len(b)
        if n >= 4000:
            chunks.append((cur, ck))
            cur, ck, n = [], [], 0
    if cur:
        chunks.append((cur, ck))
    res = parallel(lambda it: tlc_validate(ctx, it[1][0], "%s%d" % (tag, it[0])), list(enumerate(chunks)), n=6)
    total = 0
    for (n_ok, rejections, hits), (chunk, kk) in zip(res, chunks):
        total += abs(n_ok)
        for bi, e in hits:
            w = describe(chunk[bi][0], e)
            w["class"] = KF_CLASS
            w["origin"] = origin
            ctx.violation(w, {"group_event": chunk[bi][0], "req_event": e})
        for rej in rejections[:2]:
            kind = kk[rej["block"]]
            if len(ctx.violations) < 6:
                report_rejection(ctx, binary, kind, rej, origin)
            else:
                ctx.notes.append("further rejection not individually reproduced: %s" % json.dumps(describe(rej["group"], rej["req"]))[:300])
    ctx.cov["traces_validated_against_impl"] += total
    return total


# ----------------------------------------------------------------------- random configurations
R_HOSTS = [["a", "com"], ["api", "a-b", "co", "uk"], ["b2", "io"]]
R_LITS = ["x", "v1", "a.b", "c++", "f(1)", "q*x", "x[1]", "a|b", "^a$", "a{2}", "u-s_r", "~me", "a+b", "(", "e.f.g"]
R_PARAMS = ["{id}", "{id_2}", "{i.d}", "{i-d}", "{user}"]
R_NEAR = {"a.b": ["axb"], "c++": ["c", "cc", "c+"], "f(1)": ["f1"], "q*x": ["x", "qx"], "x[1]": ["x1"], "a|b": ["a", "b"],
          "^a$": ["a"], "a{2}": ["aa"], "a+b": ["aab", "ab"], "e.f.g": ["exfxg"]}


def rand_item(rng, i, kind):
    n = rng.choice([0, 1, 1, 2, 2, 3])
    p = [rng.choice(R_PARAMS[:1] + R_PARAMS) if rng.random() < 0.3 else rng.choice(R_LITS) for _ in range(n)]
    if rng.random() < 0.3:
        p.append("*")
    if kind == "policy":
        m = [rng.choice(METHODS9[:6])]
    else:
        m = rng.choice([[], [], ["GET"], ["GET", "POST"], ["HEAD"], ["DELETE", "PUT"]])
    return {"name": "%s%d" % ("d" if kind == "policy" else "f", i), "m": m, "h": rng.choice(R_HOSTS), "p": p}


def rand_group(rng, kind, nreq):
    k = rng.randint(1, 4)
    items, seen = [], set()
    for i in range(1, 12):
        it = rand_item(rng, len(items) + 1, kind)
        # one parameter name per trie position and one item per URL: the loaders reject the rest
        key = render(it["h"], [("{}" if s.startswith("{") and s.endswith("}") else s) for s in it["p"]])
        if key in seen:
            continue
        clash = False
        for o in items:
            if o["h"] == it["h"]:
                for a, b in zip(o["p"], it["p"]):
                    pa, pb = a.startswith("{") and a.endswith("}"), b.startswith("{") and b.endswith("}")
                    if pa and pb and a != b:
                        clash = True
                    if a != b:
                        break
        if clash:
            continue
        seen.add(key)
        items.append(it)
        if len(items) == k:
            break
    # further items on the URL of an existing one, with other methods (flows: two filter groups on one URL)
    for it in list(items):
        if rng.random() < 0.35 and it["m"]:
            others = [m for m in METHODS9[:6] if m not in it["m"]]
            ms = rng.sample(others, 1 if kind == "policy" else rng.choice([1, 2]))
            items.append({"name": "%s%d" % ("d" if kind == "policy" else "f", len(items) + 1), "m": ms, "h": it["h"], "p": list(it["p"])})
    catch_all = kind != "policy" and rng.random() < 0.08
    reqs, rs = [], set()
    tries = 0
    while len(reqs) < nreq and tries < 300:
        tries += 1
        it = rng.choice(items)
        h, p = list(it["h"]), []
        for s in it["p"]:
            if s == "*":
                p += [rng.choice(["x", "7", "c++"]) for _ in range(rng.choice([0, 1, 1, 2]))]
            elif s.startswith("{") and s.endswith("}"):
                p.append(rng.choice(["7", "a.b", "c++", "x"]))
            else:
                p.append(s)
        x = rng.random()
        if x < 0.25 and p:
            j = rng.randrange(len(p))
            p[j] = rng.choice(R_NEAR.get(p[j], ["zz"]))
        elif x < 0.32 and p:
            p = p[:-1]
        elif x < 0.40:
            p = p + [rng.choice(["x", "7"])]
        elif x < 0.45:
            h = rng.choice(R_HOSTS)
        elif x < 0.48:
            h = ["".join(h[:-1]) + "x" + h[-1]] if len(h) > 1 else h
        elif x < 0.58 and p and "." not in p[0] and p[0]:
            h, p = h + [p[0]], p[1:]          # the first path segment written as a further host label (same number of parts)
        elif x < 0.63 and len(h) > 1:
            h, p = h[:-1], [h[-1]] + p        # the last host label written as first path segment
        if rng.random() < 0.15 and p:
            # degenerate spellings: empty segment, "." / "..", encoded slash - in place of or before a segment
            j = rng.randrange(len(p))
            odd = rng.choice(["", "", "", ".", "..", "%2F", "x%2Fy"])
            if rng.random() < 0.6:
                p[j] = odd
            else:
                p.insert(j, odd)
        while p and (p[-1] == "" or p[-1].endswith(".")):
            p.pop()            # trailing "/" and "." are trimmed by the tree: those are the variants "ts" / "dot"
        m = rng.choice(it["m"]) if it["m"] and rng.random() < 0.7 else rng.choice(METHODS9)
        var = rng.choice([""] * 14 + ["ts", "ts", "uc", "uc", "dot"])
        key = (m, render(h, p, var))
        if key in rs:
            continue
        rs.add(key)
        reqs.append({"m": m, "h": h, "p": p, "var": var})
    if catch_all:
        # a flow for every URL ("*"): the engine matches everything, the proxy must be told to manage everything
        items.append({"name": "f%d" % (len(items) + 1), "m": rng.choice([[], ["GET"]]), "h": ["*"], "p": []})
    return {"kind": kind, "items": items, "reqs": reqs}



# ======================================================================================================
# registration protocol over histories of (re)loads: the proxy's managed-endpoint map as state
# ======================================================================================================
# abstract expression of ProxyMapI with n registrations -> a policy endpoint with n enabled plugins
# (BuildHAProxyEndpointsRequest emits the endpoint's expression once per enabled remedy / diagnosis)
PROTO_POLICY = {
    "e1": {"name": "d1", "m": ["GET"], "h": ["a", "com"], "p": ["x"], 1: ("on", []), 2: ("on", ["on"])},
    "e2": {"name": "d2", "m": ["POST"], "h": ["a", "com"], "p": ["y", "*"], 1: ("on", ["off"]), 2: ("on", ["on", "off"])},
    "e3": {"name": "d3", "m": ["GET"], "h": ["api", "a", "com"], "p": ["{id}"], 1: ("off", ["off", "on"]), 2: ("off", ["on", "on"])},
}
# ... -> n flows sharing URL and methods (the further ones with a header constraint: separate filter groups,
# the same expressions registered once per group)
PROTO_FLOW = {
    "e1": {"name": "f1", "m": ["GET"], "h": ["a", "com"], "p": ["x"]},
    "e2": {"name": "f2", "m": [], "h": ["a", "com"], "p": ["y", "*"]},
    "e3": {"name": "f3", "m": ["GET", "POST"], "h": ["api", "a", "com"], "p": ["{id}"]},
}


def proto_items(e, n, mode):
    if mode == "policy":
        t = PROTO_POLICY[e]
        return [{"name": t["name"], "m": t["m"], "h": t["h"], "p": t["p"], "remedy": t[n][0], "diags": list(t[n][1])}]
    t = PROTO_FLOW[e]
    res = [dict(t)]
    for k in range(1, n):
        res.append(dict(t, name="%sh%d" % (t["name"], k), hdr=[["x-tier", "t%d" % k]]))
    return res


PROTO_REQS = {
    "e1": {"m": "GET", "h": ["a", "com"], "p": ["x"], "var": ""},
    "e2": {"m": "POST", "h": ["a", "com"], "p": ["y", "7"], "var": ""},
    "e3": {"m": "GET", "h": ["api", "a", "com"], "p": ["42"], "var": ""},
}
CATCH_ALL_FLOW = {"name": "fall", "m": [], "h": ["*"], "p": []}


def proto_enabled(it, mode):
    return mode == "flow" or it.get("remedy") == "on" or "on" in it.get("diags", [])


def history_of_walk(walk, mode):
    """a ProxyMapI walk (GenC14P) -> executor history; the model's proxy state per step is kept for the drift report"""
    steps = []
    for st in walk:
        if st["op"] == "drain":
            steps.append({"op": "drain"})
            continue
        items = [it for e in sorted(st["ex"]) for it in proto_items(e, int(st["mult"][e]), mode)]
        step = {"op": "load", "immediate": bool(st["imm"]) and mode == "policy", "global": False, "items": items}
        if st["all"]:
            if mode == "policy":
                step["global"] = True
            else:
                step["items"] = items + [dict(CATCH_ALL_FLOW)]
        steps.append(step)
    reqs = [dict(PROTO_REQS[e], tag=e) for e in ("e1", "e2", "e3")] + [{"m": "PUT", "h": ["b", "com"], "p": ["q"], "var": "", "tag": "other"}]
    return {"mode": mode, "steps": steps, "reqs": reqs, "model": walk}


P_DIAGS = [[], [], ["on"], ["off"], ["on", "off"], ["off", "on"], ["off", "off"]]


def rand_history(rng, mode, T):
    """seeded random history: a pool of items, configurations evolve by keeping / dropping / adding items"""
    pool = []
    for i in range(rng.randint(3, 5)):
        it = rand_item(rng, i + 1, "policy" if mode == "policy" else "flow")
        if mode == "policy":
            it["remedy"] = rng.choice(["on", "on", "on", "off", "none"])
            it["diags"] = rng.choice(P_DIAGS)
        if any(render(o["h"], o["p"]) == render(it["h"], it["p"]) for o in pool):
            continue
        clash = False
        for o in pool:
            if o["h"] == it["h"]:
                for a, b in zip(o["p"], it["p"]):
                    pa, pb = a.startswith("{") and a.endswith("}"), b.startswith("{") and b.endswith("}")
                    if pa and pb and a != b:
                        clash = True
                    if a != b:
                        break
        if not clash:
            pool.append(it)
    rapid = rng.random() < 0.25
    steps, cur = [], []
    # flows: a twin of some items - same URL and methods, a header constraint: another filter group registering the
    # SAME expressions; policies: the number of enabled plugins of a kept endpoint changes from load to load
    twins = {it["name"]: dict(it, name=it["name"] + "h", hdr=[["x-tier", "gold"]]) for it in pool if mode == "flow" and rng.random() < 0.5}
    for k in range(rng.randint(3, 5 if not T else 6)):
        revert = False
        if k == 0:
            cur = [it for it in pool if rng.random() < 0.6] or pool[:1]
        elif mode == "policy" and rng.random() < 0.2:
            revert = True         # the diagnosis fail-safe: the same endpoints without their diagnoses, unmanage immediately
        else:
            cur = [it for it in cur if rng.random() < 0.75] + [it for it in pool if it not in cur and rng.random() < 0.35]
        glob = rng.random() < 0.12 and not revert
        items = []
        for it in cur:
            it2 = dict(it)
            if mode == "policy":
                if revert:
                    it2["diags"] = []
                elif rng.random() < 0.5:
                    it2["remedy"] = rng.choice(["on", "on", "off", "none"])
                    it2["diags"] = rng.choice(P_DIAGS + [["on"], ["on", "on"]])
            items.append(it2)
            if it["name"] in twins and rng.random() < 0.6:
                items.append(dict(twins[it["name"]]))
        step = {"op": "load", "immediate": mode == "policy" and (revert or rng.random() < 0.15), "global": glob and mode == "policy",
                "items": items + ([dict(CATCH_ALL_FLOW)] if glob and mode == "flow" else [])}
        steps.append(step)
        if not rapid or rng.random() < 0.4:
            steps.append({"op": "drain"})
    if steps[-1]["op"] != "drain":
        steps.append({"op": "drain"})
    reqs, seen = [], set()
    for it in pool:
        p = []
        for sgm in it["p"]:
            p += ["7"] if sgm.startswith("{") and sgm.endswith("}") else (["x"] if sgm == "*" else [sgm])
        for m in ([it["m"][0]] if it["m"] else ["GET", "HEAD"]):
            key = (m, render(it["h"], p))
            if key not in seen:
                seen.add(key)
                reqs.append({"m": m, "h": it["h"], "p": p, "var": ""})
    reqs.append({"m": "PUT", "h": ["nowhere", "org"], "p": ["q"], "var": ""})
    return {"mode": mode, "steps": steps, "reqs": reqs}


def execute_proto(ctx, binary, hists, tag):
    """every history in its own engine process (own fake proxy port, own cwd): process-wide state of the engine's
    registration code must not leak from one history into the next - a history starts with a fresh proxy AND a fresh engine"""
    import socket
    d = ctx.sub("proto-" + tag)

    def one(it):
        i, h = it
        inp, outp = os.path.join(d, "hist-%d.ndjson" % i), os.path.join(d, "out-%d.ndjson" % i)
        with open(inp, "w") as f:
            f.write(json.dumps({"mode": h["mode"], "steps": h["steps"],
                                "reqs": [{k: v for k, v in r.items() if k != "tag"} for r in h["reqs"]]}) + "\n")
        last = None
        for attempt in range(3):          # a port clash with another process on this box: take another port
            sk = socket.socket()
            sk.bind(("127.0.0.1", 0))
            port = str(sk.getsockname()[1])
            sk.close()
            cwd = os.path.join(d, "cwd-%d" % i)
            os.makedirs(cwd, exist_ok=True)
            p = ctx.run_harness(binary, ["proto", inp, outp, os.path.join(d, "work-%d" % i)], timeout=600, cwd=cwd, check=False,
                                env={"HAPROXY_MANAGE_ENDPOINTS_PORT": port, "LUNAR_HEALTHCHECK_PORT": port})
            if p.returncode == 0:
                res = [json.loads(l) for l in open(outp) if l.strip()]
                if len(res) == 1:
                    return res[0]
            last = p
        raise Broken("protocol executor failed: rc=%s %s" % (last.returncode, (last.stderr or "")[-1500:]))
    return parallel(one, list(enumerate(hists)), n=6)


def proto_events(h, real):
    """one block of trace events for a history"""
    ev = [{"ev": "hist"}]
    kind = "policy" if h["mode"] == "policy" else "flow"
    for st, so in zip(h["steps"], real["steps"]):
        if st["op"] == "load":
            ev.append({"ev": "load", "items": [{"name": it["name"], "kind": kind, "m": it["m"], "h": it["h"], "p": it["p"]}
                                               for it in st["items"] if proto_enabled(it, h["mode"])]})
        else:
            ev.append({"ev": "drain"})
        for a in so["admin"]:
            ev.append({"ev": "admin", "op": a["op"], "e": a["e"]})
        for rq, pr in zip(h["reqs"], so["probes"]):
            ev.append({"ev": "probe", "m": rq["m"], "h": rq["h"], "p": rq["p"], "var": rq.get("var", ""),
                       "engine": pr["engine"], "matching": pr["matching"]})
    return ev


def proto_validate(ctx, blocks, tag, strict=False):
    """ManagedProtoTrace over history blocks; a rejected history is removed and the rest validated again.
    Returns (n_probes_accepted, rejected block indices with the rejected event, rapid hits)"""
    sd = ctx.spec_dir(SPEC)
    wd = os.path.join(ctx.scratch, "ptv-" + tag)
    if not os.path.isdir(wd):
        shutil.copytree(sd, wd, ignore=shutil.ignore_patterns("*.json", "*.ndjson", "states", "meta-*"))
    live = list(range(len(blocks)))
    rejected, rounds = [], 0
    while True:
        rounds += 1
        flat, owner = [{"ev": "config"}], [None]
        for bi in live:
            for e in blocks[bi]:
                flat.append(e)
                owner.append(bi)
        p = os.path.join(wd, "trace.ndjson")
        write_ndjson(p, flat)
        ok, hwm, r = ctx.tlc_trace(wd, "ManagedProtoTrace", p,
                                   cfg="ManagedProtoTrace_strict.cfg" if strict else "ManagedProtoTrace.cfg", timeout=900)
        hits = []
        for line in r.out.splitlines():
            if line.startswith('<<"KF-RAPID", '):
                k = int(line.split(",")[1].strip(" >"))
                hits.append((owner[k - 1], flat[k - 1]))
        if ok:
            return sum(1 for e in flat if e["ev"] == "probe"), rejected, hits
        if hwm < 1 or hwm >= len(flat):
            raise Broken("protocol trace validation made no progress (%s): %r\n%s" % (tag, r, r.out[-2000:]))
        bad, bi = flat[hwm], owner[hwm]
        if bad["ev"] != "probe":
            raise Broken("protocol trace validation rejected a non-probe event (%s): %s" % (tag, json.dumps(bad)[:300]))
        rejected.append((bi, bad, hwm - owner.index(bi)))
        live.remove(bi)
        if rounds >= 4 or not live:
            return -sum(1 for e in flat[:hwm] if e["ev"] == "probe"), rejected, hits


def proto_describe(h, ev, at):
    steps = []
    for st in h["steps"]:
        if st["op"] == "drain":
            steps.append("TTL passes")
        else:
            steps.append("load%s%s [%s]" % (" (unmanage immediately)" if st.get("immediate") else "", " +global" if st.get("global") else "",
                                            ", ".join("%s %s%s" % ("|".join(it["m"]) or "any", render(it["h"], it["p"]),
                                                                   (" hdr" if it.get("hdr") else "") if h["mode"] == "flow" else " r=%s d=%s" % (it["remedy"], "/".join(it["diags"]) or "-"))
                                                      for it in st["items"])))
    nsteps = sum(1 for e in ev[:at + 1] if e["ev"] in ("load", "drain"))
    return {"mode": h["mode"], "history": steps, "after_step": nsteps,
            "request": "%s %s" % (ev[at]["m"], render(ev[at]["h"], ev[at]["p"], ev[at]["var"])),
            "engine": ev[at]["engine"], "matching_expressions": ev[at]["matching"]}


def run_protocol(ctx, binary):
    T = ctx.thorough
    sd = ctx.spec_dir(SPEC)
    # exhaustive: the model of the reload protocol keeps everything the current configuration needs managed
    ctx.tlc_exhaustive(sd, "ProxyMapI", "MC_proto.cfg", timeout=600, label="reload protocol (policies mode): I => NoBypass on the resulting proxy map", workers=4)
    ctx.tlc_exhaustive(sd, "ProxyMapI", "MC_proto_mult.cfg", timeout=600, label="reload protocol, several registrations per expression: I => NoBypass", workers=4)
    ctx.tlc_exhaustive(sd, "ProxyMapI", "MC_proto_flow.cfg", timeout=600, label="reload protocol (flows mode): I => NoBypass on the resulting proxy map", workers=4)
    for cfg, what in (("MC_proto_nv_ptr.cfg", "removal set by pointer difference"), ("MC_proto_nv_rapid.cfg", "rapid-reload class present"),
                      ("MC_proto_nv_mult.cfg", "removal set computed pairwise per registration")):
        r = ctx.tlc(sd, "ProxyMapI", cfg, timeout=300, label="non-vacuity: %s must be refuted" % what, workers=2)
        if r.violated is None:
            raise Broken("non-vacuity run %s was not refuted: %r" % (cfg, r))
    # spec -> code: walks of the model, replayed in policies mode and in flows mode
    from vlib import tlc_vh_lines
    n = 12 if not T else 100
    hists, nwalks = [], 0
    for mode, cfg in (("policy", "GenC14P.cfg"), ("flow", "GenC14P_flow.cfg")):
        g = ctx.tlc(sd, "GenC14P", cfg, workers=1, simulate="num=%d" % n, depth=8, extra=["-seed", str(ctx.seed)],
                    timeout=600, label="reload histories generated from ProxyMapI (%s mode)" % mode)
        walks = tlc_vh_lines(g.out)
        if len(walks) < n // 3:
            raise Broken("history generation produced %d walks: %s" % (len(walks), g.out[-1500:]))
        walks = walks[: (8 if not T else 80)]
        nwalks += len(walks)
        hists += [history_of_walk(w, mode) for w in walks]
    # code -> spec: seeded random histories (keep / drop / re-add endpoints, disabled plugins, global, immediate, drained and rapid)
    nr = 30 if not T else 400
    hists += [rand_history(ctx.rng, "policy" if i % 3 else "flow", T) for i in range(nr)]
    reals = execute_proto(ctx, binary, hists, "h")
    blocks, used, drift, nprobe = [], [], 0, 0
    for h, real in zip(hists, reals):
        if real["err"]:
            ctx.notes.append("history not executed (%s): %s" % (h["mode"], real["err"][:160]))
            continue
        ev = proto_events(h, real)
        blocks.append(ev)
        used.append(h)
        nprobe += sum(1 for e in ev if e["ev"] == "probe")
        # model drift (bookkeeping only): the model's proxy state vs the map the admin calls produce
        if "model" in h:
            m, a = set(), False
            for st, so, ms in zip(h["steps"], real["steps"], h["model"]):
                for op in so["admin"]:
                    if op["op"] == "put":
                        m.add(op["e"])
                    elif op["op"] == "del":
                        m.discard(op["e"])
                    elif op["op"] == "manage_all":
                        a = True
                    elif op["op"] == "unmanage_global":
                        a = False
                for rq, pr in zip(h["reqs"], so["probes"]):
                    if rq.get("tag") in ("e1", "e2", "e3"):
                        if bool(m & set(pr["matching"])) != (rq["tag"] in ms["map"]) or a != ms["mall"]:
                            drift += 1
                            if drift == 1:
                                ctx.notes.append("first difference from ProxyMapI: mode=%s walk=%s at step %d: real map=%s manage_all=%s" % (
                                    h["mode"], json.dumps([{k: v for k, v in x.items()} for x in h["model"]]), h["model"].index(ms), sorted(m), a))
    if len(blocks) < len(hists) * 2 // 3:
        raise Broken("only %d of %d reload histories were executed" % (len(blocks), len(hists)))
    ctx.cov["evaluations"] += nprobe
    if drift:
        ctx.cov["model_drift"] = True
        ctx.notes.append("%d probes of generated reload histories differ from ProxyMapI's proxy state" % drift)
    n_ok, rejected, hits = proto_validate(ctx, blocks, "h")
    ctx.cov["traces_validated_against_impl"] += abs(n_ok)
    ctx.log("reload protocol: %d histories (%d generated by TLC), %d probes, %d differ from the model; %d accepted, %d histories rejected, %d rapid-reload hits"
            % (len(blocks), nwalks, nprobe, drift, abs(n_ok), len(rejected), len(hits)))
    ctx.sample({"kind": "reload-history", "events": blocks[0][:10]})
    for bi, e in hits[:1]:
        w = proto_describe(used[bi], blocks[bi], next(i for i, x in enumerate(blocks[bi]) if x is e))
        w["class"] = "rapid-reload"
        ctx.violation(w, {"history": {k: v for k, v in used[bi].items() if k != "model"}})
    for bi, bad, at in rejected[:3]:
        h = used[bi]
        w = proto_describe(h, blocks[bi], at)
        w["class"] = "bypass-after-reload"
        # reproduce: the same history again on the real code, judged again by the spec (flows: Go map order -> a few attempts)
        for attempt in range(1 if h["mode"] == "policy" else 5):
            real2 = execute_proto(ctx, binary, [h], "repro")[0]
            if real2["err"]:
                continue
            _, rej2, _ = proto_validate(ctx, [proto_events(h, real2)], "repro")
            if rej2:
                break
        else:
            raise Broken("rejected reload history not reproduced: %s" % json.dumps(w)[:800])
        ctx.violation(w, {"history": {k: v for k, v in h.items() if k != "model"}, "trace": blocks[bi]})
    return blocks

# ------------------------------------------------------------------------------------ run
def groups_of_case_files(raw, level_for_flow):
    """MC_C14 group files -> executor groups; flow items are executed at the given level(s)"""
    out = []
    for g in raw:
        if g["kind"] == "policy":
            out.append({"kind": "policy", "items": g["items"], "reqs": g["reqs"], "exp": g["exp"]})
        else:
            for lv in level_for_flow(g):
                out.append({"kind": lv, "items": g["items"], "reqs": g["reqs"], "exp": g["exp"]})
    return out


def run(ctx):
    T = ctx.thorough
    binary = ctx.build_harness("c14")
    sd = ctx.spec_dir(SPEC)
    ctx.cov["rule"] = ("case = (loaded item [policy endpoint or flow filter with its method list], request [method, URL, spelling variant of the URL text: canonical / trailing slash / upper-case host / trailing dot]) "
                       "at one binding level (policy tree / filter tree / loaded engine); evaluations = cases executed on the real code; "
                       "distinct_nontrivial = distinct generated cases in which the real engine matched the request or the request spells "
                       "the configured URL (the antecedent of NoBypass / Literal is true); traces_validated = req events accepted by TLC")
    ctx.cov["checker_cmd"] = "tlc -config MC_quick.cfg|MC_pairs.cfg|GenC14.cfg MC_C14.tla ; tlc -config ManagedTrace.cfg ManagedTrace.tla"
    ctx.cov["trusted_base"] = ["TLC", "CommunityModules Json/SequencesExt", "Go toolchain",
                               "Go regexp (RE2) standing in for HAProxy's regex library on the emitted expressions",
                               "harness/cmd/c14 (renders URLs, unanchored search in 'METHOD:::url', copies the engine's selection)",
                               "routing/export_verif_c14.go, runner/export_verif.go (call the unexported functions unchanged)"]
    ctx.assumptions += ["HAProxy's ACL plumbing (haproxy.cfg: capture.req.method,concat(':::',txn.url),map_reg) is read, not executed",
                        "request methods are the nine standard HTTP methods",
                        "request URLs are host + path as HAProxy reports them: no '://', '?' or '#' in the URL text (the flow lookup cuts the URL there)",
                        "path parameters occur in path segments only (not in host labels); request URLs have no '{x}' or '*' segment",
                        "over-matching by the proxy (managing a request the engine has nothing for) is not a violation"]

    # (1) exhaustive I => P + case generation; (2) seeded sample of the larger item space; non-vacuity variants
    nitems2 = 2 * 2 * sum(9 ** k for k in range(3)) * 5 + 2      # hosts x wildcard x bodies(<=2) x (1 policy + 3 flow method lists + 1 split)
    npick = 60 if not T else 0
    picks = sorted(ctx.rng.sample(range(1, nitems2 + 1), npick)) if npick else []
    with open(os.path.join(sd, "picks.ndjson"), "w") as f:
        for i in picks:
            f.write("%d\n" % i)
    W = 4 if not T else 8

    def job(j):
        kind, cfg, what = j
        if kind == "mc":
            return ctx.tlc_exhaustive(sd, "MC_C14", cfg, timeout=1500, label=what, heap="6g", workers=W)
        r = ctx.tlc(sd, "MC_C14", cfg, timeout=600, label="non-vacuity: %s must be refuted" % what, workers=2)
        if r.violated is None:
            raise Broken("non-vacuity run %s was not refuted: %r" % (cfg, r))
        return r
    jobs = [("mc", "MC_quick.cfg" if not T else "MC_pairs.cfg", "I=>P exhaustive + case generation"),
            ("nv", "MC_nv_quote.cfg", "only '.' quoted / narrow parameter names (O16)"),
            ("nv", "MC_nv_methods.cfg", "five default methods"),
            ("nv", "MC_nv_empty.cfg", "parameter standing for an empty segment"),
            ("nv", "MC_nv_ts.cfg", "trailing-slash class present")]
    if picks:
        jobs.insert(1, ("mc", "GenC14.cfg", "I=>P on the seeded sample + case generation"))
    parallel(job, jobs, n=5)
    raw = load_groups(sd, "g_" if not T else "p_") + load_groups(sd, "s_")
    if len(raw) < 50:
        raise Broken("case generation produced %d groups" % len(raw))

    # flow items: filter-tree level for all; loaded-engine level for a seeded subset (an engine build costs ~10 ms)
    eng_frac = 0.25 if not T else 0.5
    # two flows on one URL: the per-URL grouping only exists in the engine's request builder -> always at engine level
    groups = groups_of_case_files(raw, lambda g: ["flow"] + (["engine"] if g["eng"] or ctx.rng.random() < eng_frac else []))
    ncases = sum(len(g["reqs"]) for g in groups)
    ctx.log("generated %d item groups -> %d executor groups, %d cases (%d at engine level)" % (
        len(raw), len(groups), ncases, sum(len(g["reqs"]) for g in groups if g["kind"] == "engine")))
    ctx.cov["exhaustive"] = True

    # (3) spec -> code
    reals = execute(ctx, binary, groups, "gen")
    drift, blocks, kinds, seen, nts = 0, [], [], set(), 0
    classes = ctx.cov.setdefault("input_classes", {})
    frac = min(1.0, (5000.0 if not T else 50000.0) / max(1, ncases))
    for g, real in zip(groups, reals):
        if real["err"]:
            raise Broken("generated configuration not loaded (%s %s): %s" % (g["kind"], render(g["items"][0]["h"], g["items"][0]["p"]), real["err"][:300]))
        pick = set()
        for ri, (rq, exp, out) in enumerate(zip(g["reqs"], g["exp"], real["outs"])):
            ctx.cov["evaluations"] += 1
            for c in exp["cls"]:
                classes[c + "@" + g["kind"]] = classes.get(c + "@" + g["kind"], 0) + 1
            e_real, p_real = len(out["engine"]) > 0, len(out["proxy"]) > 0 or real["manage_all"]
            if (e_real, p_real) != (exp["engine"], exp["proxy"]):
                drift += 1
                if drift == 1:
                    ctx.notes.append("first difference from ManagedI: level=%s items=%s request=%s %s real(engine,managed)=%s model=%s" % (
                        g["kind"], json.dumps(g["items"]), rq["m"], render(rq["h"], rq["p"], rq["var"]), (e_real, p_real), (exp["engine"], exp["proxy"])))
                pick.add(ri)
            elif exp["v"] != "ok":
                pick.add(ri)
                nts += exp["v"] == "trailing-slash"
            elif ctx.rng.random() < frac:
                pick.add(ri)
            key = (g["kind"], len(g["items"]), tuple(g["items"][0]["m"]), render(g["items"][0]["h"], g["items"][0]["p"]), rq["m"], render(rq["h"], rq["p"], rq["var"]))
            if key not in seen:
                seen.add(key)
                if e_real or exp["spells"]:
                    ctx.cov["distinct_nontrivial"] += 1
        if pick:
            blocks.append(events_of(g, real, sorted(pick)))
            kinds.append(g["kind"])
    ctx.log("executed %d cases; %d real verdict pairs differ from the model's; %d in the known trailing-slash class; %d blocks to validate"
            % (ncases, drift, nts, len(blocks)))
    need = [c + "@" + k for k in ("policy", "flow", "engine")
            for c in ("engine-match", "proxy-over-match", "special-char-matched", "odd-param-name-matched", "wildcard-zero-tail", "trailing-slash-matched", "host-case-variant", "empty-segment", "host-boundary-moved")
            if not (c == "wildcard-zero-tail" and k != "policy")] + ["no-method-filter-HEAD@flow", "no-method-filter-HEAD@engine",
                                                                    "two-flows-one-url@flow", "two-flows-one-url@engine",
                                                                    "catch-all@engine", "catch-all-with-methods@engine"]
    missing = [c for c in need if not classes.get(c)]
    if missing:
        raise Broken("generated cases do not cover the input classes %s (vacuous replay)" % missing)
    if drift:
        ctx.cov["model_drift"] = True
        ctx.notes.append("%d real verdict pairs differ from ManagedI's (judged by trace validation)" % drift)
    k0 = next(i for i, g in enumerate(groups) if any(o["engine"] for o in reals[i]["outs"]))
    ctx.sample({"kind": "generated-case", "level": groups[k0]["kind"], "item": groups[k0]["items"][0],
                "exprs": [e["e"] for e in reals[k0]["exprs"]][:3], "request": groups[k0]["reqs"][0], "real": reals[k0]["outs"][0],
                "model": groups[k0]["exp"][0]})
    n1 = judge_blocks(ctx, binary, blocks, kinds, "generated", "gen")
    ctx.log("trace validation: %d real verdict pairs of generated cases accepted" % n1)

    # (4) code -> spec: seeded random configurations with several items and many special characters
    ng, nreq = (90, 16) if not T else (2500, 20)
    rgroups = [rand_group(ctx.rng, ctx.rng.choice(["policy", "flow", "flow", "engine"]), nreq) for _ in range(ng)]
    rreals = execute(ctx, binary, rgroups, "rand")
    rblocks, rkinds, nerr = [], [], 0
    for g, real in zip(rgroups, rreals):
        if real["err"]:
            nerr += 1
            if nerr <= 3:
                ctx.notes.append("random configuration not loaded (%s): %s" % (g["kind"], real["err"][:160]))
            continue
        ctx.cov["evaluations"] += len(g["reqs"])
        rblocks.append(events_of(g, real, range(len(g["reqs"]))))
        rkinds.append(g["kind"])
    if nerr > ng // 3:
        raise Broken("%d of %d random configurations were not loaded" % (nerr, ng))
    ctx.sample({"kind": "recorded-trace", "events": rblocks[0][:4]})
    n2 = judge_blocks(ctx, binary, rblocks, rkinds, "random", "rand")
    ctx.log("trace validation: %d real verdict pairs of random configurations accepted (%d configurations not loaded)" % (n2, nerr))
    if n1 + n2 == 0 and not ctx.violations:
        raise Broken("no real verdict was validated")

    # (4b) the registration protocol over histories of (re)loads
    pblocks = run_protocol(ctx, binary)

    # (5) binding self-test
    if T:
        selftest(ctx, blocks + rblocks)
        selftest_proto(ctx, pblocks)


def selftest(ctx, blocks):
    def find(pred):
        for b in blocks:
            for i, e in enumerate(b):
                if e["ev"] == "req" and pred(b, e):
                    return b, i
        raise Broken("self-test: no suitable event recorded")
    tests = []
    b, i = find(lambda b, e: e["engine"] and e["proxy"] and not b[0]["manage_all"] and e["var"] == "")
    bad = json.loads(json.dumps(b))
    bad[i]["proxy"] = False
    tests.append(("proxy verdict flipped to unmanaged", bad))
    b2, i2 = find(lambda b, e: not e["engine"] and not e["proxy"] and not b[0]["manage_all"] and e["var"] == "")
    bad = json.loads(json.dumps(b2))
    bad[i2]["engine"] = [bad[0]["items"][0]["name"]]
    tests.append(("engine verdict flipped to matched", bad))
    for name, blk in tests:
        _, rej, _ = tlc_validate(ctx, [blk], "selftest", strict=False)
        if not rej:
            raise Broken("self-test: corrupted recording accepted (%s)" % name)
    # Literal alone: a request that spells the configured URL (no wildcard, engine matched it, no trailing slash),
    # recorded as "engine did not match, proxy did not manage" - NoBypass is then vacuous, Literal must reject it
    b3, i3 = find(lambda b, e: len(b[0]["items"]) == 1 and (not b[0]["items"][0]["p"] or b[0]["items"][0]["p"][-1] != "*")
                  and e["engine"] and e["proxy"] and e["var"] == "" and not b[0]["manage_all"])
    bad = json.loads(json.dumps(b3))
    bad[i3]["engine"], bad[i3]["proxy"] = [], False
    _, rej, _ = tlc_validate(ctx, [bad], "selftest", strict=False)
    if not rej:
        raise Broken("self-test: literal spelling recorded as unmanaged was accepted")
    tests.append(("literally spelled request recorded as unmanaged", bad))
    ctx.notes.append("self-test: %d corrupted recordings rejected (%s)" % (len(tests), ", ".join(n for n, _ in tests)))


def selftest_proto(ctx, pblocks):
    """a recorded reload history with one PUT dropped / one DELETE added must be rejected"""
    for b in pblocks:
        for i, e in enumerate(b):
            if e["ev"] == "probe" and e["engine"] and len(e["matching"]) == 1:
                x = e["matching"][0]
                puts = [j for j, a in enumerate(b[:i]) if a["ev"] == "admin" and a["op"] == "put" and a["e"] == x]
                if not puts or any(a["ev"] == "admin" and a["op"] == "manage_all" for a in b):
                    continue
                dropped = [a for j, a in enumerate(b) if j not in puts]
                _, rej, _ = proto_validate(ctx, [dropped], "selftest", strict=False)
                added = b[:i] + [{"ev": "admin", "op": "del", "e": x}] + b[i:]
                _, rej2, _ = proto_validate(ctx, [added], "selftest", strict=False)
                if not rej or not rej2:
                    raise Broken("self-test: reload history with a dropped PUT / an added DELETE was accepted")
                ctx.notes.append("self-test: reload history with a dropped PUT and with an added DELETE rejected")
                return
    raise Broken("self-test: no suitable reload history recorded")


def replay(ctx, path):
    obj = json.load(open(path))
    binary = ctx.build_harness("c14")
    if "history" in obj["replay"]:
        h = obj["replay"]["history"]
        for attempt in range(1 if h["mode"] == "policy" else 5):
            real = execute_proto(ctx, binary, [h], "replay")[0]
            if real["err"]:
                print("history not executed: %s" % real["err"])
                return 2
            ev = proto_events(h, real)
            _, rej, hits = proto_validate(ctx, [ev], "replay")
            if rej:
                break
        for e in ev:
            print(json.dumps(e))
        if rej:
            print("VIOLATION property=C14 replay=%s" % path)
            print("   rejected: %s" % json.dumps(rej[0][1])[:400])
            return 1
        print("replay accepted%s" % (" only as the recorded finding class rapid-reload" if hits else " by the specification"))
        return 0
    g = obj["replay"]["group"]
    # engine level: what is registered may depend on Go map iteration order of one engine build -> up to 20 builds
    for attempt in range(20 if g["kind"] == "engine" else 1):
        real = execute(ctx, binary, [g], "replay")[0]
        if real["err"]:
            print("configuration not loaded: %s" % real["err"])
            return 2
        ev = events_of(g, real, range(len(g["reqs"])))
        _, rej, hits = tlc_validate(ctx, [ev], "replay", strict=False)
        if rej:
            break
    for e in real["exprs"]:
        print("expr", e["e"], e["rxerr"])
    for e in ev:
        print(json.dumps(e))
    if rej:
        print("VIOLATION property=C14 replay=%s" % path)
        print("   rejected: %s" % json.dumps(rej[0]["req"])[:400])
        return 1
    if hits:
        print("replay accepted only as the recorded finding class %s" % KF_CLASS)
        return 0
    print("replay accepted by the specification")
    return 0
