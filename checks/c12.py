"""C12 - stored responses are replayed only for the same key and only while fresh.

spec:     specs/c12_resp_cache  CacheP (property), CacheI (implementation-shaped), CacheTrace / CacheITrace, GenC12, MC_C12
binding:  harness/cmd/c12 drives the real CachingPlugin / ResponseBasedThrottlingPlugin (OnRequest, OnResponse) and
          utils.MemoryCache on a lock-step clock whose timers can be made to lag; yield point cache.set.checked
"""
import json, os, re
from vlib import Broken, read_ndjson, write_ndjson, validate_history_trace, parallel, tlc_vh_lines, split_histories

SPEC = "c12_resp_cache"
PERSEC = 4
TYPES = ["cache", "rel", "abs", "mem"]
# the key space of generated behaviours: k2, k3, k4 each differ from k1 in exactly one component of the key; k4 carries the
# same value as k1 in the *other* selected path parameter (the first one missing)
# k3 differs from k1 only in the letter case of a path segment (URLs are keys as they are spelled)
KEYS = {"k1": ("GET", "a.com/x", {"id": "1"}), "k2": ("POST", "a.com/x", {"id": "1"}), "k3": ("GET", "a.com/X", {"id": "1"}),
        "k4": ("GET", "a.com/x", {"org": "1"})}
GEN = {"cache": {"typ": "cache", "ttl": 3, "max": 4, "sel": ["id", "org"], "relevant": []},
       "rel": {"typ": "rel", "ttl": 0, "max": -1, "sel": [], "relevant": [429]},
       "abs": {"typ": "abs", "ttl": 0, "max": -1, "sel": [], "relevant": [429]},
       "mem": {"typ": "mem", "ttl": 0, "max": 4, "sel": ["id", "org"], "relevant": []}}
# configurations of the exhaustive instances (MC_*.cfg), needed to replay their counterexamples
MCCONF = {"cache": {"typ": "cache", "ttl": 2, "max": 3, "sel": ["id"], "relevant": []},
          "mem": {"typ": "mem", "ttl": 0, "max": 3, "sel": ["id", "org"], "relevant": []},
          "abs": {"typ": "abs", "ttl": 0, "max": -1, "sel": [], "relevant": [429]}}


UNREPRODUCED = []


class Unforceable(Exception):
    pass


# ----------------------------------------------------------------------------- scripts from model behaviours
def op_of(kid, typ, rng, extra):
    m, u, sel = KEYS[kid]
    pp = dict(sel, z=rng.choice(["p", "q", "r"])) if typ in ("cache", "mem") else {"z": rng.choice(["p", "q"])}
    d = {"m": m, "u": u, "pp": pp}
    d.update(extra)
    return d


def resp_of(e, typ, rng):
    return op_of(e["k"], typ, rng, {"v": "v%d" % e["v"], "st": e["st"], "hh": e["hh"], "hdr": e["hdr"], "sz": e["sz"]})


def hist_to_script(hist, typ, rng):
    """step history of CacheI (hist variable) -> executor events.  Steps of one writer that follow each other directly
    are one sequential response; interleaved ones become a directed schedule through the yield point
    cache.set.checked (has + size test happen at "start", the insertion at "release").  Returns (events, predictions)
    where predictions are the model's answers to the requests, in order."""
    n = len(hist)
    steps_of = {}
    for i, e in enumerate(hist):
        if e["ev"] == "wbegin":
            s = []
            for j in range(i + 1, n):
                f = hist[j]
                if f.get("w") == e["w"]:
                    if f["ev"] == "wbegin":
                        break
                    s.append(j)
            steps_of[i] = s
    events, preds, consumed = [], [], set()
    group, marks, ends = None, {}, {}
    for i, e in enumerate(hist):
        for a, k in marks.pop(i, []):
            group["steps"].append({"a": a, "i": k})
        ev = e["ev"]
        if i in consumed:
            pass
        elif ev == "wbegin":
            s = steps_of[i]
            if group is None and s == list(range(i + 1, i + 1 + len(s))):
                events.append(dict(resp_of(e, typ, rng), ev="resp"))
                consumed.update(s)
            else:
                if group is None:
                    group = {"ev": "sched", "ops": [], "steps": []}
                names = [hist[j]["ev"] for j in s]
                k = len(group["ops"])
                # a writer of the model that measures the replaced entry in a step of its own (wpeek) is held there
                # (yield point in the size function), any other one between the size test and the insertion
                peek = "wpeek" in names
                group["ops"].append(dict(resp_of(e, typ, rng), op="resp", gate=("winsert" in names and not peek), sgate=peek))
                start = next((j for j in s if hist[j]["ev"] == ("wpeek" if peek else "wcheck")), s[-1] if s else i)
                for j in range(i + 1, start):
                    if hist[j]["ev"] in ("winsert", "fire", "fire1") and hist[j].get("w") != e["w"]:
                        raise Unforceable("a write between the has test and the size test of one writer cannot be forced with one yield point")
                ends[k] = s[-1] if s else i
                if start == i:
                    group["steps"].append({"a": "start", "i": k})
                else:
                    marks.setdefault(start, []).append(("start", k))
                if "winsert" in names:
                    marks.setdefault(s[names.index("winsert")], []).append(("release", k))
                consumed.update(s)
        elif ev == "req":
            preds.append({"out": e["out"], "rv": ("v%d" % e["rv"]) if e["out"] == "replay" else "", "rhdr": e["rhdr"]})
            if group is None:
                events.append(dict(op_of(e["k"], typ, rng, {}), ev="req"))
            else:
                group["ops"].append(dict(op_of(e["k"], typ, rng, {}), op="req"))
                group["steps"].append({"a": "start", "i": len(group["ops"]) - 1})
        elif ev == "adv":
            if group is not None:
                raise Unforceable("clock advance inside a group of concurrent operations")
            events.append({"ev": "adv", "d": e["d"], "lag": 1})
        elif ev == "fire":
            if group is None:
                events.append({"ev": "fire"})
            else:
                group["steps"].append({"a": "fire"})
        elif ev == "fire1":
            if not (group is None and i > 0 and hist[i - 1]["ev"] in ("winsert", "fire1")):    # a sleeper that never slept runs by itself
                raise Unforceable("single sleeper firing")
        if group is not None and not marks and all(last <= i for last in ends.values()):
            events.append(group)
            group, ends = None, {}
    if group is not None:
        events.append(group)
    return events, preds


def probes(typ, rng):
    return [dict(op_of(k, typ, rng, {}), ev="req") for k in (sorted(KEYS) if typ in ("cache", "mem") else ["k1", "k2", "k3"])]


# ----------------------------------------------------------------------------- random scripts
def rand_config(rng, typ, first=False):
    cfg = {"typ": typ, "ttl": 0, "max": -1, "sel": [], "relevant": []}
    if typ in ("cache", "mem"):
        # the first configuration of every type always selects two parameters (keys that differ only in *which* one has a value)
        cfg["sel"] = ["id", "org"] if first else rng.choice([[], ["id"], ["id", "org"], ["org", "id"]])
        cfg["max"] = rng.choice([3, 4, 6])
        if typ == "cache":
            cfg["ttl"] = rng.choice([2, 3, 4, 6])
    else:
        cfg["relevant"] = rng.choice([[429], [429, 503]])
        cfg["hdrname"] = rng.choice(["Retry-After", "retry-after", "X-RateLimit-Retry-After"])    # the policy's spelling
    return cfg


def key_pool(rng, cfg):
    base = {"m": "GET", "u": "api.com/v1/items", "pp": {"id": "7", "org": "acme", "z": "0"}}
    pool = [base]
    def var(**kw):
        k = json.loads(json.dumps(base))
        for a, b in kw.items():
            if a in ("m", "u"):
                k[a] = b
            else:
                k["pp"][a] = b
        pool.append(k)
    var(m="POST"); var(u="api.com/v1/item"); var(id="8"); var(org="acm"); var(z="1")
    # URLs that differ only in the letter case of the path or of the query text, or by a trailing dot / slash, are
    # different keys (the host is left alone: host names are not case sensitive and the statement is open there)
    var(u="api.com/v1/Items"); var(u="api.com/V1/items"); var(u="api.com/v1/items?Q=a"); var(u="api.com/v1/items?q=a")
    var(u="api.com/v1/items."); var(u="api.com/v1/items/")
    var(id="AbC"); var(id="abc")     # ... and so are selected parameter values
    var(u="api.com/v1/items/AbC", id="AbC"); var(u="api.com/v1/items/abc", id="abc")    # the differing segment is the parameter
    var(id="")                       # a parameter without a value
    var(id="7.org:acme", org="")     # a value that spells out the next selected parameter
    var(id="acme", org="7")          # the same values, permuted
    var(id="7", org="")              # one of two selected parameters missing ...
    var(id="", org="7")              # ... and the same value sitting in the other one
    if cfg["typ"] in ("rel", "abs"):      # only method and URL are in the throttling remedy's key
        seen, uniq = set(), []
        for k in pool:
            if (k["m"], k["u"]) not in seen:
                seen.add((k["m"], k["u"]))
                uniq.append(k)
        pool = uniq
    return pool


def rand_history(rng, cfg, n, conc):
    typ = cfg["typ"]
    pool = key_pool(rng, cfg)
    hot = [pool[0]] + rng.sample(pool[1:], rng.choice([1, 2, 3]))
    now = rng.randint(0, 7)
    h = [{"ev": "reset", "now": now}]
    vid = [0]
    exps = []

    def key():
        k = rng.choice(hot) if rng.random() < 0.75 else rng.choice(pool)
        k = json.loads(json.dumps(k))
        if typ in ("cache", "mem") and rng.random() < 0.3:
            k["pp"]["z"] = rng.choice(["0", "1", "2"])
        return k

    stored = []

    def resp():
        vid[0] += 1
        o = key()
        stored.append({k: o[k] for k in ("m", "u", "pp")})
        o.update({"v": "v%d" % vid[0], "st": 200, "hh": 0, "hdr": -1, "sz": rng.choice([1, 1, 2, 3])})
        if typ == "mem":
            o.update({"hh": 1, "hdr": rng.choice([0, 1, 2, 3, 5])})
            exps.append(now + o["hdr"])
        elif typ == "cache":
            exps.append(now + cfg["ttl"])
        else:
            o["st"] = rng.choice([429, 429, 429, 503, 200])
            o["sz"] = 1
            if rng.random() < 0.9:
                o["hh"] = 2 if rng.random() < 0.2 else 1      # 2: the provider spells the header in another letter case
                o["hdr"] = rng.choice([0, 1, 2, 3, 5, 8]) if typ == "rel" else now + rng.choice([-1, 0, 1, 2, 3, 5, 8])
                exps.append(now + o["hdr"] if typ == "rel" else o["hdr"])
        return o

    def size_race(peek=False):
        """writers held at the yield point between the size test and the insertion, around the size limit: same and different
        keys, overwrites with larger and smaller values, refused writes; then further writes; then every key is probed"""
        keys = rng.sample(pool, 2) + [rng.choice(pool)]
        ops = []
        for _ in range(1 if peek else rng.randint(2, 3)):
            o = resp()
            o.update(json.loads(json.dumps(rng.choice(stored[-3:] if peek and stored else keys))))
            o.update({"op": "resp", "gate": not peek, "sgate": peek, "sz": rng.choice([1, 2, 2, 3])})
            ops.append(o)
        order = list(range(len(ops)))
        rng.shuffle(order)
        steps = [{"a": "start", "i": i} for i in order]
        if peek:        # overwrite against expiry of the same key: the writer is held while it measures the entry it
            steps.append({"a": "fire"})     # replaces (yield point in the size function), the clean-up goroutines are woken
        rng.shuffle(order)
        steps += [{"a": "release", "i": i} for i in order]
        out = [{"ev": "sched", "ops": ops, "steps": steps}]
        for _ in range(rng.randint(1, 2)):
            o = resp()
            o.update(json.loads(json.dumps(rng.choice(pool))))
            o["sz"] = rng.choice([1, 1, 2])
            out.append(dict(o, ev="resp"))
        return out + [dict(json.loads(json.dumps(k)), ev="req") for k in pool]

    lagging = False
    for _ in range(n):
        x = rng.random()
        if x < 0.08 and typ in ("cache", "mem"):
            fut = [t - now for t in exps if t >= now]
            if typ == "mem" and fut and rng.random() < 0.5:
                d = max(1, min(fut))
                now += d
                h.append({"ev": "adv", "d": d, "lag": 1})       # an entry expires, its clean-up lags
                lagging = False                                 # (the race delivers the timers)
                h.extend(size_race(peek=True))
            else:
                h.extend(size_race())
        elif x < 0.22:
            fut = [t - now for t in exps if t >= now]
            d = rng.choice([1, 1, 2, 3] + ([min(fut), min(fut) + 1, max(fut) + 1] if fut else []))
            d = max(1, d)
            lag = 1 if rng.random() < 0.3 else 0
            lagging = lagging or lag == 1
            now += d
            h.append({"ev": "adv", "d": d, "lag": lag})
        elif x < 0.27 and lagging:
            h.append({"ev": "fire"})
            lagging = False
        elif conc and x < 0.37:
            ops = []
            for _ in range(rng.randint(2, 4)):
                if rng.random() < 0.55:
                    ops.append(dict(resp(), op="resp"))
                else:
                    ops.append(dict(key(), op="req"))
            h.append({"ev": "conc", "ops": ops})
        elif x < 0.60:
            h.append(dict(resp(), ev="resp"))
        elif x < 0.68:
            h.extend(dict(json.loads(json.dumps(k)), ev="req") for k in pool)      # probe every key at one instant
        else:
            h.append(dict(key(), ev="req"))
    return h


# ----------------------------------------------------------------------------- execution and judgement
def execute(ctx, binary, scripts, tag):
    """one executor process per script (configuration), several at a time: the background goroutines an instance of
    the code under test leaves behind stay within their process"""
    d = ctx.sub("run-" + tag)
    def one(it):
        i, sc = it
        sd = os.path.join(d, "s%03d" % i)
        os.makedirs(sd, exist_ok=True)
        sp = os.path.join(sd, "scripts.json")
        json.dump([sc], open(sp, "w"))
        ctx.run_harness(binary, ["run", sp, sd], timeout=900, cwd=sd)
        return read_ndjson(os.path.join(sd, "trace-000.ndjson"))
    return parallel(one, list(enumerate(scripts)), n=6)


def ops_of(h):
    return [e for e in h if e["ev"] in ("req", "resp") or (e["ev"] == "begin")]


def nontrivial(h):
    """the history exercises the property: some request was answered from memory and a later request for a key that had
    a candidate was sent on to the provider after the clock had moved"""
    replay, adv_after, seen = False, False, False
    for e in h:
        if e.get("out") == "replay":
            replay = True
        elif e["ev"] == "adv" and replay:
            adv_after = True
        elif e.get("out") == "noop" and adv_after:
            seen = True
    return seen


def witness_of(rej):
    h, at, cfg = rej["hist"], rej["at"], rej["config"]
    e = h[at]
    conc = e["ev"] in ("begin", "end")
    if e["ev"] == "end":             # the linearization search failed at the return of this operation
        e = next(x for x in h if x["ev"] == "begin" and x["id"] == e["id"])
    now, born = 0, {}
    for x in h[: at + 1]:
        if x["ev"] == "reset":
            now = x["now"]
        elif x["ev"] == "adv":
            now += x["d"]
        if "v" in x:
            born[x["v"]] = (now, x)
    w = {"class": "answer-not-permitted-by-spec", "typ": cfg["typ"], "event": {k: e.get(k) for k in ("ev", "m", "u", "pp", "out", "rv", "rst", "rhdr", "id")},
         "now": now, "concurrent": conc, "invariant": rej.get("invariant")}
    rv = e.get("rv")
    if e.get("out") == "replay" and rv in born:
        t0, r = born[rv]
        sel = cfg["sel"]
        same = (r["m"], r["u"], [r["pp"].get(s, "") for s in sel]) == (e["m"], e["u"], [e["pp"].get(s, "") for s in sel])
        exp = t0 + cfg["ttl"] if cfg["typ"] == "cache" else (r["hdr"] if cfg["typ"] == "abs" else t0 + r["hdr"])
        w.update({"stored_at": t0, "expires": exp, "same_key": same})
        if not same:
            w["class"] = "replay-for-another-key"
        elif now > exp:
            w["class"] = "stale-replay"
            w["overrun_ticks"] = now - exp
            w["stored_off_second"] = t0 % PERSEC != 0
        elif cfg["typ"] in ("rel", "abs"):
            w["class"] = "retry-after-wrong"
        else:
            w["class"] = "size-bound"
    elif e.get("out") == "replay":
        w["class"] = "replay-of-unknown-value"
    return w


def judge(ctx, binary, scripts, traces, tag, seen, flags):
    """validate recorded traces against CacheP (verdict) and CacheI (conformance of the model); confirm each
    rejection by re-execution; report."""
    def one(it):
        i, ev = it
        return validate_history_trace(ctx, SPEC, "CacheTrace", ev, tag="%s%d" % (tag, i), deque=True)
    res = parallel(one, list(enumerate(traces)), n=6)
    ctx.log("%s: %d traces (%d events) validated against CacheP" % (tag, len(traces), sum(len(t) for t in traces)))
    for (acc, rejected, rounds), ev, sc in zip(res, traces, scripts):
        cfg, hs = split_histories(ev)
        ctx.cov["traces_validated_against_impl"] += acc
        for h in hs:
            ctx.cov["evaluations"] += len(ops_of(h))
            key = json.dumps([cfg, h], sort_keys=True)
            if key not in seen:
                seen.add(key)
                if nontrivial(h):
                    ctx.cov["distinct_nontrivial"] += 1
        for rej in rejected:
            if len(ctx.violations) >= 12:       # enough confirmed witnesses: do not spend the budget on more of the same
                break
            w = witness_of(rej)
            hi = hs.index(rej["hist"])
            script = [{"config": sc["config"], "histories": [sc["histories"][hi]]}]
            reproduced = False
            for attempt in range(1 if not w["concurrent"] else 20):
                t2 = execute(ctx, binary, script, "%s-repro" % tag)[0]
                a2, r2, _ = validate_history_trace(ctx, SPEC, "CacheTrace", t2, tag="%s-repro" % tag, deque=True)
                if r2:
                    reproduced = True
                    break
            if not reproduced:
                # schedule-dependent and not reproducible: never reported as a violation; the run is broken (exit 2)
                # unless other, reproducible violations are reported
                ctx.notes.append("UNREPRODUCED (%s): %s" % (tag, json.dumps(w)[:400]))
                UNREPRODUCED.append(w)
                continue
            ctx.violation(w, {"script": script, "trace": [rej["config"]] + rej["hist"], "rejected_at": rej["at"]})
    # conformance of the implementation-shaped model (never a verdict)
    def drift(it):
        i, ev = it
        rej = None
        for kf, trunc in flags:
            e2 = [dict(ev[0], kf=kf, trunc=trunc, persec=PERSEC)] + ev[1:]
            try:
                acc, rej, _ = validate_history_trace(ctx, SPEC, "CacheITrace", e2, tag="%s-i%d-%d%d" % (tag, i, kf, trunc), max_rounds=1, timeout=400 if ctx.thorough else 60, deque=True)
            except Broken:               # the search ran out of time or memory: no statement about this recording
                return "inconclusive"
            if not rej:
                return None
        return rej[0]
    sel = list(enumerate(traces))
    if tag == "rand":                    # every other random recording
        sel = sel[::2]
    drifts = parallel(drift, sel, n=5)
    inconclusive = sum(1 for d in drifts if d == "inconclusive")
    ctx.log("%s: %d traces validated against CacheI (%d inconclusive)" % (tag, len(sel), inconclusive))
    if sel and inconclusive == len(sel) and not ctx.violations:
        raise Broken("conformance of CacheI to the code could not be established for any %s recording" % tag)
    if inconclusive:
        ctx.notes.append("%s: %d of %d CacheI validations ran out of time (no statement)" % (tag, inconclusive, len(sel)))
    drifts = [d for d in drifts if d != "inconclusive"]
    for d in drifts:
        if d is not None:
            ctx.cov["model_drift"] = True
            if len([n for n in ctx.notes if n.startswith("MODEL-DRIFT")]) < 5:
                ctx.notes.append("MODEL-DRIFT (%s): the code does not behave like CacheI at %s" % (tag, json.dumps(d["hist"][d["at"]])[:300]))


def witnesses(ctx, sd, module, cfg, names):
    """non-vacuity: each witness invariant denies a situation the properties talk about and must be *violated*"""
    base = open(os.path.join(sd, cfg)).read()
    def one(w):
        c = "wit_%s.cfg" % w
        open(os.path.join(sd, c), "w").write(re.sub(r"(?m)^INVARIANTS.*$", "INVARIANTS " + w, base))
        return ctx.tlc(sd, module, c, workers=2, timeout=600, label="witness " + w, count=False)
    for w, r in zip(names, parallel(one, names, n=4)):
        if r.violated != w:
            raise Broken("vacuous model: the situation denied by %s is never reached (%r)" % (w, r))
    ctx.notes.append("non-vacuity witnesses reached: " + ", ".join(names))


def coverage(ctx, results, actions):
    """-coverage 1: every action of the implementation-shaped model must have been taken in some exhaustive run"""
    tot = {}
    for r in results:
        for a, d, g in re.findall(r"(?m)^<(\w+) line [^>]*>: (\d+):(\d+)", r.out):
            tot[a] = tot.get(a, 0) + int(g)
    dead = [a for a in actions if not tot.get(a)]
    if dead:
        raise Broken("vacuous model: actions never taken in any exhaustive run: %s" % dead)
    ctx.notes.append("action coverage (states generated per action, summed over the exhaustive runs): " +
                     ", ".join("%s=%d" % (a, tot[a]) for a in actions))


def cx_of(r):
    """counterexample step histories printed by a violated Cx* invariant"""
    out = []
    for line in r.out.splitlines():
        if line.startswith('<<"CX", "') and line.endswith('">>'):
            s = line[len('<<"CX", "'):-3].replace('\\"', '"').replace('\\\\', '\\')
            out.append(json.loads(s))
    return out


def run(ctx):
    T = ctx.thorough
    binary = ctx.build_harness("c12")
    sd = ctx.spec_dir(SPEC)
    ctx.cov["rule"] = ("histories = TLC -simulate walks of CacheI (sequential driver, lagging sleepers) per remedy type + TLC counterexample "
                       "schedules of the deviating model variants forced through the yield point + seeded random scripts (keys differing in "
                       "one component, advances landing on / just after expiry instants, lagging clean-up, sizes around the limit, concurrent "
                       "groups); a history is non-trivial when a request was answered from memory and, after a clock advance, a later request "
                       "was sent on to the provider; distinct by (config, events)")
    ctx.cov["checker_cmd"] = "tlc -config MC_cache.cfg MC_C12.tla (and MC_rel, MC_abs, MC_mem); tlc -config CacheTrace.cfg CacheTrace.tla"
    ctx.cov["trusted_base"] = ["TLC 1.8", "CommunityModules Json", "Go toolchain", "harness/internal/c12q lock-step clock and goroutine-dump quiescence test",
                               "harness/cmd/c12 projection (NoOp=noop, EarlyResponse=replay of the value whose unique tag the body starts with; "
                               "retry-after header parsed to ticks)"]
    ctx.assumptions += ["1 tick = 250 ms; time-to-live and retry-after values are whole ticks", "one size unit = 1 KiB as measured by the remedy's own size function",
                        "an operation (OnRequest/OnResponse) is shorter than a tick: the clock does not move while one is in flight",
                        "value tags are unique per history"]
    seen = set()

    # (1) exhaustive: I => P on bounded instances; every deviating variant must be refuted (non-vacuity) and its
    #     counterexample is kept as a directed schedule for the real code
    sfx = "_large" if T else ""
    good = [("MC_cache" + sfx, "caching remedy"), ("MC_rel" + sfx, "throttling remedy, relative retry-after"),
            ("MC_abs" + sfx, "throttling remedy, absolute retry-after"), ("MC_mem" + sfx, "MemoryCache driven directly")]
    bad = [("MC_cache_kf", "cache", "size test outside the lock"), ("MC_cache_noexp", "cache", "no expiry test in Get"),
           ("MC_abs_trunc", "abs", "clock truncated to whole seconds"), ("MC_cache_leak", "cache", "overwritten entry's size not given back"),
           ("MC_mem_refleak", "mem", "refused overwrite does not restore the accounting"),
           ("MC_mem_peek", "mem", "replaced entry measured before the lock is taken")]
    def mc(it):
        name, what = it[0], it[-1]
        if it in good:
            return ctx.tlc_exhaustive(sd, "MC_C12", name + ".cfg", workers=4, timeout=1500, label="I=>P " + what,
                                      extra=["-coverage", "1"] if T else [])
        return ctx.tlc(sd, "MC_C12", name + ".cfg", workers=1, timeout=300, label="non-vacuity: " + what)
    rs = parallel(mc, good + bad, n=4 if not T else 3)
    cxs = {}
    for it, r in zip(good + bad, rs):
        if it in bad:
            if r.violated is None or not cx_of(r):
                raise Broken("the model cannot tell the variant '%s' from the property (vacuous check): %r" % (it[2], r))
            cxs[it[0]] = (it[1], cx_of(r))

    if T:
        witnesses(ctx, sd, "MC_C12", "MC_cache_wit.cfg", ["WitReplay", "WitLaggingNoop", "WitSizeReject", "WitStaleSleeper"])
        coverage(ctx, [r for it, r in zip(good + bad, rs) if it in good],
                 ["Advance", "FireDue", "WBegin", "WHas", "WCheck", "WInsert", "Req"])

    # (2) the counterexamples of the deviating variants, forced on the real code and judged by P
    scripts, names = [], []
    for name, (typ, hists) in sorted(cxs.items()):
        evs, why = None, None
        for hist in hists:           # TLC prints the history of every violating state it met: take the first forceable one
            try:
                evs, _ = hist_to_script(hist, typ, ctx.rng)
                break
            except Unforceable as u:
                why = u
        if evs is None:
            raise Broken("counterexample of %s cannot be forced on the real code: %s" % (name, why))
        tail = [{"ev": "adv", "d": 20}, {"ev": "req", **{k: v for k, v in op_of("k1", typ, ctx.rng, {}).items()}}] if name == "MC_cache_leak" else []
        if name == "MC_mem_peek":       # the counterexample ends with an under-counting cache: fill it up by its own accounting
            evs = evs + [dict(op_of(k, typ, ctx.rng, {"v": "f%d" % n, "st": 200, "hh": 1, "hdr": 9, "sz": 1}), ev="resp")
                         for n, k in enumerate(["k2", "k3", "k4", "k2"])]
        scripts.append({"config": MCCONF[typ], "histories": [[{"ev": "reset", "now": 0}] + evs + probes(typ, ctx.rng) + tail]})
        names.append(name)
    traces = execute(ctx, binary, scripts, "cx")
    for name, tr in zip(names, traces):
        if name == "MC_cache_leak":
            lastev = tr[-1]
            ctx.notes.append("accounting after the overwrite schedule and expiry of everything: accounted size %s units, %s entries (%s)" % (
                lastev.get("cur"), lastev.get("n"), "capacity leaked" if lastev.get("cur", 0) > 0 and lastev.get("n") == 0 else "exact"))
    ctx.sample({"kind": "forced-counterexample-schedule", "model": names[0], "events": traces[0][:14]})
    judge(ctx, binary, scripts, traces, "cx", seen, [(0, 0), (1, 1), (1, 0), (0, 1)])

    # (3) spec -> code: TLC-generated behaviours of CacheI, replayed; the real answers are judged by P and compared with I
    n = 60 if not T else 400
    def gen(typ):
        return ctx.tlc(sd, "GenC12", "GenC12_%s.cfg" % typ, workers=1, simulate="num=%d" % n, depth=45,
                       extra=["-seed", str(ctx.seed)], timeout=600, label="behaviour generation " + typ)
    gens = parallel(gen, TYPES, n=4)
    scripts, allpreds = [], []
    for typ, g in zip(TYPES, gens):
        bs = tlc_vh_lines(g.out)
        if len(bs) < n // 2:
            raise Broken("behaviour generation (%s) produced %d walks: %s" % (typ, len(bs), g.out[-1500:]))
        hs, ps = [], []
        for b in bs:
            evs, preds = hist_to_script(b, typ, ctx.rng)
            hs.append([{"ev": "reset", "now": 0}] + evs)
            ps.append(preds)
        scripts.append({"config": GEN[typ], "histories": hs})
        allpreds.append(ps)
    traces = execute(ctx, binary, scripts, "gen")
    mism = tot = 0
    for tr, ps in zip(traces, allpreds):
        _, real = split_histories(tr)
        for h, preds in zip(real, ps):
            got = [{"out": e["out"], "rv": e["rv"], "rhdr": e["rhdr"]} for e in h if e["ev"] == "req"]
            tot += 1
            mism += got != preds
    ctx.log("replayed %d TLC behaviours, %d differ from the model's prediction" % (tot, mism))
    if mism:
        ctx.notes.append("%d of %d replayed behaviours differ from CacheI's prediction (judged by P below)" % (mism, tot))
    ctx.sample({"kind": "tlc-behaviour-replayed", "config": GEN["cache"], "events": traces[0][1:12]})
    judge(ctx, binary, scripts, traces, "gen", seen, [(0, 0), (1, 1), (1, 0), (0, 1)])

    # (4) code -> spec: random scripts incl. concurrency, recorded and validated
    ncfg, nh, hl = (8, 16, 30) if not T else (32, 80, 40)
    scripts = []
    for c in range(ncfg):
        cfg = rand_config(ctx.rng, TYPES[c % 4], first=c < 4)
        scripts.append({"config": cfg, "histories": [rand_history(ctx.rng, cfg, hl, conc=(i % 3 == 2)) for i in range(nh)]})
    traces = execute(ctx, binary, scripts, "rand")
    ctx.log("recorded %d random scripts" % len(scripts))
    ctx.sample({"kind": "recorded-trace", "events": traces[0][:12]})
    judge(ctx, binary, scripts, traces, "rand", seen, [(0, 0), (1, 1), (1, 0), (0, 1)])
    if UNREPRODUCED and not ctx.violations:
        raise Broken("%d rejection(s) by the specification could not be reproduced: %s" % (len(UNREPRODUCED), json.dumps(UNREPRODUCED[0])[:600]))
    if ctx.cov["distinct_nontrivial"] < 20 and not ctx.violations:
        raise Broken("only %d non-trivial histories: the run does not exercise the property" % ctx.cov["distinct_nontrivial"])

    # (5) binding self-test (thorough): corrupted recordings must be rejected
    if T:
        ev = traces[0]
        k = next(i for i, e in enumerate(ev) if e.get("ev") == "req" and e.get("out") == "replay")
        bad1 = [dict(e) for e in ev]; bad1[k]["rv"] = "v999"
        k2 = next(i for i, e in enumerate(ev) if e.get("ev") == "resp" and any(x.get("rv") == e["v"] for x in ev[i:i + 30]))
        bad2 = [e for i, e in enumerate(ev) if i != k2]
        bad3 = [dict(e) for e in ev]; bad3[k]["m"] = "DELETE"
        for nm, b in (("value", bad1), ("dropped-response", bad2), ("key", bad3)):
            _, rej, _ = validate_history_trace(ctx, SPEC, "CacheTrace", b, tag="self-" + nm, max_rounds=1, deque=True)
            if not rej:
                raise Broken("self-test: corrupted trace (%s) accepted" % nm)
        ctx.notes.append("self-test: corrupted value tag, dropped response event and corrupted key were all rejected")


def replay(ctx, path):
    obj = json.load(open(path))
    binary = ctx.build_harness("c12")
    t = execute(ctx, binary, obj["replay"]["script"], "replay")[0]
    acc, rej, _ = validate_history_trace(ctx, SPEC, "CacheTrace", t, tag="replay", deque=True)
    for e in t:
        print(json.dumps(e))
    if rej:
        print("VIOLATION property=C12 replay=%s" % path)
        print("   rejected at event %d: %s" % (rej[0]["at"], json.dumps(rej[0]["hist"][rej[0]["at"]])))
        return 1
    print("replay accepted by the specification")
    return 0
