"""C16 - obfuscation hides every value that is not explicitly excluded.

spec:     specs/c16_obfuscation  ObfP (property per leaf + structure), ObfI (transcription of the cursor-string walk, the
          exclusion test and the HAR collector's prefix selection; variants suffix / exact / name), MC_C16, GenC16 (bounded
          input space as a constant set), ObfTrace (one event per executed case, judged by ObfP)
binding:  harness/cmd/c16 renders documents and exclusions to text, calls the real Obfuscator.ObfuscateJSON (production MD5
          hasher), the HAR collector's body obfuscation (export_verif_c16.go) or the legacy HARGeneratorPlugin.GenerateHAR and
          projects the output leaf by leaf
"""
import json, os, re
from vlib import Broken, read_ndjson
from fnjudge import judge_cases, judge_cases_detail, exhaustive_parallel

SPEC = "c16_obfuscation"

NAMES = ["name", "Name", "id", "user", "body", "request", "items", "a", "data"]
STRS = ["", "x", "Alice", "d41d8cd98f00b204e9800998ecf8427e", "a\"b\\c", "zé ✓", "<tag>&", "line\nbreak", "null", "true", "12"]
NUMS = ["0", "-1", "7", "10", "3.14159", "1.50", "10.999", "1e5", "-2.5E-3", "123456789012", "0.1", "-0", "1e400",
        "123456789012345678901234567890"]


# (Content-Encoding value, how the JSON text travels): declared encodings the exporters decode, do not decode, and lies
ENCODINGS = [("", "plain"), ("", "plain"), ("gzip", "gzip"), ("gzip", "gzip"), ("gzip", "plain"), ("identity", "plain"), ("br", "plain"),
             ("gzip, deflate", "plain"), ("gzip, deflate", "gzip"), ("GZIP", "gzip"), ("x-gzip", "gzip"), ("deflate", "plain"), ("", "gzip"),
             ("br", "gzip")]


def transport(rng, c):
    """give an exporter case (legacy HAR generator, generateHAR pair) a transport: header value, header spelling, wire form"""
    enc, wire = rng.choice(ENCODINGS)
    c["enc"], c["wire"] = enc, wire
    if enc and rng.random() < 0.3:
        c["enc_name"] = "content-encoding"
    return c


def leaf(rng):
    t = rng.choice(["s", "s", "s", "n", "n", "b", "z"])
    v = rng.choice(STRS) if t == "s" else rng.choice(NUMS) if t == "n" else rng.choice(["true", "false"]) if t == "b" else "null"
    return {"k": "leaf", "t": t, "f": [], "v": v}


def rand_doc(rng, depth):
    x = rng.random()
    if depth == 0 or x < 0.25:
        return leaf(rng)
    if x < 0.5:
        return {"k": "arr", "t": "", "f": [rand_doc(rng, depth - 1) for _ in range(rng.randint(0, 3))]}
    keys = rng.sample(NAMES, rng.randint(0, 4))
    return {"k": "obj", "t": "", "f": [[k, rand_doc(rng, depth - 1)] for k in keys]}


def node_paths(d, p=()):
    """pattern paths of every node (containers and leaves)"""
    out = [p]
    if d["k"] == "arr":
        for c in d["f"]:
            out += node_paths(c, p + ("[]",))
    elif d["k"] == "obj":
        for k, c in d["f"]:
            out += node_paths(c, p + (k,))
    return out


FOREIGN = ['$.request.headers["authorization"]', "$.request.query_param.id", "$.request.path_segments[*]", "qui", "name", ".", "$",
           "$.request.bodyguard%s", "$.response.bodyx%s", "x%s", "$.body%s", "request.body%s", "$.request.body.%s"]


def render(segs):
    return "".join("[]" if s == "[]" else "." + s for s in segs)


def rand_excl(rng, paths, entry):
    x = rng.random()
    base = list(rng.choice(paths))
    kind = "real"
    if x < 0.40:
        segs = base
    elif x < 0.70:       # the real path is a proper suffix of the exclusion: must expose nothing
        segs = [rng.choice(NAMES + ["[]"]) for _ in range(rng.randint(1, 2))] + base
        kind = "collision"
    elif x < 0.82:
        segs = base[:-1] + [rng.choice(NAMES)] if base else [rng.choice(NAMES)]
    else:
        raw = rng.choice(FOREIGN)
        raw = raw % render(base) if "%s" in raw else raw
        return {"n": "foreign", "segs": base, "raw": raw}, "foreign"
    if entry == "json":
        n = rng.choice(["plain", "plain", "request", "response"])
    elif entry.startswith("legacy"):
        n = rng.choice(["plain", "plain", "plain", "plain_other", "plain_other", "request"])
    else:
        n = rng.choice(["request", "request", "response", "response", "response", "plain"])
    return {"n": n, "segs": segs}, kind


def rand_case(rng, depth):
    entry = rng.choice(["json", "json", "har_request", "har_response", "legacy_request", "legacy_response"])
    doc = rand_doc(rng, depth)
    if doc["k"] == "obj" and rng.random() < 0.5:
        # graft a copy of a nested subtree at the top level: the same names at different depths
        subs = [(k, c) for k, c in doc["f"] if c["k"] == "obj" and c["f"]]
        if subs:
            _, c = rng.choice(subs)
            k2, c2 = rng.choice(c["f"])
            if k2 not in [k for k, _ in doc["f"]]:
                doc["f"].append([k2, json.loads(json.dumps(c2))])
    paths = node_paths(doc)
    excl, kinds = [], set()
    for _ in range(rng.choice([0, 1, 1, 2, 2, 3])):
        x, kind = rand_excl(rng, paths, entry)
        excl.append(x); kinds.add(kind)
    c = {"entry": entry, "excl": excl, "doc": doc, "_kinds": sorted(kinds)}
    return transport(rng, c) if entry.startswith("legacy") else c


def execute(ctx, binary, cases, tag, conc=None):
    """run mode: one event per case, in order.  conc=(workers, millis): concurrent mode, one event per distinct output of a worker"""
    d = ctx.sub("run-" + tag)
    cp, tp = os.path.join(d, "cases.json"), os.path.join(d, "trace.ndjson")
    json.dump([{k: v for k, v in c.items() if not k.startswith("_")} for c in cases], open(cp, "w"))
    if conc:
        ctx.run_harness(binary, ["conc", cp, tp, str(conc[0]), str(conc[1])])
        return read_ndjson(tp)
    ctx.run_harness(binary, ["run", cp, tp])
    ev = read_ndjson(tp)
    if len(ev) != len(cases):
        raise Broken("executor returned %d events for %d cases" % (len(ev), len(cases)))
    return ev


def nontrivial(e):
    cs = {l["c"] for l in e["leaves"]}
    return "kept" in cs and "hidden" in cs


def witness_of(e, detail):
    """classification of a rejected case from what TLC printed (offending leaf indices) - bookkeeping only"""
    m = re.search(r"\{([^}]*)\}", detail or "")
    idx = [int(x) - 1 for x in re.findall(r"\d+", m.group(1))] if m else []
    bad = [e["leaves"][i] for i in idx if i < len(e["leaves"])]
    if e["shape"] != "same":
        cls = "structure-not-preserved"
    elif any(l["c"] == "kept" for l in bad):
        cls = "value-exposed-outside-excluded-paths"
    elif any(l["c"] == "hidden" for l in bad):
        cls = "excluded-value-not-kept"
    else:
        cls = "value-neither-hashed-nor-kept"
    if e.get("enc") or e.get("wire", "plain") != "plain":
        cls += "-content-encoding-" + (e["enc"] or "none").replace(", ", "+") + "-on-" + e["wire"] + "-body"
    return {"class": cls, "entry": e["entry"], "content_encoding": e.get("enc", ""), "wire": e.get("wire", "plain"), "exclusions": e["excl_strings"], "input": e["in"][:400], "output": e["out"][:400],
            "shape": e["shape"], "offending_leaves": bad[:6]}


def judge(ctx, binary, cases, events, tag, seen):
    drift = set()
    rej = judge_cases_detail(ctx, SPEC, "ObfTrace", events, tag, drift=drift)
    drift -= set(rej)
    if drift:      # permitted by ObfP but not what the implementation-shaped model computes
        ctx.cov["model_drift"] = True
        e = events[min(drift)]
        ctx.notes.append("MODEL-DRIFT (%s): %d real outputs permitted by ObfP differ from ObfI, e.g. %s" % (
            tag, len(drift), json.dumps({k: e[k] for k in ("entry", "excl_strings", "in", "out")})[:500]))
    ctx.cov["evaluations"] += len(events)
    ctx.cov["traces_validated_against_impl"] += len(events) - len(rej)
    for e in events:
        key = json.dumps([e["entry"], e["excl_strings"], e["in"]])
        if key not in seen:
            seen.add(key)
            if nontrivial(e):
                ctx.cov["distinct_nontrivial"] += 1
    reported, done_h = {}, set()
    for i in sorted(rej):
        w = witness_of(events[i], rej[i])
        h = cases[i].get("h", 0)
        if reported.get(w["class"], 0) >= 6 or (h and h in done_h) or len(ctx.violations) >= 12:     # a few replayable witnesses per failing class are enough
            continue
        reported[w["class"]] = reported.get(w["class"], 0) + 1
        strip = lambda c: {x: v for x, v in c.items() if not x.startswith("_")}
        j = i
        while h and j > 0 and cases[j - 1].get("h", 0) == h:
            j -= 1
        k = i + 1 if cases[i].get("pair") == "req" else i
        # re-execute the case (with the bodies that went through the same object before it); when that does not show the
        # rejection again it may depend on what EARLIER calls of the batch left behind (pools, caches): re-execute it after
        # more and more of its predecessors, in order, in one process, up to the whole prefix of the batch
        d2, before = None, 0
        for before in [0, 1, 2, 4, 8, 32, 128, 512, j]:
            lo = max(0, j - before)
            hids = {}
            hist = [dict(strip(c), id=n, h=hids.setdefault(c.get("h", 0), len(hids) + 1) if c.get("h", 0) else 0)
                    for n, c in enumerate(cases[lo:k + 1])]
            ev2 = execute(ctx, binary, hist, tag + "-repro")
            d2 = {n: v for n, v in judge_cases_detail(ctx, SPEC, "ObfTrace", ev2, tag + "-repro").items() if n >= j - lo}
            if d2 or lo == 0:
                break
        if not d2:
            raise Broken("rejection not reproduced (%s): %s" % (tag, json.dumps(events[i])[:800]))
        earlier = j - lo
        n = min(d2)
        w2 = witness_of(ev2[n], d2[n])
        if earlier:
            w2["class"] += "-after-earlier-calls"
            w2["earlier_calls_needed"] = earlier
            w2["calls_before"] = [[c["entry"], c.get("garbage", ""), ev2[m]["excl_strings"], ev2[m]["in"][:60]] for m, c in enumerate(hist[:n])][-4:]
        elif h:
            w2["class"] += "-in-a-history-on-one-obfuscator-object"
            w2["bodies_before"] = [[c["entry"], ev2[m]["in"][:80]] for m, c in enumerate(hist[:n])]
        ctx.violation(w2, {"history": hist, "events": [{x: v for x, v in e.items() if x not in ("doc", "otree")} for e in ev2],
                           "rejected": sorted(d2)})
    return rej


def relabel(doc, rng):
    """a copy of the document with the same structure and other leaf values (response of the same API as the request)"""
    if doc["k"] == "leaf":
        return leaf(rng)
    if doc["k"] == "arr":
        return dict(doc, f=[relabel(c, rng) for c in doc["f"]])
    return dict(doc, f=[[k, relabel(c, rng)] for k, c in doc["f"]])


def rand_history(rng, depth):
    """bodies of one or more transactions handled by ONE obfuscator object of the HAR collector (object history), or the request
    and response body of one transaction exported by the collector's generateHAR (pair); one exclusion list for all of them"""
    docs = [rand_doc(rng, rng.randint(1, depth))]
    for _ in range(rng.randint(1, 4)):
        docs.append(relabel(rng.choice(docs), rng) if rng.random() < 0.6 else rand_doc(rng, rng.randint(1, depth)))
    paths = [p for d in docs for p in node_paths(d)]
    excl = []
    for _ in range(rng.choice([1, 1, 2, 2, 3])):
        x, _ = rand_excl(rng, paths, "har_request")
        excl.append(x)
    if rng.random() < 0.5:
        return [transport(rng, dict(entry="har_request", excl=excl, doc=docs[0], pair="req")),
                transport(rng, dict(entry="har_response", excl=excl, doc=docs[1], pair="resp"))]
    out, e = [], "har_request"
    for d in docs:
        out.append(dict(entry=e, excl=excl, doc=d))
        e = "har_response" if e == "har_request" or rng.random() < 0.3 else "har_request"
    return out


def rand_fail_history(rng, depth):
    """calls whose body fails to parse (every way a body can fail, with a non-empty exclusion list) interleaved with valid documents
    that have fields on the paths excluded in the failed call - under another (often empty) exclusion list.  Sequential calls of one
    process: what a failed call leaves behind must not reach a later call."""
    out = []
    entry = rng.choice(["json", "json", "har_request", "har_response", "legacy_request", "legacy_response"])
    for _ in range(rng.randint(1, 3)):
        doc = rand_doc(rng, rng.randint(1, depth))
        while doc["k"] == "leaf" or not doc["f"]:
            doc = rand_doc(rng, rng.randint(1, depth))
        paths = [p for p in node_paths(doc) if p]
        n = {"json": rng.choice(["plain", "request"]), "har_request": "request", "har_response": "response",
             "legacy_request": "plain", "legacy_response": "plain"}[entry]
        excl = [{"n": n, "segs": list(p)} for p in rng.sample(paths, min(len(paths), rng.randint(1, 3)))]
        bad = {"entry": entry, "excl": excl, "doc": doc, "garbage": rng.choice(["form", "truncated", "trailing", "binary"])}
        if entry.startswith("legacy") and rng.random() < 0.4:          # an undecodable body of the exporter instead
            bad = dict({"entry": entry, "excl": excl, "doc": doc}, enc=rng.choice(["br", ""]), wire="gzip")
        out.append(bad)
        for _ in range(rng.randint(1, 2)):      # the same API's next valid bodies: same fields, other exclusions
            e2 = rng.choice([entry, entry, "json"])
            n2 = {"json": "plain", "har_request": "request", "har_response": "response", "legacy_request": "plain", "legacy_response": "plain"}[e2]
            other = [] if rng.random() < 0.6 else [{"n": n2, "segs": list(rng.choice(paths))}]
            out.append({"entry": e2, "excl": other, "doc": relabel(doc, rng) if rng.random() < 0.5 else doc})
    return out


def chain(rng, depth, mode):
    """a document nested `depth` containers deep (objects, arrays or both), a leaf at the bottom, side leaves on some levels"""
    d = {"k": "obj", "t": "", "f": [["a", leaf(rng)], ["b", leaf(rng)]]}
    path = []
    for lvl in range(depth - 1):
        kind = mode if mode != "mixed" else rng.choice(["obj", "arr"])
        if kind == "arr":
            d = {"k": "arr", "t": "", "f": [d] + ([leaf(rng)] if rng.random() < 0.2 else [])}
            path.insert(0, "[]")
        else:
            d = {"k": "obj", "t": "", "f": [["a", d]] + ([["b", leaf(rng)]] if rng.random() < 0.2 else [])}
            path.insert(0, "a")
    return d, path


def deep_cases(rng):
    """document depth: chains of 33, 64 and 200 levels, without exclusions and with an exclusion reaching far below the top"""
    out = []
    for depth in (31, 32, 33, 34, 40, 64, 200):
        for mode in ("obj", "arr", "mixed"):
            doc, path = chain(rng, depth, mode)
            for entry, n in (("json", "plain"), ("har_response", "response"), ("legacy_request", "plain")):
                for excl in ([], [path + ["a"]], [path[:depth - 3]], [path[:min(36, len(path))] + ["zz"]]):
                    if entry != "json" and depth == 200 and excl:
                        continue
                    out.append({"entry": entry, "excl": [{"n": n, "segs": x} for x in excl], "doc": doc})
    return out


def big_cases(rng, n):
    """large documents (several hundred KB) with an excluded subtree of long strings, one per worker, each tagged with its worker"""
    cases = []
    for w in range(n):
        tag = "<w%02d>" % w
        big = {"k": "arr", "t": "", "times": rng.choice([24, 48]),
               "f": [{"k": "leaf", "t": "s", "f": [], "v": tag, "rep": rng.choice([4096, 8192])}]}
        small = {"k": "obj", "t": "", "f": [["id", {"k": "leaf", "t": "n", "f": [], "v": str(w)}],
                                             ["name", {"k": "leaf", "t": "s", "f": [], "v": "name-of-%d" % w}]]}
        doc = {"k": "obj", "t": "", "f": [["keep", big if w % 4 else {"k": "obj", "t": "", "f": [["items", big], ["user", small]]}],
                                          ["secret", {"k": "leaf", "t": "s", "f": [], "v": "secret-of-%02d" % w}], ["user", small]]}
        entry = ["json", "json", "har_request", "har_response", "legacy_request"][w % 5]
        n_ = {"json": ["plain", "request", "response"][w % 3], "har_request": "request", "har_response": "response",
              "legacy_request": "plain"}[entry]
        cases.append({"id": w, "entry": entry, "excl": [{"n": n_, "segs": ["keep"]}, {"n": n_, "segs": ["user", "id"]}], "doc": doc})
    return cases


def judge_conc(ctx, binary, cases, workers, millis):
    """concurrent obfuscation: every distinct output of every worker is judged by ObfTrace against the worker's own document"""
    events = execute(ctx, binary, cases, "conc", conc=(workers, millis))
    calls = sum(e["calls"] for e in events)
    rej = judge_cases_detail(ctx, SPEC, "ObfTrace", events, "conc", chunk=400)
    ctx.cov["evaluations"] += calls
    ctx.cov["traces_validated_against_impl"] += sum(e["calls"] for i, e in enumerate(events) if i not in rej)
    if rej:
        i = min(rej)
        for attempt in range(20):      # concurrent: the rejection must show again on a new run
            ev2 = execute(ctx, binary, cases, "conc-repro", conc=(workers, millis))
            d2 = judge_cases_detail(ctx, SPEC, "ObfTrace", ev2, "conc-repro", chunk=400)
            if d2:
                n = min(d2)
                w = witness_of(ev2[n], d2[n])
                w["class"] += "-under-concurrent-obfuscation"
                w["worker"], w["workers"], w["attempts"] = ev2[n]["worker"], workers, attempt + 1
                ctx.violation(w, {"conc": cases, "workers": workers, "millis": millis, "event": ev2[n]})
                break
        else:
            raise Broken("concurrent rejection not reproduced in 20 attempts: %s" % json.dumps(events[i])[:600])
    ctx.log("concurrent: %d workers, %d calls on %d large documents, %d distinct outputs, %d rejected" % (
        workers, calls, len(cases), len(events), len(rej)))
    return calls, events, rej


def gen_cases(ctx, cfg):
    gd = ctx.spec_dir(SPEC)
    r = ctx.tlc(gd, "GenC16", cfg, workers=1, timeout=900, label="case generation %s" % cfg)
    path = os.path.join(gd, "gen_cases.json")
    if not r.ok or not os.path.exists(path):
        raise Broken("case generation failed: %r\n%s" % (r, r.out[-2000:]))
    cases = json.load(open(path))["cases"]
    os.remove(path)
    return cases


def run(ctx):
    T = ctx.thorough
    binary = ctx.build_harness("c16")
    sd = ctx.spec_dir(SPEC)
    ctx.cov["rule"] = ("a case = (entry point, document, exclusion set) executed on the real code; cases = the model's bounded input space "
                       "(TLC constant set: every document over 2 keys up to depth 2 x every exclusion set of the generation bound, both "
                       "entry points) + seeded random documents (8 names reused at every depth, a nested subtree grafted at the top "
                       "level, strings/numbers/booleans/null) with exclusions drawn from real paths, from paths that merely end with a "
                       "real path, near misses and foreign strings, in every notation; a case is non-trivial when the real output contains "
                       "both kept and hidden leaves; distinct by (entry, exclusion strings, document text)")
    ctx.cov["checker_cmd"] = "tlc -config MC_json_quick.cfg MC_C16.tla ; tlc -config Gen_json_quick.cfg GenC16.tla ; tlc -config ObfTrace.cfg ObfTrace.tla"
    ctx.cov["trusted_base"] = ["TLC 1.8", "CommunityModules Json", "Go toolchain", "encoding/json (parsing of the obfuscated output)",
                               "harness/cmd/c16: rendering of documents and exclusions to text; leaf projection kept / hidden / other with "
                               "hidden = production MD5Hasher of a canonical form (string bytes; number token, %.2f, shortest float; true/false; null)",
                               "test_utils.NewMockAPIStream as the transaction of the HAR collector"]
    ctx.assumptions += ["keys contain no '.', '[' or '$' and are unique within an object (the path notation is ambiguous otherwise)",
                        "array steps are written '[]' in both notations (the only form the code supports)",
                        "a body whose declared Content-Encoding is not one the exporter decodes (anything but none / exact 'gzip' on gzip data) may "
                        "be exported opaque (empty or whole-body hash) instead of obfuscated leaf by leaf, never verbatim",
                        "the statement is silent on null: a null outside excluded paths may be hashed or kept",
                        "the plain notation is not a notation of the HAR collector's exclusion list, a JSONPath is not a notation of the legacy "
                        "exporter's request_body_paths / response_body_paths: their effect there is left open"]

    # (1) exhaustive I => P; the pinned commit's suffix test and a by-name variant must be refuted (non-vacuity)
    ex = [("MC_json_quick.cfg", "I=>P ObfuscateJSON"), ("MC_har_quick.cfg", "I=>P HAR collector bodies"),
          ("MC_legacy_quick.cfg", "I=>P legacy HAR generator bodies")] if not T else \
         [("MC_json_T1.cfg", "I=>P ObfuscateJSON incl. null, 3 notations, pairs"), ("MC_json_T2.cfg", "I=>P keys a,b,body, paths <= 3"),
          ("MC_json_T3.cfg", "I=>P depth 3"), ("MC_har_T4.cfg", "I=>P HAR collector, keys a,b,body"),
          ("MC_json_T5.cfg", "I=>P depth 3, arrays <= 2, single plain exclusions up to length 3"),
          ("MC_json_T6.cfg", "I=>P depth 3, pairs of exclusions"),
          ("MC_json_quick.cfg", "I=>P ObfuscateJSON"), ("MC_har_quick.cfg", "I=>P HAR collector bodies"),
          ("MC_legacy_quick.cfg", "I=>P legacy HAR generator bodies")]
    runs = [(cfg, label, None) for cfg, label in ex] + [
        ("MC_json_quick_suffix.cfg", "non-vacuity: the suffix test of the pinned commit must be refuted", "Conforms"),
        ("MC_json_quick_name.cfg", "non-vacuity: exclusion by key name must be refuted", "Conforms"),
        ("MC_body_verbatim.cfg", "non-vacuity: an undecoded body exported as received must be refuted", "ASSUME")]
    exhaustive_parallel(ctx, sd, "MC_C16", runs, workers=4 if not T else 8, par=5 if not T else 2)

    seen = set()
    # (2) spec -> code: the bounded input space generated by TLC, executed completely
    gens = ["Gen_json_quick.cfg", "Gen_har_quick.cfg", "Gen_legacy_quick.cfg"] + (["Gen_json_T.cfg", "Gen_har_T.cfg"] if T else [])
    cases = []
    for g in gens:
        cases += gen_cases(ctx, g)
    # the HAR collector cases go through one obfuscator object per exclusion set, request body first then the response body
    # of the same document (as generateHAR does), eight bodies per object
    har = sorted((c for c in cases if c["entry"].startswith("har_")),
                 key=lambda c: (json.dumps(c["excl"], sort_keys=True), json.dumps(c["doc"], sort_keys=True), c["entry"]))
    cases = [c for c in cases if not c["entry"].startswith("har_")]
    h, last, n = 0, None, 0
    for c in har:
        k = json.dumps(c["excl"], sort_keys=True)
        if k != last or n >= 8:
            h, last, n = h + 1, k, 0
        c["h"] = h
        n += 1
    cases += har
    for i, c in enumerate(cases):
        c["id"] = i
        if c["entry"].startswith("legacy"):      # the generated legacy-exporter cases travel under seeded Content-Encoding variants
            transport(ctx.rng, c)
    events = execute(ctx, binary, cases, "gen")
    rej = judge(ctx, binary, cases, events, "gen", seen)
    ctx.log("executed %d generated cases: %d rejected by the spec" % (len(cases), len(rej)))
    ctx.cov["exhaustive"] = True
    ctx.notes.append("generated input space executed completely: %d cases" % len(cases))
    k = next((i for i, e in enumerate(events) if nontrivial(e) and len(e["leaves"]) >= 3), 0)
    ctx.sample({"kind": "generated-case", "entry": events[k]["entry"], "exclusions": events[k]["excl_strings"], "in": events[k]["in"],
                "out": events[k]["out"], "leaves": events[k]["leaves"]})
    gen_events, gen_rej = events, set(rej)

    # (3) code -> spec: seeded random documents and exclusion sets
    n, depth = (4000, 4) if not T else (40000, 5)
    cases = [rand_case(ctx.rng, ctx.rng.randint(1, depth)) for _ in range(n)]
    for i, c in enumerate(cases):
        c["id"] = i
    events = execute(ctx, binary, cases, "rand")
    rej = judge(ctx, binary, cases, events, "rand", seen)
    rand_events = events
    coll = sum(1 for c, e in zip(cases, events) if "collision" in c["_kinds"] and any(l["c"] == "hidden" for l in e["leaves"]))
    types = {}
    for e in events:
        for l in e["leaves"]:
            types[(l["t"], l["c"])] = types.get((l["t"], l["c"]), 0) + 1
    for t in "snb":
        if not ctx.violations and (not types.get((t, "hidden")) or not types.get((t, "kept"))):
            raise Broken("random cases never produced a hidden and a kept leaf of type %s (vacuous): %s" % (t, types))
    ctx.log("random: %d cases, %d rejected; %d cases with a colliding exclusion and hidden leaves; leaves by (type, class): %s" % (
        n, len(rej), coll, sorted(types.items())))
    ctx.notes.append("random cases whose exclusion merely ends with a real path (must expose nothing): %d" % coll)
    k = next((i for i, (c, e) in enumerate(zip(cases, events)) if "collision" in c["_kinds"] and nontrivial(e)), 0)
    ctx.sample({"kind": "random-case", "entry": events[k]["entry"], "exclusions": events[k]["excl_strings"], "in": events[k]["in"][:300],
                "out": events[k]["out"][:300]})

    # (3b) histories on one obfuscator object (several bodies in a row; request + response body of one generateHAR call)
    hc = []
    for k in range(500 if not T else 5000):
        for c in rand_history(ctx.rng, depth):
            hc.append(dict(c, id=len(hc), h=k + 1))
    events = execute(ctx, binary, hc, "hist")
    rej = judge(ctx, binary, hc, events, "hist", seen)
    ctx.log("histories on one obfuscator object: %d bodies in %d histories (%d generateHAR pairs), %d rejected" % (
        len(hc), hc[-1]["h"], sum(1 for c in hc if c.get("pair") == "req"), len(rej)))
    ctx.notes.append("bodies obfuscated in histories on one obfuscator object / by one generateHAR call: %d random + the generated HAR cases" % len(hc))

    hist_events = events
    # (3b') calls that fail to parse interleaved with valid documents on the same paths; deeply nested documents
    fc = []
    for k in range(400 if not T else 4000):
        fc += rand_fail_history(ctx.rng, depth)
    dc = deep_cases(ctx.rng)
    for i, c in enumerate(fc + dc):
        c["id"] = i
    events = execute(ctx, binary, fc + dc, "fail")
    rej = judge(ctx, binary, fc + dc, events, "fail", seen)
    failed = sum(1 for e in events if e["shape"] == "opaque")
    deepest = max(max((len(l["p"]) for l in e["leaves"]), default=0) for e in events)
    if not ctx.violations and (failed < len(fc) // 8 or deepest < 190):
        raise Broken("failing calls / deep documents not exercised (vacuous): %d opaque of %d, deepest leaf %d" % (failed, len(fc), deepest))
    ctx.log("failing calls interleaved with valid documents: %d calls (%d exported nothing); deep documents: %d (deepest leaf at %d), %d rejected" % (
        len(fc), failed, len(dc), deepest, len(rej)))
    ctx.notes.append("sequential histories with unparsable bodies (form-encoded, truncated, trailing data, binary, undecodable gzip) under non-empty "
                     "exclusion lists followed by valid documents on the same paths: %d calls; documents nested 31..200 levels: %d" % (len(fc), len(dc)))
    events = hist_events + events

    tr = {}
    for e in gen_events + rand_events + events:
        if e["enc"] or e["wire"] != "plain":
            k = (e["enc"], e["wire"], "same" if e["shape"] == "same" else e["shape"])
            tr[k] = tr.get(k, 0) + 1
    if not ctx.violations and (not any(k[2] == "opaque" for k in tr) or not tr.get(("gzip", "gzip", "same")) or not tr.get(("br", "plain", "same"))):
        raise Broken("content-encoding variants not exercised (vacuous): %s" % tr)
    ctx.notes.append("exporter bodies under Content-Encoding variants (value, wire form, outcome): %s" % sorted(tr.items()))

    # (3c) concurrent obfuscation of large documents with excluded subtrees: per-call judgement
    workers = 32
    calls, cev, _ = judge_conc(ctx, binary, big_cases(ctx.rng, workers), workers, 1200 if not T else 8000)
    if calls < 4 * workers and not ctx.violations:
        raise Broken("concurrent stage made only %d calls (vacuous)" % calls)
    ctx.notes.append("concurrent obfuscation: %d calls by %d goroutines on documents of 100-400 KB" % (calls, workers))

    # (4) binding self-test: corrupted recordings of accepted cases must be rejected by the spec
    src = [json.loads(json.dumps(e)) for i, e in enumerate(gen_events) if i not in gen_rej and nontrivial(e)][:400]
    bad = []
    e = next((x for x in src if x["excl"]), None)
    if e:
        e = json.loads(json.dumps(e))
        j = next(i for i, l in enumerate(e["leaves"]) if l["c"] == "hidden")
        e["leaves"][j]["c"] = "kept"; bad.append(("a hidden leaf reported as exposed", e))
        e = json.loads(json.dumps(src[1 % len(src)]))
        j = next(i for i, l in enumerate(e["leaves"]) if l["c"] == "kept")
        e["leaves"][j]["c"] = "hidden"; bad.append(("an excluded leaf reported as hashed", e))
        e = json.loads(json.dumps(src[2 % len(src)]))
        e["shape"] = "key-lost-a at "; bad.append(("structure changed", e))
        e = json.loads(json.dumps(src[3 % len(src)]))
        e["excl"] = []; bad.append(("exclusions dropped from the record", e))
        e = json.loads(json.dumps(src[4 % len(src)]))
        e["shape"], e["enc"], e["wire"] = "opaque", "", "plain"; bad.append(("a decodable body reported as exported opaque", e))
    if len(bad) < 5 and not ctx.violations:
        raise Broken("binding self-test: no accepted case to corrupt")
    for i, (_, e) in enumerate(bad):
        e["id"] = i
    rj = judge_cases(ctx, SPEC, "ObfTrace", [e for _, e in bad], "selftest")
    if rj != list(range(len(bad))):
        raise Broken("binding self-test: corrupted events accepted by the spec: %s" % [bad[i][0] for i in range(len(bad)) if i not in rj])
    ctx.notes.append("self-test: corrupted events rejected: %s" % ", ".join(n for n, _ in bad))


    if ctx.cov["model_drift"]:        # DESIGN.md 2.5: the exhaustive result is then not counted as covering the code
        ctx.cov["states"] = ctx.cov["transitions"] = 0


def replay(ctx, path):
    obj = json.load(open(path))
    binary = ctx.build_harness("c16")
    r = obj["replay"]
    if "conc" in r:
        for attempt in range(20):
            ev = execute(ctx, binary, r["conc"], "replay", conc=(r["workers"], r["millis"]))
            d = judge_cases_detail(ctx, SPEC, "ObfTrace", ev, "replay", chunk=400)
            if d:
                break
    else:
        ev = execute(ctx, binary, r.get("history") or [r["case"]], "replay")
        d = judge_cases_detail(ctx, SPEC, "ObfTrace", ev, "replay")
        for e in ev:
            print(json.dumps({k: e[k] for k in ("entry", "excl_strings", "in", "out", "shape")})[:1500])
    if d:
        n = min(d)
        print("VIOLATION property=C16 replay=%s" % path)
        print("   witness: %s" % json.dumps(witness_of(ev[n], d[n]))[:600])
        return 1
    print("replay accepted by the specification")
    return 0
