"""X06 (growth) - the flow processors' own contracts: Filter, GenerateResponse, MockProcessor, DataSanitation,
UserDefinedMetrics, UserDefinedTraces, CustomScript and the parameter plumbing (processor_util.go / processors_config.go).

spec:     specs/x06_processors
          ProcText (texts as character sequences: wildcard / regexp sub-language, URL splitting), ProcParamsP (registry, load rules
          L1-L5), ProcFilterP / ProcSimpleP / ProcSanitP / ProcMetricsP / ProcScriptP (the statements, derived from the registry
          YAML descriptions, README, sample flows, the processors' own tests and comments - written at the top of each module;
          named deviations of the engine from those texts), Proc*I (transcriptions of the Go code), ProcEngineI (dispatch by kind),
          MC_X06F / MC_X06G (bounded case spaces, one TLC state per case: I => P; case export with the models' predictions),
          ProcTrace (trace validation: the set of effective configurations still consistent with everything observed).
binding:  harness/cmd/x06 builds a REAL engine (streams.Stream) per case from flow YAML rendered here - the processor under test sits
          in a real flow between marker processors, the condition it takes is observed through the processor executed next
          (proc.exec point), its answer / modification through the actions handed back, metrics through the process's Prometheus
          registry - and records what happened.  TLC judges every recorded load and transaction side (ProcTrace).
"""
import json, os, re, copy, shutil
from vlib import Broken, read_ndjson, write_ndjson, parallel

SPEC = "x06_processors"
LEVEL = "model_checking"
ALLDEV = ["url_unanchored", "url_scheme_literal", "urls_first_host", "endpoint_whole_url", "header_malformed", "headers_shadowed",
          "range_unchecked", "type_error_silent", "unknown_param_ignored", "status_string_zero", "scrub_stops_after_overlap",
          "ignored_unmasks_overlap", "metric_error_aborts_flow", "script_changes_not_forwarded"]

DEV_TEXT = {
    "url_unanchored": "Filter url: the pattern is searched anywhere in host+path and '.' stands for any character",
    "url_scheme_literal": "Filter url: a pattern written with a scheme and without '*' never hits (the gateway's URL has no scheme)",
    "urls_first_host": "Filter urls: the first list item whose host matches decides, later items are not consulted",
    "endpoint_whole_url": "Filter endpoint: compared with host+path, '*' taken literally - a path such as /p never hits",
    "header_malformed": "Filter header: a text that is not name=value is dropped silently",
    "headers_shadowed": "Filter: with `header` written, `headers` is not consulted",
    "range_unchecked": "Filter status_code_range: from > to or outside 100-599 is only logged",
    "type_error_silent": "a parameter value of the wrong type is silently replaced by the zero value, the flow loads",
    "unknown_param_ignored": "a parameter the processor does not declare is silently dropped, the flow loads",
    "status_string_zero": "GenerateResponse.status is declared `string` in the registry; a written string gives status 0",
    "scrub_stops_after_overlap": "DataSanitation (default configuration): after a credit-card number written with separators nothing later in the body is scrubbed",
    "ignored_unmasks_overlap": "DataSanitation: ignoring Phone also switches off the scrubbing of blocklisted card numbers / IPs / SSNs",
    "metric_error_aborts_flow": "UserDefinedMetrics: when the value cannot be read the whole flow execution fails (later processors do not run)",
    "script_changes_not_forwarded": "CustomScript: the changes are seen by later processors only, the provider receives the request as it came",
}

# ------------------------------------------------------------------------------------------------ texts / values


def S(chars):
    return "".join(chars)


def C(s):
    return list(s)


def VStr(s):
    return {"t": "str", "s": C(s)}


def VInt(n):
    return {"t": "int", "n": n}


def VSList(l):
    return {"t": "slist", "l": [C(x) for x in l]}


def VSMap(m):
    return {"t": "smap", "m": [[C(k), C(v)] for k, v in m]}


def VNList(l):
    return {"t": "nlist", "nl": list(l)}


def VJs(stmts):
    return {"t": "js", "js": [{"op": op, "a": C(a), "b": C(b)} for op, a, b in stmts]}


def js_text(stmts):
    out = []
    for s in stmts:
        a, b = json.dumps(S(s["a"])), json.dumps(S(s["b"]))
        op = s["op"]
        if op == "sethdr":
            out.append("request.headers[%s] = %s;" % (a, b))
        elif op == "delhdr":
            out.append("delete request.headers[%s];" % a)
        elif op == "setbody":
            out.append("request.body.%s = %s;" % (S(s["a"]), b))
        elif op == "resphdr":
            out.append("response.headers[%s] = %s;" % (a, b))
        elif op == "throw":
            out.append("throw new Error('x06');")
        elif op == "deref":
            out.append("request.body.nosuch.deeper.leaf = 1;")
        elif op == "syntax":
            out.append("delet request;")
        else:
            raise Broken("unknown statement %r" % (s,))
    return " ".join(out)


def py_value(v):
    """a written value of the specification -> the python value rendered into the YAML"""
    t = v["t"]
    if t == "str":
        return S(v["s"])
    if t == "int":
        return v["n"]
    if t == "float":
        return float(v["n"])
    if t == "bool":
        return bool(v["b"])
    if t == "slist":
        return [S(x) for x in v["l"]]
    if t == "nlist":
        return list(v["nl"])
    if t == "smap":
        return {S(k): S(x) for k, x in v["m"]}
    if t == "js":
        return js_text(v["js"])
    raise Broken("unknown value %r" % (v,))


def par_items(par):
    return sorted(par.items()) if isinstance(par, dict) else []


# ------------------------------------------------------------------------------------------------ YAML rendering

START = "    - from:\n        stream:\n          name: globalStream\n          at: start\n"
TO_END = "      to:\n        stream:\n          name: globalStream\n          at: end\n"


def to_proc(n):
    return "      to:\n        processor:\n          name: %s\n" % n


def from_proc(n, cond=None):
    return "    - from:\n        processor:\n          name: %s\n%s" % (n, ("          condition: %s\n" % cond) if cond else "")


def proc(key, kind, ps):
    s = "  %s:\n    processor: %s\n" % (key, kind)
    if ps:
        s += "    parameters:\n"
        for k, v in ps:
            s += "      - key: %s\n        value: %s\n" % (json.dumps(k), json.dumps(v))
    return s


def marker(key):
    """a processor that takes part in the walk and changes nothing: a Filter; both its outputs end the walk"""
    return proc(key, "Filter", [("status_code_range", "100-599")])


def marker_out(key):
    return from_proc(key, "hit") + TO_END + from_proc(key, "miss") + TO_END


NOOP_DIR = START + TO_END


def flow_yaml(kind, par, side, uniq):
    """the fixture: the processor under test (key `put`) inside a real flow.  side: the direction whose sides are sent."""
    ps = [(k, py_value(v)) for k, v in par_items(par)]
    if kind == "UserDefinedMetrics":
        ps = [(k, (uniq + v if isinstance(v, str) else v) if k == "metric_name" else v) for k, v in ps]
    head = "name: X06\nfilter:\n  url: \"*\"\nprocessors:\n" + proc("put", kind, ps)
    if kind == "Filter":
        if side == "request":
            head += proc("onhit", "GenerateResponse", [("status", 211), ("body", "H")]) + proc("onmiss", "GenerateResponse", [("status", 212), ("body", "M")])
            req = START + to_proc("put") + from_proc("put", "hit") + to_proc("onhit") + from_proc("put", "miss") + to_proc("onmiss")
            resp = from_proc("onhit") + TO_END + from_proc("onmiss") + TO_END
        else:
            head += marker("onhit") + marker("onmiss")
            req = NOOP_DIR
            resp = START + to_proc("put") + from_proc("put", "hit") + to_proc("onhit") + from_proc("put", "miss") + to_proc("onmiss") + marker_out("onhit") + marker_out("onmiss")
    elif kind == "GenerateResponse":
        head += proc("pre", "Filter", [("method", "GET")]) + marker("rmark")
        req = START + to_proc("pre") + from_proc("pre", "hit") + to_proc("put") + from_proc("pre", "miss") + TO_END
        resp = from_proc("put") + to_proc("rmark") + marker_out("rmark")
    elif kind == "MockProcessor":
        head += marker("a1") + marker("a2")
        req = START + to_proc("put") + from_proc("put", "output_1") + to_proc("a1") + from_proc("put", "output_2") + to_proc("a2") + marker_out("a1") + marker_out("a2")
        resp = NOOP_DIR
    elif kind == "CustomScript":
        head += marker("ok") + marker("ko")
        walk = START + to_proc("put") + from_proc("put", "success") + to_proc("ok") + from_proc("put", "failure") + to_proc("ko") + marker_out("ok") + marker_out("ko")
        req, resp = (walk, NOOP_DIR) if side == "request" else (NOOP_DIR, walk)
    elif kind == "UserDefinedTraces":
        head += marker("after")
        req = START + to_proc("put") + from_proc("put") + to_proc("after") + marker_out("after")
        resp = START + to_proc("put") + from_proc("put") + TO_END
    else:       # DataSanitation, UserDefinedMetrics, unregistered kinds: unconditional pass-through
        head += marker("after")
        walk = START + to_proc("put") + from_proc("put") + to_proc("after") + marker_out("after")
        req, resp = (walk, NOOP_DIR) if side == "request" else (NOOP_DIR, walk)
    return head + "flow:\n  request:\n" + req + "  response:\n" + resp


def gw_yaml(env):
    g = S(env.get("gwid", []))
    return "trace_exporter:\n  trace_exporter_id: %s\n  traces_endpoint: http://127.0.0.1:1\n" % json.dumps(g) if g else ""


# ------------------------------------------------------------------------------------------------ transaction sides

PII = {   # occurrences: each is found by the pattern of its own entity (several per kind; chosen by the seed)
    "email": ["john.doe@example.com", "a.b@corp.io", "billing@acme-mail.net"],
    "phone": ["212-456-7890", "415-555-2671", "646-555-0188"],
    "creditcard": ["4111-1111-1111-1111", "5500 0000 0000 0004", "4012-8888-8888-1881"],
    "ip": ["192.168.10.21", "10.20.30.40", "172.16.254.11"],
    "ssn": ["123-45-6789", "078-05-1120", "219-09-9999"],
    "plain": ["hello", "order ready", "weekly report", "n/a"],
}
TP_VALID = "00-0af7651916cd43dd8448eb211c80319c-b7ad6b7169203331-01"
TP_GARBAGE = "zz-not-a-traceparent"
PROPAGATION = ("traceparent", "tracestate", "baggage", "b3")


def hdr_dict(pairs):
    return {S(n): S(v) for n, v in pairs}


def body_of_fields(fields, size=None):
    """metrics / script bodies: [[field, value]...] -> JSON text (padded with blanks to `size`)"""
    if not fields:
        return ""
    d = {}
    for f, v in fields:
        if isinstance(v, dict):
            d[S(f)] = v["n"] if v["t"] == "n" else S(v["s"]) if v["t"] == "s" else True
        else:
            d[S(f)] = S(v)
    s = json.dumps(d, separators=(",", ":"), sort_keys=True)
    if size is not None:
        if len(s) > size:
            raise Broken("body %r longer than the size %d of the case" % (s, size))
        s += " " * (size - len(s))
    return s


def side_events(kind, x, tid, rng):
    """one transaction side of the specification -> harness events (a carrier request before a response side) + what was sent"""
    base = {"id": tid, "m": "GET", "host": "a.t", "path": "/p", "query": "", "h": {}, "body": ""}
    if kind == "Filter":
        url = S(x["url"])
        k = url.find("/")
        base.update(m=S(x["m"]), host=url if k < 0 else url[:k], path="" if k < 0 else url[k:], h=hdr_dict(x["h"]))
    elif kind == "GenerateResponse" or kind == "MockProcessor" or kind == "NoSuchProcessor":
        base.update(m="GET" if x["reach"] else "PUT")
    elif kind == "UserDefinedTraces":
        base["h"] = {"x-a": "1", "accept": "*/*"}
        if x["dir"] == "request" and x["tp"] != "none":
            base["h"]["traceparent"] = TP_VALID if x["tp"] == "valid" else TP_GARBAGE
    elif kind == "DataSanitation":
        toks = x["toks"]
        inst = x.get("inst") or [rng.choice(PII[k]) for k in toks]
        x["inst"] = inst
        base.update(m="POST", query="q=1", h={"x-a": "1", "content-type": "application/json"},
                    body=json.dumps({"f%d" % i: v for i, v in enumerate(inst)}) if toks else "")
    elif kind == "CustomScript":
        base.update(m="POST", h=hdr_dict(x["h"]), body=body_of_fields(x["body"]))
    elif kind == "UserDefinedMetrics":
        url = S(x["url"])
        k = url.find("/")
        base.update(m=S(x["m"]), host=url[:k], path=url[k:], h=hdr_dict(x["h"]), body=body_of_fields(x["body"], x["size"]))
    if x["dir"] == "request":
        return [dict(base, ev="req")], base
    carrier = {"ev": "req", "id": tid, "m": base["m"], "host": base["host"], "path": base["path"], "query": "", "h": {}, "body": "", "carrier": True}
    resp = dict(base, ev="resp", st=x.get("st") or 200)
    return [carrier, resp], resp


def nonnoop(acts):
    return [a for a in acts if a.get("t") != "noop"]


def strip_cl(h):
    return {k: v for k, v in h.items() if k.lower() != "content-length"}


def pairs(h):
    return sorted([C(k), C(v)] for k, v in h.items())


def json_fields(text):
    if not text:
        return {}
    try:
        d = json.loads(text)
    except ValueError:
        return None
    return d if isinstance(d, dict) else None


def tp_relation(incoming, outgoing):
    m = re.fullmatch(r"00-([0-9a-f]{32})-([0-9a-f]{16})-[0-9a-f]{2}", outgoing or "")
    if not outgoing:
        return "none"
    if not m or m.group(1) == "0" * 32:
        return "bad"
    mi = re.fullmatch(r"00-([0-9a-f]{32})-([0-9a-f]{16})-[0-9a-f]{2}", incoming or "")
    if not mi:
        return "new"
    if mi.group(1) == m.group(1):
        return "child" if mi.group(2) != m.group(2) else "same"
    return "new"


def project(kind, x, sent, rec):
    """the recorded harness event -> the observation record of the specification (direct field reads only)"""
    procs = rec.get("procs", [])
    keys = [p[0] for p in procs]
    here = "StreamTypeRequest" if x["dir"] == "request" else "StreamTypeResponse"
    ran = "put" in [p[0] for p in procs if p[2] == here]
    acts = rec.get("acts", [])

    def after_put():
        seq = [p[0] for p in procs if p[2] == here]
        return seq[seq.index("put") + 1:] if "put" in seq else []
    going = rec.get("up") if x["dir"] == "request" else rec.get("down")
    if x["dir"] == "request":
        orig = {"h": sent["h"], "body": sent["body"], "host": sent["host"], "path": sent["path"], "query": sent["query"]}
    else:
        orig = {"h": sent["h"], "body": sent["body"], "st": sent.get("st", 200)}
    if kind == "Filter":
        nx = after_put()[:1]
        return {"next": "none" if not ran else "hit" if nx == ["onhit"] else "miss" if nx == ["onmiss"] else "none"}
    if kind == "GenerateResponse":
        if not rec.get("early"):
            return {"ran": ran, "early": False, "st": 0, "body": [], "ct": [], "xh": 0, "after": [], "respok": True}
        eh = rec.get("eh", {})
        return {"ran": ran, "early": True, "st": rec["est"], "body": C(rec["ebody"]), "ct": C(eh.get("Content-Type", "")),
                "xh": len([k for k in eh if k != "Content-Type"]), "after": after_put(),
                "respok": [p[0] for p in procs if p[2] == "StreamTypeResponse"] == ["rmark"]}
    if kind in ("MockProcessor", "NoSuchProcessor"):
        return {"ran": ran, "acts": len(nonnoop(acts)), "same": going == orig}
    if kind == "UserDefinedTraces":
        gh = going["h"]
        kept = all(gh.get(k) == v for k, v in sent["h"].items() if k not in PROPAGATION and not k.startswith("x-b3-"))
        extra = [k for k in gh if k not in sent["h"] and k not in PROPAGATION and not k.startswith("x-b3-")]
        same = {k: v for k, v in going.items() if k != "h"} == {k: v for k, v in orig.items() if k != "h"} and not extra
        if x["dir"] == "response":
            return {"ran": ran, "kept": going["h"] == orig["h"], "same": going == orig and not nonnoop(acts), "tp": "none"}
        return {"ran": ran, "kept": kept, "same": same, "tp": tp_relation(sent["h"].get("traceparent"), gh.get("traceparent")) if ran else "none"}
    if kind == "DataSanitation":
        inst = x["inst"]
        out = json_fields(going["body"]) if inst else {}
        toks = []
        for i, v in enumerate(inst):
            o = None if out is None else out.get("f%d" % i)
            if o == v:
                toks.append("kept")
            elif isinstance(o, str) and re.fullmatch(r"\*\*\*[A-Z_0-9]+\*\*\*", o):
                toks.append("masked")
            else:
                toks.append("other")
        frame = (strip_cl(going["h"]) == strip_cl(orig["h"]) and all(going[k] == orig[k] for k in ("host", "path", "query"))
                 and (out is not None) and set(out) == {"f%d" % i for i in range(len(inst))}
                 and (not inst or nonnoop(acts) or going["body"] == orig["body"]))
        return {"ran": ran, "toks": toks, "frame": bool(frame), "after": after_put()[:1] == ["after"]}
    if kind == "CustomScript":
        nx = after_put()[:1]
        seen = rec.get("seen", {})
        sh = strip_cl(seen.get("h", {}))
        sb = json_fields(seen.get("body", ""))
        gb = json_fields(going["body"])
        ob = json_fields(orig["body"])
        if sb is None or any(not isinstance(v, str) for v in sb.values()):
            body = [[C("?"), C(seen.get("body", ""))]]
        else:
            body = sorted([C(k), C(v)] for k, v in sb.items())
        if strip_cl(going["h"]) == sh and gb == sb:
            fwd = "modified"
        elif strip_cl(going["h"]) == strip_cl(orig["h"]) and gb == ob:
            fwd = "same"
        else:
            fwd = "other"
        return {"next": "success" if nx == ["ok"] else "failure" if nx == ["ko"] else "none", "h": pairs(sh), "body": body, "fwd": fwd}
    if kind == "UserDefinedMetrics":
        return {"cont": "after" in [p[0] for p in procs if p[2] == here], "err": bool(rec.get("err")), "same": going == orig and not nonnoop(acts)}
    raise Broken("no projection for kind %s" % kind)


# ------------------------------------------------------------------------------------------------ units (one engine each)

class Unit:
    """one engine: kind, par, env, the sides of one direction family, the case it belongs to"""

    def __init__(self, case, side, xs, idx, uid):
        self.case, self.side, self.xs, self.idx, self.uid = case, side, xs, idx, uid
        self.kind, self.par, self.env = case["kind"], case["par"], case.get("env") or {"gwid": []}
        self.uniq = "x06u%s_" % uid

    def history(self, rng):
        h = [{"ev": "reset", "uid": self.uid, "files": {"flows/x06.yaml": flow_yaml(self.kind, self.par, self.side, self.uniq)}, "gw": gw_yaml(self.env)}]
        self.sent = []
        if self.kind == "UserDefinedMetrics":
            h.append({"ev": "metrics", "prefix": self.prefix(), "phase": "before"})
        for i, x in enumerate(self.xs):
            evs, sent = side_events(self.kind, x, "%s-%d" % (self.uid, i), rng)
            self.sent.append(sent)
            h += evs
        if self.kind == "UserDefinedMetrics":
            h.append({"ev": "metrics", "prefix": self.prefix(), "phase": "after"})
        return h

    def prefix(self):
        """the metric family of this engine: lunar_<metric_name> (a name of the wrong type reads as the empty text)"""
        name = self.par.get("metric_name") if isinstance(self.par, dict) else None
        return "lunar_" + (self.uniq + S(name["s"]) if name and name["t"] == "str" else "")

    def family(self, samples):
        return [s for s in samples if s["name"] in (self.prefix(), self.prefix() + "_total")]

    def abstract(self, recs):
        """recorded events of this unit -> abstract trace events (load, side..., shown)"""
        out = [{"ev": "load", "kind": self.kind, "par": self.par if self.par else [], "env": self.env, "refused": bool(recs[0].get("refused")),
                "uid": self.uid}]
        self.refused = recs[0].get("refused")
        if self.refused:
            return out
        body = [r for r in recs[1:] if not r.get("carrier")]
        sides = [r for r in body if r["ev"] in ("req", "resp")]
        if len(sides) != len(self.xs):
            raise Broken("unit %s: %d sides recorded for %d sent" % (self.uid, len(sides), len(self.xs)))
        for x, sent, r in zip(self.xs, self.sent, sides):
            xx = {k: v for k, v in x.items() if k != "inst"}
            out.append({"ev": "side", "x": xx, "o": project(self.kind, x, sent, r), "uid": self.uid,
                        "raw": {k: r.get(k) for k in ("id", "procs", "acts", "err", "panic", "est") if r.get(k) not in (None, [], "")}})
        if self.kind == "UserDefinedMetrics" and self.prefix() != "lunar_":
            # (a metric_name of the wrong type reads as "": the family lunar_ is shared by every such engine of the process and
            #  cannot be attributed to this one - its exposition is not judged)
            ms = [r for r in body if r["ev"] == "metrics"]
            smp = delta_samples(self.family(ms[0]["samples"]), self.family(ms[1]["samples"]))
            mt = self.par.get("metric_type") if isinstance(self.par, dict) else None
            if mt is None or (mt["t"] == "str" and S(mt["s"]) in ("", "counter", "up_down_counter")):
                smp = [x for x in smp if x["v"] != 0]       # (a series that only counted 0 is not told from an absent one, see ProcMetricsP!Silent)
            out.append({"ev": "shown", "samples": smp, "uid": self.uid})
        return out


def delta_samples(before, after):
    """what the family shows for this engine: counters and histograms minus what the process-wide registry held before"""
    def key(s):
        return (s["name"], json.dumps(s["labels"], sort_keys=True))
    b = {key(s): s for s in before}
    out = []
    for s in after:
        p = b.get(key(s), {})
        labels = sorted([k, C(v)] for k, v in s["labels"].items())
        if s["type"] == "histogram":
            c, sm = s["count"] - p.get("count", 0), s["sum"] - p.get("sum", 0)
            if c:
                out.append({"labels": labels, "v": intval(sm), "count": intval(c), "sum": intval(sm)})
        elif s["type"] == "counter":
            v = s["v"] - p.get("v", 0)
            if v:
                out.append({"labels": labels, "v": intval(v), "count": 0, "sum": 0})
        else:
            out.append({"labels": labels, "v": intval(s["v"]), "count": 0, "sum": 0})
    return out


def intval(v):
    if abs(v - round(v)) > 1e-9:
        raise Broken("non-integral metric value %r (the specification counts whole numbers)" % v)
    return int(round(v))


def units_of(case, n):
    """Filter / CustomScript / UserDefinedMetrics / DataSanitation sit on one direction per engine: split the sides by direction"""
    xs = case["xs"]
    if case["kind"] in ("Filter", "CustomScript", "UserDefinedMetrics", "DataSanitation"):
        us = []
        for d in ("request", "response"):
            sel = [(i, x) for i, x in enumerate(xs) if x["dir"] == d]
            if sel:
                us.append(Unit(case, d, [copy.deepcopy(x) for _, x in sel], [i for i, _ in sel], "%s%s" % (n, d[:3])))
        return us or [Unit(case, "request", [], [], "%sreq" % n)]
    return [Unit(case, "request", [copy.deepcopy(x) for x in xs], list(range(len(xs))), "%s" % n)]


# ------------------------------------------------------------------------------------------------ execution / judging

def execute(ctx, binary, histories, tag):
    d = ctx.sub("run-" + tag)
    nchunk = 6
    k = max(1, (len(histories) + nchunk - 1) // nchunk)
    chunks = [histories[i:i + k] for i in range(0, len(histories), k)]
    sp = os.path.join(d, "scripts.json")
    json.dump([{"config": {}, "histories": c} for c in chunks], open(sp, "w"))
    ctx.run_harness(binary, ["run", sp, d], timeout=1500)
    recs = []
    for i in range(len(chunks)):
        evs = read_ndjson(os.path.join(d, "trace-%03d.ndjson" % i))[1:]
        cur = None
        for e in evs:
            if e["ev"] == "reset":
                cur = [e]
                recs.append(cur)
            else:
                cur.append(e)
    if len(recs) != len(histories):
        raise Broken("executor returned %d histories for %d" % (len(recs), len(histories)))
    return recs


def tlc_lines(out, tagname):
    res = []
    for m in re.finditer(r'<<\s*"%s",\s*(\d+)(.*?)>>[ \t]*(?=\n\S|\Z)' % tagname, out, re.S):
        res.append((int(m.group(1)), re.sub(r"\s+", " ", m.group(2)).strip(" ,")))
    return res


def judge(ctx, events, dev, tag):
    """ProcTrace over one abstract trace: returns (rejects {line: what}, drifts [line], devs {line: [names]})"""
    sd = ctx.spec_dir(SPEC)
    wd = os.path.join(ctx.scratch, "tv-" + tag)
    if not os.path.isdir(wd):
        shutil.copytree(sd, wd)
    ev = [{"ev": "config", "dev": list(dev)}] + [{k: v for k, v in e.items() if k not in ("uid", "raw")} for e in events]
    p = os.path.join(wd, "trace.ndjson")
    write_ndjson(p, ev)
    ok, hwm, r = ctx.tlc_trace(wd, "ProcTrace", p, timeout=1500)
    if not ok:
        raise Broken("ProcTrace did not consume the trace (%s): hwm=%d %r\n%s" % (tag, hwm, r, r.out[-3000:]))
    rej = {ln: what for ln, what in tlc_lines(r.out, "REJECT")}
    drift = [ln for ln, _ in tlc_lines(r.out, "DRIFT")]
    devs = {ln: re.findall(r'"([a-z_]+)"', what) for ln, what in tlc_lines(r.out, "DEV")}
    return rej, drift, devs


def run_cases(ctx, binary, cases, tag, stats, dev=ALLDEV):
    """execute cases on real engines, judge every recorded load / side with the specification, reproduce rejections"""
    units = []
    for n, c in enumerate(cases):
        units += units_of(c, "%s%d" % (tag, n))
    hist = [u.history(ctx.rng) for u in units]
    recs = execute(ctx, binary, hist, tag)
    per_unit = [u.abstract(r) for u, r in zip(units, recs)]
    # several TLC runs side by side
    nj = 6 if not ctx.thorough else 12
    k = max(1, (len(units) + nj - 1) // nj)
    groups = [list(range(i, min(i + k, len(units)))) for i in range(0, len(units), k)]

    def one(gi):
        evs = [e for ui in groups[gi] for e in per_unit[ui]]
        return judge(ctx, evs, dev, "%s-%d" % (tag, gi))
    res = parallel(one, list(range(len(groups))), n=6)
    for gi, (rej, drift, devs) in enumerate(res):
        flat = [(ui, e) for ui in groups[gi] for e in per_unit[ui]]
        ctx.cov["traces_validated_against_impl"] += len(groups[gi])
        for ui in groups[gi]:
            u = units[ui]
            ctx.cov["evaluations"] += 1 + len(u.xs)
            stats["loads"] += 1
            stats["refused"] += 1 if u.refused else 0
            for e in per_unit[ui]:
                if e["ev"] == "side":
                    k2 = u.kind + json.dumps([u.par, e["x"], e["o"]], sort_keys=True)
                    if k2 not in stats["seen"]:
                        stats["seen"].add(k2)
                        if nontrivial(u.kind, e):
                            ctx.cov["distinct_nontrivial"] += 1
                            stats["by_kind"][u.kind] = stats["by_kind"].get(u.kind, 0) + 1
        stats["drift"] += len(drift)
        for ln in drift[:3] if not os.environ.get("X06_DEV_DRIFT") else drift:
            ui, e = flat[ln - 2]
            if len(stats["drift_examples"]) < (4 if not os.environ.get("X06_DEV_DRIFT") else 10000):
                stats["drift_examples"].append({"kind": units[ui].kind, "par": show_par(units[ui].par), "event": show_event(e)})
        for ln, names in devs.items():
            ui, e = flat[ln - 2]
            for nm in names:
                stats["dev"][nm] = stats["dev"].get(nm, 0) + 1
                ex = {"kind": units[ui].kind, "parameters": show_par(units[ui].par), "event": show_event(e)}
                old = stats["dev_examples"].get(nm)
                if old is None or len(json.dumps(ex)) < len(json.dumps(old)):
                    stats["dev_examples"][nm] = ex
        for ln, what in sorted(rej.items()):
            ui, e = flat[ln - 2]
            u = units[ui]
            if stats["reproduced"] >= 8:
                stats["unreported"] += 1
                continue
            stats["reproduced"] += 1
            # reproduce: the same unit alone on a fresh engine
            u2 = Unit(u.case, u.side, [copy.deepcopy(x) for x in u.xs], u.idx, u.uid + "r")
            r2 = execute(ctx, binary, [u2.history(ctx.rng)], tag + "-repro")[0]
            ev2 = u2.abstract(r2)
            rej2, _, _ = judge(ctx, ev2, dev, tag + "-repro")
            if not rej2:
                raise Broken("rejection not reproduced (%s %s, unit %s, parameters %s): %s\nFIRST RUN: %s\nSECOND RUN: %s" % (
                    tag, what, u.uid, json.dumps(show_par(u.par)), json.dumps(show_event(e))[:500], json.dumps([show_event(z) for z in per_unit[ui]])[:6000],
                    json.dumps([show_event(z) for z in ev2])[:6000]))
            w = {"class": "%s-%s" % (u.kind, what.strip('"')), "kind": u.kind, "parameters": show_par(u.par), "event": show_event(e)}
            ctx.violation(w, {"kind": u.kind, "case": {"kind": u.kind, "par": u.par, "env": u.env, "xs": u.xs}, "side": u.side})
    return units, per_unit


def nontrivial(kind, e):
    """a side exercises a contract when the processor did something that depends on its parameters or on the transaction"""
    o = e["o"]
    if kind == "Filter":
        return o["next"] in ("hit", "miss")
    if kind == "GenerateResponse":
        return o["early"]
    if kind == "DataSanitation":
        return any(t != "kept" for t in o["toks"]) or len(o["toks"]) > 1
    if kind == "CustomScript":
        return o["next"] in ("success", "failure")
    if kind == "UserDefinedMetrics":
        return o["cont"] or o["err"]
    if kind == "UserDefinedTraces":
        return o["tp"] != "none"
    return False


def show_val(v):
    try:
        return py_value(v)
    except Exception:
        return v


def show_par(par):
    return {k: show_val(v) for k, v in par_items(par)}


def show_event(e):
    def txt(v):
        if isinstance(v, list) and v and all(isinstance(c, str) and len(c) == 1 for c in v):
            return S(v)
        if isinstance(v, list):
            return [txt(x) for x in v]
        if isinstance(v, dict):
            return {k: txt(x) for k, x in v.items()}
        return v
    return {k: txt(v) for k, v in e.items() if k in ("ev", "kind", "refused", "x", "o", "samples", "raw", "env")}


# ------------------------------------------------------------------------------------------------ seeded random cases

HOSTS = ["api.test", "xapi.test", "api.testing.io", "api-test", "www.api.test", "eu.api.test", "API.test", "cdn.net"]
PATHS = ["", "/", "/v1", "/v1/users", "/v1/users/7", "/v10", "/V1", "/health", "/v1/users/7/orders"]


def rand_pattern(rng):
    h = rng.choice(["api.test", "api.test", "*.api.test", "api.*", "*.test", "cdn.net", "API.TEST", "www.api.test"])
    p = rng.choice(["", "", "/*", "/v1", "/v1/*", "/v1/users/*", "/*/users", "/v1/users/7", "/V1"])
    pat = rng.choice(["", "", "", "https://", "http://"]) + h + p
    x = rng.random()
    if x < 0.08:
        pat = "^" + re.escape(rng.choice(["api.test", "cdn.net"])).replace("\\-", "-") + rng.choice(["/v1$", "/.*$", "$"])
    elif x < 0.11:
        pat = rng.choice(["api.test", "/v1", "test", "*"])
    return pat


def rand_filter_case(rng):
    par = {}
    n = rng.choice([1, 1, 1, 2, 2, 3])
    crit = rng.sample(["url", "url", "method", "header", "status", "endpoint"], n)
    for c in sorted(set(crit)):
        if c == "url":
            if rng.random() < 0.6:
                par["url"] = VStr(rand_pattern(rng))
            else:
                par["urls"] = VSList([rand_pattern(rng) for _ in range(rng.choice([2, 2, 3]))])
        elif c == "method":
            if rng.random() < 0.5:
                par["method"] = VStr(rng.choice(["GET", "get", "POST", "Put"]))
            else:
                par["methods"] = VSList(rng.sample(["GET", "POST", "put", "DELETE"], rng.choice([1, 2, 3])))
        elif c == "header":
            y = rng.random()
            if y < 0.45:
                par["header"] = VStr(rng.choice(["x-env=prod", "X-Env=Prod", "x-env=staging", "x-group", "x-env=a=b", "authorization=Bearer t0k"]))
            elif y < 0.85:
                par["headers"] = VSMap(rng.sample([("x-env", rng.choice(["prod", "staging"])), ("x-group", "blue"), ("X-Tenant", "acme")], rng.choice([1, 2])))
            else:
                par["header"] = VStr("x-env=prod")
                par["headers"] = VSMap([("x-group", "blue")])
        elif c == "status":
            par["status_code_range"] = VStr(rng.choice(["200-299", "400-499", "500-599", "404-404", "100-599", "299-200", "600-700", "200", "2xx-300", "0-99"]))
        else:
            if rng.random() < 0.7:
                par["endpoint"] = VStr(rng.choice(["/v1", "*", "api.test/v1", "/v1/users"]))
            else:
                par["endpoints"] = VSList(rng.sample(["/v1", "/health", "api.test/v1/users", "*"], 2))
    par = {k: v for k, v in par.items() if v is not None}
    if rng.random() < 0.12:       # a type error / an undeclared parameter
        k = rng.choice(["method", "methods", "status_code_range", "url", "headers", "body", "comment"])
        par[k] = rng.choice([VInt(5), VSList(["GET"]), VStr("GET"), VSMap([("a", "b")])])
    xs = []
    for _ in range(rng.choice([4, 6, 8])):
        h = {}
        for k, vs in (("x-env", ["prod", "Prod", "staging"]), ("x-group", ["blue", "green"]), ("x-tenant", ["acme"]), ("authorization", ["Bearer t0k"])):
            if rng.random() < 0.4:
                h[k] = rng.choice(vs)
        url = rng.choice(HOSTS) + rng.choice(PATHS)
        d = "response" if ("status_code_range" in par and rng.random() < 0.7) or rng.random() < 0.15 else "request"
        xs.append({"dir": d, "reach": True, "m": C(rng.choice(["GET", "GET", "POST", "PUT", "get", "DELETE"])), "url": C(url),
                   "h": pairs(h), "st": rng.choice([200, 201, 299, 300, 404, 499, 500, 599]) if d == "response" else 0})
    return {"kind": "Filter", "par": par, "env": {"gwid": []}, "xs": xs}


def rand_other_case(rng, i):
    kind = ["GenerateResponse", "DataSanitation", "DataSanitation", "UserDefinedMetrics", "UserDefinedMetrics", "CustomScript", "UserDefinedTraces", "MockProcessor"][i % 8]
    env = {"gwid": []}
    par, xs = {}, []
    if kind == "GenerateResponse":
        if rng.random() < 0.8:
            par["status"] = rng.choice([VInt(rng.choice([200, 204, 403, 429, 503])), VStr(rng.choice(["429", "503", "teapot"])), {"t": "float", "n": 429}])
        if rng.random() < 0.7:
            par["body"] = rng.choice([VStr(rng.choice(["Too Many Requests", "", "{\"error\":\"quota\"}", "Forbidden Access"])), VInt(7)])
        if rng.random() < 0.5:
            par["Content-Type"] = VStr(rng.choice(["application/json", "text/plain", "text/html"]))
        if rng.random() < 0.2:
            par[rng.choice(["Retry-After", "X-Reason"])] = VStr("5")
        xs = [{"dir": "request", "reach": rng.random() < 0.7} for _ in range(3)]
    elif kind == "DataSanitation":
        names = {"email": ["email", "Email", "EMAIL_ADDRESS", "emailAddress"], "phone": ["phone", "Phone"], "creditcard": ["CreditCard", "credit_card", "creditcard"],
                 "ip": ["ip", "IPAddress", "ip_address"], "ssn": ["ssn", "SSN"]}
        if rng.random() < 0.75:
            ks = rng.sample(sorted(names), rng.choice([1, 2, 2, 3, 5]))
            par["blocklisted_entities"] = VSList([rng.choice(names[k]) for k in ks] + (["passport"] if rng.random() < 0.1 else []))
        if rng.random() < 0.4:
            par["ignored_entities"] = VSList([rng.choice(names[k]) for k in rng.sample(sorted(names), rng.choice([1, 1, 2]))])
        if rng.random() < 0.08:
            par["blocklisted_entities"] = VStr("email")
        for _ in range(4):
            n = rng.choice([0, 1, 2, 3, 4, 6])
            xs.append({"dir": "request", "reach": True, "toks": [rng.choice(["plain", "plain", "email", "phone", "creditcard", "ip", "ssn"]) for _ in range(n)]})
    elif kind == "UserDefinedMetrics":
        par["metric_name"] = VStr(rng.choice(["calls", "errors", "m"]))
        t = rng.choice(["", "counter", "gauge", "histogram", "up_down_counter", "summary" if rng.random() < 0.3 else "counter"])
        if t:
            par["metric_type"] = VStr(t)
        resp = rng.random() < 0.3
        v = rng.choice(["", "api_call_count", "api_call_size", "$.response.body.n" if resp else "$.request.body.n", "$.request.body.cost" if not resp else "$.response.body.cost",
                        "$.request.headers.weight" if not resp else "$.response.body.n"])
        if v:
            par["metric_value"] = VStr(v)
        if rng.random() < 0.5:
            par["labels"] = VSList(rng.sample(["http_method", "url", "status_code"], rng.choice([1, 2])))
        if rng.random() < 0.3 and not resp:
            par["custom_metric_labels"] = VSMap([("tenant", "$.request.headers.tenant")])
        if t == "histogram":
            par["buckets"] = VNList([1, 5, 10, 50])
        if rng.random() < 0.07:
            par["metric_name"] = VInt(3)
        for _ in range(rng.choice([3, 5, 6])):
            fields = []
            for f in ("n", "cost"):
                y = rng.random()
                if y < 0.55:
                    fields.append([C(f), {"t": "n", "n": rng.choice([0, 1, 2, 5, 12, 40])}])
                elif y < 0.7:
                    fields.append([C(f), {"t": "s", "s": C(rng.choice(["3", "17", "many"]))}])
                elif y < 0.75:
                    fields.append([C(f), {"t": "b"}])
            h = {}
            if rng.random() < 0.5:
                h["tenant"] = rng.choice(["acme", "globex"])
            if rng.random() < 0.5:
                h["weight"] = rng.choice(["2", "9", "heavy"])
            body = body_of_fields(fields)
            size = len(body) + (rng.choice([0, 0, 3]) if body else 0)
            xs.append({"dir": "response" if resp else "request", "reach": True, "m": C(rng.choice(["GET", "POST"])), "url": C(rng.choice(["a.t/p", "api.test/v1"])),
                       "st": rng.choice([200, 404, 500]) if resp else 0, "size": size, "body": sorted(fields, key=lambda p: p[0]), "h": pairs(h) if not resp else []})
    elif kind == "CustomScript":
        st = []
        for _ in range(rng.choice([1, 2, 3])):
            op = rng.choice(["sethdr", "sethdr", "delhdr", "setbody", "setbody"])
            st.append((op, rng.choice(["x-new", "x-a", "authorization", "x-trace"]) if op != "setbody" else rng.choice(["f", "g", "prompt"]), "" if op == "delhdr" else rng.choice(["1", "v2", "hello world"])))
        y = rng.random()
        if y < 0.15:
            st.insert(rng.randrange(len(st) + 1), (rng.choice(["throw", "deref"]), "", ""))
        elif y < 0.22:
            st.append(("syntax", "", ""))
        par["script_text"] = VJs(st) if rng.random() > 0.05 else VInt(1)
        for _ in range(3):
            h = {k: v for k, v in (("x-a", "1"), ("authorization", "Bearer t"), ("x-trace", "abc")) if rng.random() < 0.5}
            fields = [[C(f), C(v)] for f, v in (("f", "v"), ("prompt", "hello")) if rng.random() < 0.5]
            xs.append({"dir": "request", "reach": True, "h": pairs(h), "body": sorted(fields)})
    elif kind == "UserDefinedTraces":
        env = {"gwid": C(rng.choice(["tempo1", "tempo1", "tempo1", "other", ""]))}
        if rng.random() < 0.9:
            par["trace_exporter_id"] = VStr("tempo1")
        for _ in range(3):
            xs.append({"dir": "request", "reach": True, "tp": rng.choice(["none", "valid", "garbage"])})
            if rng.random() < 0.6:
                xs.append({"dir": "response", "reach": True, "tp": "none"})
    else:
        if rng.random() < 0.5:
            par["arg1"] = rng.choice([VInt(3), VStr("x")])
        xs = [{"dir": "request", "reach": True}]
    return {"kind": kind, "par": par, "env": env, "xs": xs}


# ------------------------------------------------------------------------------------------------ run

def new_stats():
    return {"loads": 0, "refused": 0, "drift": 0, "drift_examples": [], "dev": {}, "dev_examples": {}, "seen": set(), "by_kind": {},
            "reproduced": 0, "unreported": 0}


def run(ctx):
    T = ctx.thorough
    binary = ctx.build_harness("x06")
    sd = ctx.spec_dir(SPEC)
    rng = ctx.rng
    ctx.cov["rule"] = ("cases = TLC-enumerated (parameters as written x transaction sides, per processor kind) and seeded random ones (richer "
                       "URL / pattern alphabet, criteria combinations, entity lists, metric histories, scripts); a case is one real engine built "
                       "from flow YAML; non-trivial side = the processor under test took an output condition / answered / scrubbed or kept a "
                       "multi-token body / recorded or failed to read a metric value / ran a script / propagated a trace; distinct by (parameters, side, observation)")
    ctx.cov["checker_cmd"] = "tlc -config MC_F_quick.cfg MC_X06F.tla ; tlc -config MC_G_quick.cfg MC_X06G.tla ; tlc -config ProcTrace.cfg ProcTrace.tla"
    ctx.cov["trusted_base"] = ["TLC 1.8", "CommunityModules Json / SequencesExt", "Go toolchain",
                               "harness/cmd/x06 (pure executor; lays the last modify action over the original side the way lunar.lua does; gathers the "
                               "process's Prometheus registry = what GET /metrics serves)",
                               "checks/x06.py: rendering of parameters / scripts / transaction sides to YAML, Javascript and HTTP-shaped events; projection "
                               "of the recorded events to the observation records of the specification (direct field reads: next processor key, status, "
                               "token kept / masked, header equality, traceparent ids)"]
    ctx.assumptions += ["one flow (filter url \"*\") holding one processor under test between marker processors; transactions one after the other",
                        "the gateway hands the engine url = host+path without scheme (lunar.lua), header names in lower case",
                        "DataSanitation: bodies are JSON objects of texts, one occurrence per field, occurrences drawn from a pool that each entity's own pattern finds",
                        "UserDefinedMetrics: whole-number values; metric names made unique per engine, the exposition read before and after (process-wide registry)",
                        "UserDefinedTraces: spans go to a dead OTLP endpoint; only what reaches the proxy (headers) is observed, span attributes are not"]

    # (1) exhaustive: I => P on the bounded case spaces; broken variants refuted; every named deviation necessary; witnesses reachable
    tier = "large" if T else "quick"
    ok_jobs = [("MC_X06F", "MC_F_%s.cfg" % tier), ("MC_X06G", "MC_G_%s.cfg" % tier)]      # (reachability witnesses: ASSUME WitAll in both)
    if T:
        ok_jobs += [("MC_X06F", "MC_F_benign_url_list_any.cfg"), ("MC_X06G", "MC_G_benign_san_no_stall.cfg"),
                    ("MC_X06G", "MC_G_benign_metrics_error_swallowed.cfg")]
    bad_f = ["strict", "bug_any_criterion", "bug_header_all", "bug_status_exclusive"] + ["dev_" + d for d in ALLDEV[:9]]
    bad_g = ["strict", "bug_gen_status_default", "bug_gen_continues", "bug_gen_no_response_walk", "bug_traces_always_root", "bug_san_ignore_ignored",
             "bug_metrics_size_is_one", "bug_metrics_gauge_adds", "bug_script_delete_ignored", "bug_script_failure_is_success"] + \
            ["dev_" + d for d in ("type_error_silent", "unknown_param_ignored") + tuple(ALLDEV[9:])]
    if not T:
        bad_f = ["strict", "bug_any_criterion", "dev_urls_first_host"]
        bad_g = ["bug_gen_continues", "bug_san_ignore_ignored", "bug_metrics_gauge_adds", "dev_scrub_stops_after_overlap"]
    bad_jobs = [("MC_X06F", "MC_F_%s.cfg" % b) for b in bad_f] + [("MC_X06G", "MC_G_%s.cfg" % b) for b in bad_g]
    jobs = [(m, c, "ok") for m, c in ok_jobs] + [("MC_X06F", "Gen_F_%s.cfg" % tier, "gen"), ("MC_X06G", "Gen_G_%s.cfg" % tier, "gen")] + \
           [(m, c, "bad") for m, c in bad_jobs]
    if os.environ.get("X06_DEV_SKIP_MODEL"):          # development aid for mutation runs (the model does not depend on /repo)
        jobs = [j for j in jobs if j[2] == "gen"]
        ctx.notes.append("X06_DEV_SKIP_MODEL set: exhaustive model checking skipped")

    def mc(job):
        mod, cfg, kind = job
        if kind == "gen":
            return ctx.tlc(sd, mod, cfg, workers=1, timeout=900, label="case generation", count=False, heap="3g")
        return ctx.tlc(sd, mod, cfg, workers=1, timeout=1200, label="I=>P" if kind == "ok" else "non-vacuity (expected refuted)", heap="2g")
    results = parallel(mc, jobs, n=8)
    gens = {}
    nbad = 0
    for (mod, cfg, kind), r in zip(jobs, results):
        if kind == "ok":
            if not r.ok:
                raise Broken("TLC %s/%s: %r\n%s" % (mod, cfg, r, r.out[-2500:]))
            ctx.cov["states"] += r.distinct
            ctx.cov["transitions"] += r.generated
            ctx.log("TLC %s %s: %d distinct states, %.1fs" % (mod, cfg, r.distinct, r.wall))
        elif kind == "bad":
            nbad += 1
            if r.violated is None:
                raise Broken("variant %s of the model is not refuted (vacuous check): %r\n%s" % (cfg, r, r.out[-1500:]))
        else:
            gens[mod] = r
    if nbad:
        ctx.notes.append("model: %d broken variants / necessity of named deviations / reachability witnesses refuted as expected" % nbad)

    # (2) spec -> code: the TLC-generated case spaces on real engines
    stats = new_stats()
    cases = []
    for mod, fn, fam in (("MC_X06F", "gen_cases_filter.json", "filter"), ("MC_X06G", "gen_cases_g.json", "g")):
        g = gens[mod]
        m = re.search(r'"GEN-CASES",\s*(\d+)', g.out)
        gp = os.path.join(sd, fn)
        if not g.ok or not m or not os.path.exists(gp):
            raise Broken("case generation failed (%s): %r\n%s" % (mod, g, g.out[-2000:]))
        cs = json.load(open(gp))["cases"]
        if len(cs) != int(m.group(1)):
            raise Broken("case file %s has %d cases, TLC reported %s" % (fn, len(cs), m.group(1)))
        if fam == "filter":     # one TLC case = one side; the sides of one parameter set share an engine
            groups = {}
            for c in cs:
                groups.setdefault(json.dumps(c["par"], sort_keys=True), []).append(c)
            for k in sorted(groups):
                g0 = groups[k]
                cases.append({"kind": "Filter", "par": g0[0]["par"] or {}, "env": {"gwid": []}, "xs": [c["x"] for c in g0],
                              "pred": [{"load": c["load"], "out": c["out"]} for c in g0]})
        else:
            if not T:           # quick: all but the metric histories, of those a seeded sample
                met = [c for c in cs if c["kind"] == "UserDefinedMetrics"]
                rng.shuffle(met)
                cs = [c for c in cs if c["kind"] != "UserDefinedMetrics"] + met[:120]
            elif len(cs) > 2600:
                met = [c for c in cs if c["kind"] == "UserDefinedMetrics"]
                rng.shuffle(met)
                cs = [c for c in cs if c["kind"] != "UserDefinedMetrics"] + met[:2200]
            for c in cs:
                cases.append({"kind": c["kind"], "par": c["par"] or {}, "env": c["env"], "xs": c["xs"],
                              "pred": {"load": c["load"], "obs": c["obs"], "samples": c["samples"]}})
    # (3) code -> spec: seeded random cases (same executor run, same validation pass as the generated ones)
    nf, no = (70, 64) if not T else (700, 640)
    ngen = len(cases)
    rcases = [rand_filter_case(rng) for _ in range(nf)] + [rand_other_case(rng, i) for i in range(no)]
    units, per_unit = run_cases(ctx, binary, cases + rcases, "c", stats)
    gen_units = [(u, evs) for u, evs in zip(units, per_unit) if int(re.match(r"c(\d+)", u.uid).group(1)) < ngen]
    rnd_units = [(u, evs) for u, evs in zip(units, per_unit) if int(re.match(r"c(\d+)", u.uid).group(1)) >= ngen]
    ctx.log("generated: %d cases on %d engines, %d sides; random: %d cases on %d engines, %d sides; %d flows refused by the loader; drift %d" % (
        ngen, len(gen_units), sum(len(u.xs) for u, _ in gen_units), len(rcases), len(rnd_units), sum(len(u.xs) for u, _ in rnd_units),
        stats["refused"], stats["drift"]))
    ex = next((e for u, evs in gen_units for e in evs if e["ev"] == "side" and u.kind == "Filter" and e["o"]["next"] == "miss"), None)
    if ex:
        ctx.sample({"kind": "tlc-case-replayed", "event": show_event(ex)})
    ctx.cov["exhaustive"] = bool(T)
    ex = next((e for u, evs in rnd_units for e in evs if e["ev"] == "side" and u.kind == "DataSanitation" and "masked" in e["o"]["toks"]), None)
    if ex:
        ctx.sample({"kind": "recorded-sanitation", "event": show_event(ex)})
    ex = next((e for u, evs in rnd_units for e in evs if e["ev"] == "shown" and e["samples"]), None)
    if ex:
        ctx.sample({"kind": "recorded-metrics", "event": show_event(ex)})

    # bookkeeping / vacuity
    for k in ("Filter", "GenerateResponse", "DataSanitation", "CustomScript", "UserDefinedMetrics", "UserDefinedTraces"):
        if stats["by_kind"].get(k, 0) < 3 and not ctx.violations:
            raise Broken("vacuous run: only %d non-trivial sides of kind %s" % (stats["by_kind"].get(k, 0), k))
    ctx.notes.append("non-trivial distinct sides per kind: %s" % json.dumps(stats["by_kind"], sort_keys=True))
    if stats["unreported"]:
        ctx.notes.append("%d further rejected events were not reproduced / reported (cap)" % stats["unreported"])
    if stats["drift"]:
        ctx.cov["model_drift"] = True
        ctx.notes.append("MODEL-DRIFT: %d recorded events permitted by the contracts differ from the engine models, e.g. %s" % (
            stats["drift"], json.dumps(stats["drift_examples"][:2])[:1500]))
        if os.environ.get("X06_DEV_DRIFT"):
            json.dump(stats["drift_examples"], open(os.environ["X06_DEV_DRIFT"], "w"), indent=1)
    for d in ALLDEV:
        if d in stats["dev"]:
            ctx.notes.append("DOC-CODE DISAGREEMENT (%s - %s): %d recorded events are accepted only because the deviation is listed, e.g. %s" % (
                d, DEV_TEXT[d], stats["dev"][d], json.dumps(stats["dev_examples"][d])[:1100]))
    missing = [d for d in ALLDEV if d not in stats["dev"]]
    if missing:
        # (that each deviation is needed by the engine MODEL is checked by TLC above; a repaired engine no longer needs it: not an error)
        ctx.notes.append("named deviations not needed by any recorded event of this run (the engine does what the texts say there): %s" % missing)

    # (4) binding self-test (thorough): corrupted recordings must be rejected
    if T:
        def first(kind, pred):
            for u, evs in gen_units:
                if u.kind == kind and not u.refused:
                    for i, e in enumerate(evs):
                        if e["ev"] == "side" and pred(e):
                            return copy.deepcopy(evs), i
            raise Broken("self-test: no %s recording to corrupt" % kind)
        bad = []
        evs, i = first("Filter", lambda e: e["o"]["next"] == "miss" and not e["x"]["h"])
        evs[i]["o"]["next"] = "hit"
        bad.append(("filter miss reported as hit", evs))
        evs, i = first("GenerateResponse", lambda e: e["o"]["early"])
        evs[i]["o"]["st"] += 1
        bad.append(("answer status off by one", evs))
        evs, i = first("DataSanitation", lambda e: "masked" in e["o"]["toks"] and e["x"]["toks"][0] != "creditcard")
        j = evs[i]["o"]["toks"].index("masked")
        evs[i]["o"]["toks"][j] = "kept"
        bad.append(("masked token reported as kept", evs))
        evs, i = first("UserDefinedMetrics", lambda e: e["o"]["cont"])
        del evs[i]
        bad.append(("counted side dropped", evs))
        res = parallel(lambda it: judge(ctx, it[1][1], ALLDEV, "self%d" % it[0]), list(enumerate(bad)), n=4)
        okk = [bool(r[0]) for r in res]
        if not all(okk):
            raise Broken("self-test: corrupted recording accepted: %s" % [b[0] for b, o in zip(bad, okk) if not o])
        ctx.notes.append("self-test: rejected as they must be - " + "; ".join(b[0] for b in bad))


def replay(ctx, path):
    obj = json.load(open(path))
    binary = ctx.build_harness("x06")
    rp = obj["replay"]
    u = Unit(rp["case"], rp["side"], rp["case"]["xs"], list(range(len(rp["case"]["xs"]))), "replay")
    recs = execute(ctx, binary, [u.history(ctx.rng)], "replay")[0]
    evs = u.abstract(recs)
    for e in evs:
        print(json.dumps(show_event(e))[:700])
    rej, _, _ = judge(ctx, evs, ALLDEV, "replay")
    if rej:
        print("VIOLATION property=X06 replay=%s" % path)
        print("   rejected: %s" % sorted(rej.items())[:3])
        return 1
    print("replay accepted by the specification")
    return 0
