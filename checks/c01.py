"""C01 - fixed-window quotas never admit more than their limit per window.

spec:     specs/c01_fixed_window  FixedWindowP (property), FixedWindowI (implementation-shaped), FixedWindowTrace, GenC01
binding:  harness/cmd/c01 drives a real streams.Stream (generated quota/flow YAML) through ExecuteFlow on the mock clock
"""
import json, os
from vlib import Broken, read_ndjson, write_ndjson, validate_history_trace, parallel, tlc_vh_lines, split_histories

SPEC = "c01_fixed_window"
HEADER = "x-group"
COST_HEADER = "x-cost"


# --------------------------------------------------------------------------- configuration -> YAML
def chain(cfg, q):
    out = [q]
    while cfg["parent"][out[-1]] != "-":
        out.append(cfg["parent"][out[-1]])
    return out


def derive(cfg):
    """Max / W / grouped of percentage shares as the generator needs them (floor(Max(parent) * pct / 100), window and grouping
    inherited).  The oracle does NOT use these: FixedWindowCfg.tla derives them again from the configured percentages."""
    pct = cfg.get("pct", {})
    for q in sorted(cfg["quotas"], key=lambda q: len(chain(cfg, q))):
        if pct.get(q, 0):
            par = cfg["parent"][q]
            cfg["Max"][q] = cfg["Max"][par] * pct[q] // 100
            cfg["W"][q] = cfg["W"][par]
            cfg["grouped"][q] = cfg["grouped"][par]
    return cfg


def _strategy(cfg, q, ind):
    if cfg.get("pct", {}).get(q, 0):
        return ["%sstrategy:" % ind, "%s  allocation_percentage: %d" % (ind, cfg["pct"][q])]
    custom = cfg.get("custom", False)
    name = "fixed_window_custom_counter" if custom else "fixed_window"
    lines = ["%sstrategy:" % ind, "%s  %s:" % (ind, name),
             "%s    max: %d" % (ind, cfg["Max"][q]),
             "%s    interval: %d" % (ind, cfg["W"][q] // 2),
             "%s    interval_unit: second" % ind]
    if cfg["grouped"][q]:
        lines.append("%s    group_by_header: %s" % (ind, HEADER))
    if custom:
        lines.append("%s    counter_value_path: '$.request.headers[\"%s\"]'" % (ind, COST_HEADER))
    return lines


def files_of(cfg):
    """quota forest -> one quotas file (roots under `quotas`, the rest under `internal_limits`, parents first)
    and one flow per quota:  Limiter(quota) -above_limit-> GenerateResponse(429)."""
    ql = ["quotas:"]
    roots = [q for q in cfg["quotas"] if cfg["parent"][q] == "-"]
    for q in roots:
        ql += ["  - id: %s" % q, "    filter:", "      url: api.test/*"] + _strategy(cfg, q, "    ")
    # parents before children (the loader drops an internal limit declared before its parent); the order among
    # the others is the configuration's (cfg["order"]: declaration orders are part of the configuration space)
    order = cfg.get("order", cfg["quotas"])
    rest = sorted([q for q in order if cfg["parent"][q] != "-"], key=lambda q: len(chain(cfg, q)))
    if rest:
        ql.append("internal_limits:")
    for q in rest:
        ql += ["  - id: %s" % q, "    parent_id: %s" % cfg["parent"][q]] + _strategy(cfg, q, "    ")
    files = {"quotas/quotas.yaml": "\n".join(ql) + "\n"}
    for q in cfg["quotas"]:
        if q in cfg.get("noflow", []):
            continue
        files["flows/flow_%s.yaml" % q] = FLOW % {"q": q}
    return files


FLOW = """name: flow_%(q)s
filter:
  url: api.test/%(q)s
processors:
  Limiter_%(q)s:
    processor: Limiter
    parameters:
      - key: quota_id
        value: %(q)s
  TooMany_%(q)s:
    processor: GenerateResponse
    parameters:
      - key: status
        value: 429
      - key: body
        value: Too Many Requests
      - key: Content-Type
        value: text/plain
flow:
  request:
    - from:
        stream:
          name: globalStream
          at: start
      to:
        processor:
          name: Limiter_%(q)s
    - from:
        processor:
          name: Limiter_%(q)s
          condition: above_limit
      to:
        processor:
          name: TooMany_%(q)s
    - from:
        processor:
          name: Limiter_%(q)s
          condition: below_limit
      to:
        stream:
          name: globalStream
          at: end
  response:
    - from:
        processor:
          name: TooMany_%(q)s
      to:
        stream:
          name: globalStream
          at: end
"""


def script_of(cfg, histories, hooks=False):
    model = {k: cfg[k] for k in ("quotas", "parent", "groups")}
    pct = {q: cfg.get("pct", {}).get(q, 0) for q in cfg["quotas"]}
    model["pct"] = pct
    # what the configuration states explicitly; for a percentage share nothing but the percentage is stated
    model["Max"] = {q: (cfg["Max"][q] if not pct[q] else 0) for q in cfg["quotas"]}
    model["W"] = {q: (cfg["W"][q] if not pct[q] else 0) for q in cfg["quotas"]}
    model["grouped"] = {q: (cfg["grouped"][q] if not pct[q] else False) for q in cfg["quotas"]}
    return {"config": model, "files": files_of(cfg), "header": HEADER,
            "cost_header": COST_HEADER if cfg.get("custom") else "", "hooks": hooks, "histories": histories}


# --------------------------------------------------------------------------- random scripts
SHAPES = [
    {"quotas": ["p", "c1", "c2"], "parent": {"p": "-", "c1": "p", "c2": "p"}},
    {"quotas": ["r", "m", "l"], "parent": {"r": "-", "m": "r", "l": "m"}},
    {"quotas": ["a1"], "parent": {"a1": "-"}},
    {"quotas": ["p", "c1", "z"], "parent": {"p": "-", "c1": "p", "z": "-"}},
]


def rand_config(rng, thorough, custom=False):
    sh = rng.choice(SHAPES)
    cfg = {"quotas": list(sh["quotas"]), "parent": dict(sh["parent"]), "groups": ["a", "b", "default"],
           "Max": {}, "W": {}, "grouped": {}, "custom": custom}
    for q in cfg["quotas"]:
        cfg["Max"][q] = rng.choice([1, 2, 2, 3] + ([4, 5] if thorough or custom else []))
        cfg["W"][q] = rng.choice([2, 2, 4, 6])
        cfg["grouped"][q] = rng.random() < 0.5
    return cfg


PCT_SHAPES = [
    # siblings that are shares of one root; a share of a share
    {"quotas": ["org", "ta", "tb"], "parent": {"org": "-", "ta": "org", "tb": "org"}, "pct": ["ta", "tb"]},
    {"quotas": ["org", "ta", "tb", "tb1"], "parent": {"org": "-", "ta": "org", "tb": "org", "tb1": "tb"}, "pct": ["ta", "tb", "tb1"]},
    {"quotas": ["org", "ta", "ta1", "tb"], "parent": {"org": "-", "ta": "org", "ta1": "ta", "tb": "org"}, "pct": ["ta", "ta1", "tb"]},
    {"quotas": ["org", "ex", "sh", "sh1"], "parent": {"org": "-", "ex": "org", "sh": "org", "sh1": "sh"}, "pct": ["sh", "sh1"]},
]


def pct_config(rng, custom=False):
    """hierarchies whose internal limits are percentage shares (allocation_percentage): several siblings, nested shares,
    declaration orders, percentages giving fractional maxima (34 % of 10, 30 % of 5, ...)."""
    while True:
        sh = rng.choice(PCT_SHAPES)
        cfg = {"quotas": list(sh["quotas"]), "parent": dict(sh["parent"]), "groups": ["a", "b", "default"],
               "Max": {}, "W": {}, "grouped": {}, "custom": custom, "pct": {}}
        for q in cfg["quotas"]:
            cfg["Max"][q] = rng.choice([5, 6, 8, 10, 12]) if cfg["parent"][q] == "-" else rng.choice([2, 3, 4])
            cfg["W"][q] = rng.choice([2, 4, 6])
            cfg["grouped"][q] = rng.random() < 0.4
            if q in sh["pct"]:
                cfg["pct"][q] = rng.choice([25, 30, 34, 50, 50, 60, 75, 100])
        order = [q for q in cfg["quotas"]]
        rng.shuffle(order)
        cfg["order"] = order
        derive(cfg)
        if all(cfg["Max"][q] >= 1 for q in cfg["quotas"]):
            return cfg


def rand_history(rng, cfg, n, conc):
    now = rng.randint(2, 9)
    h = [{"ev": "reset", "now": now}]
    qs = cfg["quotas"]
    hot = (rng.choice(qs), rng.choice(cfg["groups"]))
    costs = [1] if not cfg.get("custom") else [1, 1, 2, 3, 0]
    for _ in range(n):
        x = rng.random()
        if x < 0.30:
            w = cfg["W"][rng.choice(chain(cfg, hot[0]))]
            d = rng.choice([1, 1, 2, 3, w - 1, w, w, w + 1])
            d = max(1, d)
            now += d
            h.append({"ev": "adv", "d": d})
        elif x < 0.34:
            h.append({"ev": "resetin", "q": rng.choice(qs)})
        elif conc and x < 0.46:
            k = rng.randint(2, 4)
            reqs = []
            for _ in range(k):
                q, g = hot if rng.random() < 0.7 else (rng.choice(qs), rng.choice(cfg["groups"]))
                reqs.append({"q": q, "g": g, "cost": rng.choice(costs)})
            h.append({"ev": "conc", "reqs": reqs})
        else:
            q, g = hot if rng.random() < 0.65 else (rng.choice(qs), rng.choice(cfg["groups"]))
            h.append({"ev": "arrive", "q": q, "g": g, "cost": rng.choice(costs)})
    return h


def storm_scripts(rng, thorough):
    """storms near the limit: larger maxima, many goroutines issuing identical requests at one mock instant, window after
    window; addressed to a root quota or to a child (then the parent is shared with a sibling's storms)."""
    out = []
    for c in range(2 if not thorough else 6):
        mx = rng.choice([40, 60, 100, 150])
        if c % 2 == 0:
            cfg = {"quotas": ["s1"], "parent": {"s1": "-"}, "Max": {"s1": mx}, "W": {"s1": rng.choice([2, 4])},
                   "grouped": {"s1": rng.random() < 0.5}, "groups": ["a", "b", "default"], "custom": False}
            targets = ["s1"]
        else:
            cfg = {"quotas": ["sp", "sa", "sb"], "parent": {"sp": "-", "sa": "sp", "sb": "sp"},
                   "Max": {"sp": mx, "sa": rng.choice([mx // 2, mx, mx + 20]), "sb": rng.choice([mx // 2, mx])},
                   "W": {"sp": 4, "sa": rng.choice([2, 4]), "sb": 2},
                   "grouped": {"sp": False, "sa": rng.random() < 0.5, "sb": False}, "groups": ["a", "b", "default"], "custom": False}
            targets = ["sp"]        # storms address a root quota (one level: no open choice of how far refused requests were charged)
        hs = []
        for _ in range(4 if not thorough else 8):
            h = [{"ev": "reset", "now": rng.randint(2, 9)}]
            for _ in range(14 if not thorough else 20):
                q = rng.choice(targets)
                g = rng.choice(["a", "a", "default"])
                lim = min(cfg["Max"][x] for x in chain(cfg, q))
                h.append({"ev": "storm", "q": q, "g": g, "cost": 1, "n": rng.choice([lim + 8, 2 * lim, 2 * lim, lim // 2 + 3]),
                          "par": rng.choice([8, 16, 16, 32])})
                x = rng.random()
                if x < 0.6:
                    h.append({"ev": "adv", "d": rng.choice([cfg["W"][q], cfg["W"][q] - 1, cfg["W"][q] + 1, 1])})
                elif x < 0.8:
                    h.append({"ev": "arrive", "q": rng.choice(cfg["quotas"]), "g": g, "cost": 1})
            hs.append(h)
        out.append(script_of(cfg, hs))
    return out


def gated_scripts(rng, thorough):
    """the two-step Limiter protocol (quota.Inc, later quota.Allowed) under directed interleavings: a transaction is held at
    the yield point limiter.after_inc while the clock advances and other transactions restart the window 0..3 times;
    windows full and not full when it was counted; one or two transactions held; root quota and child + parent."""
    out = []
    cfgs = []
    for mx in (1, 2):
        cfgs.append(({"quotas": ["g1"], "parent": {"g1": "-"}, "Max": {"g1": mx}, "W": {"g1": 2}, "grouped": {"g1": False},
                      "groups": ["a", "b", "default"], "custom": False}, "g1"))
    cfgs.append(({"quotas": ["gp", "gc"], "parent": {"gp": "-", "gc": "gp"}, "Max": {"gp": 3, "gc": 1}, "W": {"gp": 4, "gc": 2},
                  "grouped": {"gp": False, "gc": True}, "groups": ["a", "b", "default"], "custom": False}, "gc"))
    for cfg, q in cfgs:
        w, mx = cfg["W"][q], cfg["Max"][q]
        hs = []

        def go():
            return {"op": "go", "q": q, "g": "a", "cost": 1}
        for fill in (mx - 1, mx):
            for r in (0, 1, 2, 3):
                for d in (w, w + 1):
                    steps = [go() for _ in range(fill)] + [{"op": "inc", "i": 0, "q": q, "g": "a", "cost": 1}]
                    for _ in range(r):
                        steps += [{"op": "adv", "d": d}, go()]
                    steps += [{"op": "allowed", "i": 0}, go()]
                    hs.append([{"ev": "reset", "now": 2 + (r % 2)}, {"ev": "gated", "steps": steps}])
        # two transactions held, released in the other order, with restarts in between
        for fill in (mx - 1, mx):
            steps = [go() for _ in range(fill)] + [{"op": "inc", "i": 0, "q": q, "g": "a", "cost": 1}, {"op": "inc", "i": 1, "q": q, "g": "a", "cost": 1},
                                                   {"op": "adv", "d": w}, go(), {"op": "allowed", "i": 1}, {"op": "adv", "d": w}, go(),
                                                   {"op": "adv", "d": w}, go(), {"op": "allowed", "i": 0}, go()]
            hs.append([{"ev": "reset", "now": 2}, {"ev": "gated", "steps": steps}])
        # random schedules
        for _ in range(6 if not thorough else 30):
            steps, parked, nxt = [], [], 0
            for _ in range(rng.randint(6, 14)):
                x = rng.random()
                if x < 0.3 and len(parked) < 3:
                    steps.append({"op": "inc", "i": nxt, "q": rng.choice(cfg["quotas"]), "g": rng.choice(["a", "a", "b"]), "cost": 1})
                    parked.append(nxt)
                    nxt += 1
                elif x < 0.5 and parked:
                    i = rng.choice(parked)
                    parked.remove(i)
                    steps.append({"op": "allowed", "i": i})
                elif x < 0.75:
                    steps.append({"op": "adv", "d": rng.choice([1, w - 1, w, w, w + 1, 2 * w])})
                else:
                    steps.append({"op": "go", "q": rng.choice(cfg["quotas"]), "g": rng.choice(["a", "a", "b"]), "cost": 1})
            steps = [st for st in steps if not (st["op"] == "adv" and st["d"] < 1)]
            hs.append([{"ev": "reset", "now": rng.randint(2, 7)}, {"ev": "gated", "steps": steps}])
        out.append(script_of(cfg, hs))
    return out


def script_of_history(hist):
    if any(e.get("gated") for e in hist):
        # a directed schedule: rebuild the steps from the recording
        steps, parked = [], {}
        it = iter(range(len(hist)))
        for k in it:
            e = hist[k]
            if e["ev"] == "adv":
                steps.append({"op": "adv", "d": e["d"]})
            elif e["ev"] == "begin" and e.get("gated"):
                parked[e["id"]] = len(parked)
                steps.append({"op": "inc", "i": parked[e["id"]], "q": e["q"], "g": e["g"], "cost": e["cost"]})
            elif e["ev"] == "begin":
                steps.append({"op": "go", "q": e["q"], "g": e["g"], "cost": e["cost"]})
            elif e["ev"] == "end" and e["id"] in parked:
                steps.append({"op": "allowed", "i": parked[e["id"]]})
        return [{"ev": "reset", "now": hist[0]["now"]}, {"ev": "gated", "steps": steps}]
    """strip outcomes from a recorded history -> script events (concurrent groups re-assembled)."""
    out, conc, open_ids = [], None, set()
    for e in hist:
        if e["ev"] == "begin":
            if conc is None or not open_ids:        # a batch ends when all its operations have returned
                conc = {"ev": "conc", "reqs": []}
                out.append(conc)
            open_ids.add(e["id"])
            conc["reqs"].append({"q": e["q"], "g": e["g"], "cost": e["cost"]})
        elif e["ev"] == "end":
            open_ids.discard(e["id"])
            continue
        else:
            conc = None
            if e["ev"] == "storm":
                out.append({"ev": "storm", "q": e["q"], "g": e["g"], "cost": e["cost"], "n": e["n"], "par": 16})
            else:
                out.append({k: v for k, v in e.items() if k != "out"})
    return out


def nontrivial(hist):
    """a history exercises the property when a request was refused and a later request was admitted after a clock advance
    (i.e. a window was reopened)."""
    seen_refuse = adv_after = False
    for e in hist:
        if e.get("out") == "refuse":
            seen_refuse = True
        elif e["ev"] == "adv" and seen_refuse:
            adv_after = True
        elif e.get("out") == "admit" and adv_after:
            return True
    return False


def witness_of(rej):
    h, at, cfg = rej["hist"], rej["at"], rej["config"]
    now = 0
    for e in h[: at + 1]:
        if e["ev"] == "reset":
            now = e["now"]
        elif e["ev"] == "adv":
            now += e["d"]
    e = h[at]
    q = e.get("q")
    return {"class": "verdict-not-allowed-by-spec" if not rej.get("invariant") else "bound-exceeded",
            "event": e, "now": now, "depth": len(chain(cfg, q)) if q in cfg.get("parent", {}) else 0,
            "concurrent": e["ev"] in ("begin", "end", "storm"), "invariant": rej.get("invariant")}


def execute(ctx, binary, scripts, tag):
    d = ctx.sub("run-" + tag)
    sp = os.path.join(d, "scripts.json")
    json.dump(scripts, open(sp, "w"))
    ctx.run_harness(binary, ["run", sp, d])
    return [read_ndjson(os.path.join(d, "trace-%03d.ndjson" % i)) for i in range(len(scripts))]


def drift_check(ctx, tag, n):
    """hook-level recordings (fw.inc under quota.mutex) against the implementation-shaped model.
    A mismatch is MODEL-DRIFT (evidence only), never a violation."""
    d = ctx.sub("run-" + tag)

    def one(i):
        ev = read_ndjson(os.path.join(d, "hooks-%03d.ndjson" % i))
        for e in ev:
            if e.get("ev") == "fw.inc":
                e["q"], e["k"] = e.pop("key").rsplit("_", 1)
                e.pop("req", None)
        acc, rej, _ = validate_history_trace(ctx, SPEC, "FixedWindowITrace", ev, tag="%s-i%d" % (tag, i), max_rounds=1)
        return acc, rej, sum(1 for e in ev if e.get("ev") == "fw.inc")
    tot = 0
    for acc, rej, k in parallel(one, list(range(n)), n=2):
        tot += k
        if rej:
            ctx.cov["model_drift"] = True
            r = rej[0]
            ctx.notes.append("MODEL-DRIFT: fw.inc event not explained by FixedWindowOps!IncLocked: %s" % json.dumps(r["hist"][r["at"]]))
    ctx.notes.append("hook level: %d fw.inc events of %d recordings validated against FixedWindowOps!IncLocked%s"
                     % (tot, n, " - MODEL-DRIFT" if ctx.cov["model_drift"] else ""))
    ctx.log(ctx.notes[-1])


UNREPRODUCED = []


def judge(ctx, binary, scripts, traces, tag, seen_hist):
    """validate recorded traces against FixedWindowP; confirm each rejection by re-execution; report."""
    def one(it):
        i, ev = it
        return validate_history_trace(ctx, SPEC, "FixedWindowTrace", ev, tag="%s%d" % (tag, i))
    res = parallel(one, list(enumerate(traces)), n=2)
    for (acc, rejected, rounds), ev, sc in zip(res, traces, scripts):
        cfg, hs = split_histories(ev)
        ctx.cov["traces_validated_against_impl"] += acc
        for h in hs:
            ctx.cov["evaluations"] += sum(1 for e in h if e["ev"] in ("arrive", "begin")) + sum(e["n"] for e in h if e["ev"] == "storm")
            key = json.dumps([cfg, h], sort_keys=True)
            if key not in seen_hist:
                seen_hist.add(key)
                if nontrivial(h):
                    ctx.cov["distinct_nontrivial"] += 1
        for rej in rejected:
            if len(ctx.violations) >= 8:
                break              # enough reproduced witnesses: do not spend the run re-executing every further rejection
            w = witness_of(rej)
            script = dict(sc)
            script["histories"] = [script_of_history(rej["hist"])]
            reproduced = False
            for attempt in range(1 if not w["concurrent"] else 20):
                t2 = execute(ctx, binary, [script], "%s-repro" % tag)[0]
                a2, r2, _ = validate_history_trace(ctx, SPEC, "FixedWindowTrace", t2, tag="%s-repro" % tag)
                if r2:
                    reproduced = True
                    break
            if not reproduced:
                # never reported as a violation; the run is broken unless other rejections were reproduced
                ctx.notes.append("rejection not reproduced in %d attempts (%s): %s" % (20 if w["concurrent"] else 1, tag, json.dumps(w)))
                UNREPRODUCED.append(w)
                continue
            ctx.violation(w, {"script": [script], "trace": [rej["config"]] + rej["hist"], "rejected_at": rej["at"]})


GEN_CONFIG = {"quotas": ["p", "c1", "c2", "z"], "parent": {"p": "-", "c1": "p", "c2": "p", "z": "-"},
              "Max": {"p": 3, "c1": 1, "c2": 2, "z": 2}, "W": {"p": 4, "c1": 2, "c2": 2, "z": 6},
              "grouped": {"p": False, "c1": True, "c2": False, "z": True}, "groups": ["a", "b", "default"]}

SEQ_VARIANTS = ["strict_gt", "no_delete", "no_parent", "no_error", "no_group"]      # each must be refuted by TLC
CONC_VARIANTS = ["racy_inc", "allow_unknown", "no_error"]


def variant_cfg(sd, base, variant, drop=()):
    """MC cfg of a deliberately broken model variant (non-vacuity)."""
    txt = open(os.path.join(sd, base)).read().replace('Variant = "none"', 'Variant = "%s"' % variant)
    if variant == "allow_unknown":       # needs a fourth transaction: one held across two window restarts by two others
        txt = txt.replace('Ids = {"x", "y", "z"}', 'Ids = {"x", "y", "z", "u"}')
    for d in drop:
        txt = txt.replace(d, "")
    name = base.replace(".cfg", "_%s.cfg" % variant)
    open(os.path.join(sd, name), "w").write(txt)
    return name


def run(ctx):
    T = ctx.thorough
    binary = ctx.build_harness("c01")
    sd = ctx.spec_dir(SPEC)
    ctx.cov["rule"] = ("histories = seeded random request scripts (requests addressed to any quota of a random forest, group header "
                       "values, clock advances of 1 tick .. W+1 incl. steps landing exactly on window ends, ResetIn calls, concurrent "
                       "batches; every third configuration uses the custom-counter strategy with costs 0..3; storms: 8-32 goroutines issuing "
                       "up to 2x max identical requests at one instant on quotas with max 40-150, window after window) + TLC -simulate walks of "
                       "FixedWindowP; a history is non-trivial when a request is refused, the clock then advances and a later request "
                       "is admitted (a window was reopened); distinct by (config, events)")
    ctx.cov["checker_cmd"] = ("tlc -config MC_seq_small.cfg MC_C01.tla ; tlc -config MC_conc_small.cfg MC_C01.tla ; "
                              "tlc -config FixedWindowTrace.cfg FixedWindowTrace.tla")
    ctx.cov["trusted_base"] = ["TLC 1.8", "CommunityModules Json", "Go toolchain", "clock.MockClock",
                               "harness/cmd/c01 projection (early-return action present = refuse, else admit)"]
    ctx.assumptions += ["1 tick = 500 ms, windows are whole seconds (even ticks); the window anchor may lie anywhere within 1 s before the opening request",
                        "'full' = the counter of the current window has reached the maximum (child quotas are charged before ancestors, also by requests an ancestor refuses)",
                        "every quota of a configuration is referenced by a flow or is an ancestor of a referenced quota (no stand-alone system-flow counting)",
                        "spillover and monthly renewal not covered (monthly renewal is unreachable in this tree: fixedWindow.monthlyRenewal is never assigned)",
                        "transaction ids of overlapping requests are distinct; in the interleaving model every id names one transaction",
                        "instants are bounded in the exhaustive models (MaxNow)"]

    # (1) exhaustive: requests one at a time: I refines P; interleaved critical sections: the bound.
    #     non-vacuity: deliberately broken variants of the model must be refuted.  (2a) behaviour generation.
    #     All TLC jobs of this phase run side by side.
    n = 25 if not T else 300
    jobs = [("ex", "MC_C01", "MC_seq_small.cfg" if not T else "MC_seq_large.cfg", "seq: I refines P (exact verdicts)"),
            ("ex", "MC_C01", "MC_conc_small.cfg" if not T else "MC_conc_large.cfg", "conc: bound under interleaving")]
    if T:
        jobs.append(("ex", "MC_C01", "MC_seq_chain3.cfg", "seq: 3-level chain, costs {1,2}"))
        jobs.append(("ex", "MC_C01", "MC_seq_siblings.cfg", "seq: parent with two children"))
        jobs.append(("ex", "MC_C01", "MC_seq_small.cfg", "seq: I refines P, Exact, NoCarry (small)"))
        jobs.append(("ok", "MC_C01", variant_cfg(sd, "MC_seq_small.cfg", "no_trunc"), "benign variant no_trunc must pass"))
    jobs += [("nv", "MC_C01", variant_cfg(sd, "MC_seq_small.cfg", v, ("MemoClean",)), v) for v in (SEQ_VARIANTS if T else SEQ_VARIANTS[:3])]
    jobs += [("nv", "MC_C01", variant_cfg(sd, "MC_conc_small.cfg", v), v) for v in (CONC_VARIANTS if T else CONC_VARIANTS[:2])]
    jobs.append(("gen", "GenC01", "GenC01.cfg", "behaviour generation"))

    def tl(job):
        kind, mod, cfg, label = job
        if kind == "gen":
            return ctx.tlc(sd, mod, cfg, workers=1, simulate="num=%d" % n, depth=25, extra=["-seed", str(ctx.seed)], timeout=900, label=label)
        if kind == "nv":
            return ctx.tlc(sd, mod, cfg, workers=2, timeout=600, label="non-vacuity: %s must be refuted" % label)
        return ctx.tlc(sd, mod, cfg, workers=(4 if not T else 8), timeout=1500, label=label)
    from concurrent.futures import ThreadPoolExecutor
    bg = ThreadPoolExecutor(max_workers=1)
    fut = bg.submit(lambda: parallel(tl, jobs, n=2))

    seen = set()
    # (3) code -> spec, while TLC works: random scripts incl. concurrency, recorded and validated
    ncfg, nh, hl = (6, 24, 28) if not T else (24, 80, 40)
    scripts = []
    for c in range(ncfg):
        cfg = rand_config(ctx.rng, T, custom=(c % 3 == 2)) if c % 3 != 1 else pct_config(ctx.rng, custom=(c % 2 == 0))
        scripts.append(script_of(cfg, [rand_history(ctx.rng, cfg, hl, conc=(i % 2 == 1)) for i in range(nh)], hooks=True))
    nrand = len(scripts)
    scripts += storm_scripts(ctx.rng, T)
    scripts += gated_scripts(ctx.rng, T)
    rtraces = execute(ctx, binary, scripts, "rand")
    ctx.sample({"kind": "recorded-trace", "events": rtraces[0][:14]})
    judge(ctx, binary, scripts, rtraces, "rand", seen)
    if not ctx.violations:
        drift_check(ctx, "rand", nrand)

    g = None
    for job, r in zip(jobs, fut.result()):
        kind, mod, cfg, label = job
        if kind == "ex":
            if not r.ok or r.distinct <= 1:
                raise Broken("TLC %s/%s: %r\n%s" % (mod, cfg, r, r.out[-3000:]))
            ctx.cov["states"] += r.distinct
            ctx.cov["transitions"] += r.generated
            ctx.log("TLC %s %s: %d generated / %d distinct, depth %d, %.1fs" % (mod, cfg, r.generated, r.distinct, r.depth, r.wall))
        elif kind == "ok" and not r.ok:
            raise Broken("benign model variant (window start stored unrounded) is rejected: %r" % r)
        elif kind == "nv" and r.violated is None:
            raise Broken("model variant %s is not refuted (vacuous check): %r" % (label, r))
        elif kind == "gen":
            g = r

    # (2) spec -> code: TLC-generated behaviours of P, replayed; the real outcomes are judged by trace validation
    behaviours = tlc_vh_lines(g.out)
    if len(behaviours) < n * 4:
        raise Broken("behaviour generation produced %d walks: %s" % (len(behaviours), g.out[-1500:]))
    hists = [[{"ev": "reset", "now": 2}] + [{k: v for k, v in e.items() if k not in ("out", "mode")} for e in b] for b in behaviours]
    gscripts = [script_of(GEN_CONFIG, hists)]
    traces = execute(ctx, binary, gscripts, "gen")
    cfg, real = split_histories(traces[0])
    same = sum(1 for b, h in zip(behaviours, real) if all(se.get("out") == re_.get("out") for se, re_ in zip(b, h[1:])))
    ctx.log("replayed %d TLC behaviours; %d identical to the walk's own choices (the rest differ only where P leaves the anchor open)"
            % (len(behaviours), same))
    ctx.sample({"kind": "tlc-behaviour", "config": GEN_CONFIG, "events": behaviours[0][:12]})
    judge(ctx, binary, gscripts, traces, "gen", seen)

    if UNREPRODUCED and not ctx.violations:
        raise Broken("rejection(s) not reproduced: %s" % json.dumps(UNREPRODUCED[0]))
    if ctx.cov["distinct_nontrivial"] < 20 and not ctx.violations:
        raise Broken("only %d non-trivial histories" % ctx.cov["distinct_nontrivial"])

    # (4) binding self-test (thorough): a corrupted / truncated recording must be rejected
    if T and not ctx.violations:
        ev = [e for e in rtraces[0]]
        k = next(i for i, e in enumerate(ev) if e.get("ev") == "arrive" and e.get("out") == "refuse")
        bad = [dict(e) for e in ev]
        bad[k]["out"] = "admit"
        _, rej, _ = validate_history_trace(ctx, SPEC, "FixedWindowTrace", bad, tag="selftest1", max_rounds=1)
        # dropping the first admitted request of a history that later refuses on the same key makes the refusal spurious
        k2 = next(i for i, e in enumerate(ev) if e.get("ev") == "arrive" and e.get("out") == "admit")
        drop = [e for i, e in enumerate(ev) if i != k2]
        _, rej2, _ = validate_history_trace(ctx, SPEC, "FixedWindowTrace", drop, tag="selftest2", max_rounds=1)
        if not rej:
            raise Broken("self-test: corrupted trace accepted")
        ctx.notes.append("self-test: corrupted verdict rejected=%s, dropped admit event rejected=%s" % (bool(rej), bool(rej2)))


def replay(ctx, path):
    obj = json.load(open(path))
    binary = ctx.build_harness("c01")
    t = execute(ctx, binary, obj["replay"]["script"], "replay")[0]
    acc, rej, _ = validate_history_trace(ctx, SPEC, "FixedWindowTrace", t, tag="replay")
    for e in t:
        print(json.dumps(e))
    if rej:
        print("VIOLATION property=C01 replay=%s" % path)
        print("   rejected at event %d: %s" % (rej[0]["at"], json.dumps(rej[0]["hist"][rej[0]["at"]])))
        return 1
    print("replay accepted by the specification")
    return 0
