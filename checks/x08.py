"""X08 - the engine's administrative interface as a state machine (growth item, not one of the listed properties).

spec:     specs/x08_admin_interface  AdminP (operator-visible machine: mode, tree on disk, loaded configuration, answers),
          AdminI (handler steps, lock, engine pointer, files the engine writes itself), MC_X08 (I x P product),
          GenX08 (operation sequences), AdminTrace (trace validation = the verdict)
binding:  harness/cmd/x08: one process per history - real NewHandlingDataManager + Setup (start-up), real SetHandleRoutes
          mux under httptest, real routing.Handler for the probe transactions, loopback fake of the HAProxy admin API.
"""
import json, os, random, re, socket, threading
from vlib import Broken, read_ndjson, write_ndjson, validate_history_trace, parallel, tlc_vh_lines, split_histories

SPEC = "x08_admin_interface"

# ------------------------------------------------------------------------------------------------ contents
HDR = "x-ver"


def flow_yaml(letter, tag, name=None, limiter=False):
    name = name or ("flow_" + letter)
    procs = """  tagReq:
    processor: TransformAPICall
    parameters:
      - key: set
        value:
          "$.request.headers['%s']": "%s:%s"
""" % (HDR, letter, tag)
    if limiter:
        procs += """  lim:
    processor: Limiter
    parameters:
      - key: quota_id
        value: qx
"""
        req = """    - from:
        stream:
          name: globalStream
          at: start
      to:
        processor:
          name: lim
    - from:
        processor:
          name: lim
          condition: below_limit
      to:
        processor:
          name: tagReq
    - from:
        processor:
          name: lim
          condition: above_limit
      to:
        processor:
          name: tagReq
"""
    else:
        req = """    - from:
        stream:
          name: globalStream
          at: start
      to:
        processor:
          name: tagReq
"""
    return """name: %s
filter:
  url: api.test/%s
  method: [GET]
processors:
%sflow:
  request:
%s    - from:
        processor:
          name: tagReq
      to:
        stream:
          name: globalStream
          at: end
  response:
    - from:
        stream:
          name: globalStream
          at: start
      to:
        stream:
          name: globalStream
          at: end
""" % (name, letter, procs, req)


def flow_bad(letter):
    """parses as YAML and as a flow representation; the graph names a processor that is not declared"""
    return flow_yaml(letter, "bad").replace("name: tagReq\n      to:", "name: missingProcessor\n      to:", 1)


def flow_rep(letter):
    """parses as YAML; not a flow representation (no filter, no flow section)"""
    return "name: flow_%s\nprocessors: {}\n" % letter


def flows_contents():
    c = {}
    for f in ("a", "b", "c"):
        m = {t: flow_yaml(f, t) for t in ("v1", "v2", "v3")}
        m["bad"] = flow_bad(f)
        m["junk"] = "}{ this is : not [ a flow\n\t- x"
        m["rep"] = flow_rep(f)
        c["flows/%s.yaml" % f] = m
    c["flows/b.yaml"]["dup"] = flow_yaml("b", "dup", name="flow_a")
    c["flows/b.yaml"]["lim"] = flow_yaml("b", "lim", limiter=True)
    c["quotas/q.yaml"] = {
        "q1": "quotas:\n  - id: qx\n    filter:\n      url: api.test/b\n    strategy:\n      fixed_window:\n        max: 1000000\n"
              "        interval: 1\n        interval_unit: minute\n",
        "q2": "quotas:\n  - id: qy\n    filter:\n      url: api.test/c\n    strategy:\n      fixed_window:\n        max: 1000000\n"
              "        interval: 1\n        interval_unit: minute\n",
        "qbad": "quotas:\n  - id: qx\n    filter:\n      url: api.test/b\n",
        "qjunk": "quotas: [unclosed\n  - id: {\n",
    }
    c["gateway_config.yaml"] = {"g1": "# gateway config g1\nallowed_domains: []\nblocked_domains: []\n",
                                "g2": "# gateway config g2\nallowed_domains: []\nblocked_domains: []\n",
                                "gbad": "allowed_domains: [a, b\n  - : :\n\t}"}
    c["path_params/p.yaml"] = {"p1": "# path params p1\npath_params:\n  - url: pp.test/p/p1/{id}\n"}
    c["discover"] = {"s1": "{\"endpoints\": {}, \"tag\": \"s1\"}", "s2": "{\"endpoints\": {}, \"tag\": \"s2\"}", "sjunk": "not json {"}
    c["remedy"] = {"r1": "{\"remedies\": [], \"tag\": \"r1\"}", "r2": "{\"remedies\": [], \"tag\": \"r2\"}"}
    return c


POLICY_STATUS = {"P1": 411, "P2": 412, "P3": 413, "Q1": 421, "Q2": 422}


def policies_yaml(label):
    """Pn: endpoint remedy (fixed response, status = label) + an enabled global diagnosis; Qn: the same without diagnosis;
    invalid documents, one per validation-rule class; pconf passes the validator and fails when the endpoint tree is built"""
    exporters = "exporters:\n  file:\n    file_dir: /tmp/x08-unused\n    file_name: out\n"

    def remedy(name, status, ind="      "):
        return ("%s- name: \"%s\"\n%s  enabled: true\n%s  config:\n%s    fixed_response:\n%s      status_code: %d\n"
                % (ind, name, ind, ind, ind, ind, status))

    def endpoint(url, rem, diag="[]"):
        return "  - url: \"%s\"\n    method: GET\n    remedies:\n%s    diagnosis: %s\n" % (url, rem, diag)

    diag = ("  diagnosis:\n    - name: \"diag\"\n      enabled: true\n      config:\n        void: {}\n      export: \"file\"\n")
    nodiag = "  diagnosis: []\n"
    if label in POLICY_STATUS:
        d = diag if label.startswith("P") else nodiag
        return ("global:\n  remedies: []\n" + d + "endpoints:\n" + endpoint("api.test/a", remedy(label, POLICY_STATUS[label])) + exporters)
    if label == "pjunk":
        return "global: [unclosed\n  - {\n"
    if label == "punk":      # unknown plugin
        return ("global:\n  remedies: []\n" + nodiag + "endpoints:\n  - url: \"api.test/a\"\n    method: GET\n    remedies:\n"
                "      - name: \"punk\"\n        enabled: true\n        config:\n          no_such_plugin:\n            x: 1\n    diagnosis: []\n" + exporters)
    if label == "pdup":      # duplicate policy names
        return ("global:\n  remedies: []\n" + nodiag + "endpoints:\n" + endpoint("api.test/a", remedy("pdup", 431)) +
                endpoint("api.test/d", remedy("pdup", 432)) + exporters)
    if label == "pexp":      # a diagnosis exporting to an exporter that is not configured
        return ("global:\n  remedies: []\n  diagnosis:\n    - name: \"diag\"\n      enabled: true\n      config:\n        void: {}\n"
                "      export: \"s3\"\n" + "endpoints:\n" + endpoint("api.test/a", remedy("pexp", 433)) + exporters)
    if label == "pacct":     # account orchestration over an account that is not defined
        return ("global:\n  remedies: []\n" + nodiag + "endpoints:\n  - url: \"api.test/a\"\n    method: GET\n    remedies:\n"
                "      - name: \"pacct\"\n        enabled: true\n        config:\n          account_orchestration:\n"
                "            round_robin: [\"nobody\"]\n    diagnosis: []\n" + exporters)
    if label == "pconf":     # two endpoints that match the same URL, both with a fixed_response remedy
        return ("global:\n  remedies: []\n" + nodiag + "endpoints:\n" + endpoint("api.test/*", remedy("pconf", 434)) +
                endpoint("api.test/a", remedy("pconf2", 435)) + exporters)
    raise Broken("unknown policies label %r" % label)


POLICY_LABELS = ["P1", "P2", "P3", "Q1", "Q2", "pjunk", "punk", "pdup", "pexp", "pacct", "pconf"]


def policies_contents():
    c = {"policies.yaml": {l: policies_yaml(l) for l in POLICY_LABELS}}
    c["discover"] = flows_contents()["discover"]
    c["remedy"] = flows_contents()["remedy"]
    return c


FLOW_PROBES = [{"id": "a", "url": "api.test/a"}, {"id": "b", "url": "api.test/b"}, {"id": "c", "url": "api.test/c"}]
POLICY_PROBES = [{"id": "a", "url": "api.test/a"}, {"id": "d", "url": "api.test/d"}]
