"""X08 - the engine's administrative interface as a state machine (growth item, not one of the listed properties).

spec:     specs/x08_admin_interface  AdminP (operator-visible machine: mode, tree on disk, loaded configuration, answers),
          AdminI (handler steps, lock, engine pointer, files the engine writes itself), MC_X08 (I x P product),
          GenX08 (operation sequences), AdminTrace (trace validation = the verdict)
binding:  harness/cmd/x08: one process per history - real NewHandlingDataManager + Setup (start-up), real SetHandleRoutes
          mux under httptest, real routing.Handler for the probe transactions, loopback fake of the HAProxy admin API.
"""
import json, os, random, re, socket, threading
from vlib import Broken, read_ndjson, write_ndjson, validate_history_trace, parallel, tlc_vh_lines, split_histories

SPEC = "x08_admin_interface"

# ------------------------------------------------------------------------------------------------ contents
HDR = "x-ver"


def flow_yaml(letter, tag, name=None, limiter=False):
    name = name or ("flow_" + letter)
    procs = """  tagReq:
    processor: TransformAPICall
    parameters:
      - key: set
        value:
          "$.request.headers['%s']": "%s:%s"
""" % (HDR, letter, tag)
    if limiter:
        procs += """  lim:
    processor: Limiter
    parameters:
      - key: quota_id
        value: qx
"""
        req = """    - from:
        stream:
          name: globalStream
          at: start
      to:
        processor:
          name: lim
    - from:
        processor:
          name: lim
          condition: below_limit
      to:
        processor:
          name: tagReq
    - from:
        processor:
          name: lim
          condition: above_limit
      to:
        processor:
          name: tagReq
"""
    else:
        req = """    - from:
        stream:
          name: globalStream
          at: start
      to:
        processor:
          name: tagReq
"""
    return """name: %s
filter:
  url: api.test/%s
  method: [GET]
processors:
%sflow:
  request:
%s    - from:
        processor:
          name: tagReq
      to:
        stream:
          name: globalStream
          at: end
  response:
    - from:
        stream:
          name: globalStream
          at: start
      to:
        stream:
          name: globalStream
          at: end
""" % (name, letter, procs, req)


def flow_bad(letter):
    """parses as YAML and as a flow representation; the graph names a processor that is not declared"""
    return flow_yaml(letter, "bad").replace("name: tagReq\n      to:", "name: missingProcessor\n      to:", 1)


def flow_rep(letter):
    """parses as YAML; not a flow representation (no filter, no flow section)"""
    return "name: flow_%s\nprocessors: {}\n" % letter


def flows_contents():
    c = {}
    for f in ("a", "b", "c"):
        m = {t: flow_yaml(f, t) for t in ("v1", "v2", "v3")}
        m["bad"] = flow_bad(f)
        m["junk"] = "}{ this is : not [ a flow\n\t- x"
        m["rep"] = flow_rep(f)
        c["flows/%s.yaml" % f] = m
    c["flows/b.yaml"]["dup"] = flow_yaml("b", "dup", name="flow_a")
    c["flows/b.yaml"]["lim"] = flow_yaml("b", "lim", limiter=True)
    c["quotas/q.yaml"] = {
        "q1": "quotas:\n  - id: qx\n    filter:\n      url: api.test/b\n    strategy:\n      fixed_window:\n        max: 1000000\n"
              "        interval: 1\n        interval_unit: minute\n",
        "q2": "quotas:\n  - id: qy\n    filter:\n      url: api.test/c\n    strategy:\n      fixed_window:\n        max: 1000000\n"
              "        interval: 1\n        interval_unit: minute\n",
        "qbad": "quotas:\n  - id: qx\n    filter:\n      url: api.test/b\n",
        "qjunk": "quotas: [unclosed\n  - id: {\n",
    }
    c["gateway_config.yaml"] = {"g1": "# gateway config g1\nallowed_domains: []\nblocked_domains: []\n",
                                "g2": "# gateway config g2\nallowed_domains: []\nblocked_domains: []\n",
                                "gbad": "allowed_domains: [a, b\n  - : :\n\t}"}
    c["path_params/p.yaml"] = {"p1": "# path params p1\npath_params:\n  - url: pp.test/p/p1/{id}\n"}
    c["discover"] = {"s1": "{\"endpoints\": {}, \"tag\": \"s1\"}", "s2": "{\"endpoints\": {}, \"tag\": \"s2\"}", "sjunk": "not json {"}
    c["remedy"] = {"s1": "{\"remedies\": [], \"tag\": \"s1\"}", "s2": "{\"remedies\": [], \"tag\": \"s2\"}"}
    return c


POLICY_STATUS = {"P1": 411, "P2": 412, "P3": 413, "Q1": 421, "Q2": 422}


def policies_yaml(label):
    """Pn: endpoint remedy (fixed response, status = label) + an enabled global diagnosis; Qn: the same without diagnosis;
    invalid documents, one per validation-rule class; pconf passes the validator and fails when the endpoint tree is built"""
    exporters = "exporters:\n  file:\n    file_dir: /tmp/x08-unused\n    file_name: out\n"

    def remedy(name, status, ind="      "):
        return ("%s- name: \"%s\"\n%s  enabled: true\n%s  config:\n%s    fixed_response:\n%s      status_code: %d\n"
                % (ind, name, ind, ind, ind, ind, status))

    def endpoint(url, rem, diag="[]"):
        return "  - url: \"%s\"\n    method: GET\n    remedies:\n%s    diagnosis: %s\n" % (url, rem, diag)

    diag = ("  diagnosis:\n    - name: \"diag\"\n      enabled: true\n      config:\n        void: {}\n      export: \"file\"\n")
    nodiag = "  diagnosis: []\n"
    if label in POLICY_STATUS:
        d = diag if label.startswith("P") else nodiag
        return ("global:\n  remedies: []\n" + d + "endpoints:\n" + endpoint("api.test/a", remedy(label, POLICY_STATUS[label])) + exporters)
    if label == "pjunk":
        return "global: [unclosed\n  - {\n"
    if label == "punk":      # unknown plugin
        return ("global:\n  remedies: []\n" + nodiag + "endpoints:\n  - url: \"api.test/a\"\n    method: GET\n    remedies:\n"
                "      - name: \"punk\"\n        enabled: true\n        config:\n          no_such_plugin:\n            x: 1\n    diagnosis: []\n" + exporters)
    if label == "pdup":      # duplicate policy names
        return ("global:\n  remedies: []\n" + nodiag + "endpoints:\n" + endpoint("api.test/a", remedy("pdup", 431)) +
                endpoint("api.test/d", remedy("pdup", 432)) + exporters)
    if label == "pexp":      # a diagnosis exporting to an exporter that is not configured
        return ("global:\n  remedies: []\n  diagnosis:\n    - name: \"diag\"\n      enabled: true\n      config:\n        void: {}\n"
                "      export: \"s3\"\n" + "endpoints:\n" + endpoint("api.test/a", remedy("pexp", 433)) + exporters)
    if label == "pacct":     # account orchestration over an account that is not defined
        return ("global:\n  remedies: []\n" + nodiag + "endpoints:\n  - url: \"api.test/a\"\n    method: GET\n    remedies:\n"
                "      - name: \"pacct\"\n        enabled: true\n        config:\n          account_orchestration:\n"
                "            round_robin: [\"nobody\"]\n    diagnosis: []\n" + exporters)
    if label == "pconf":     # two endpoints that match the same URL, both with a fixed_response remedy
        return ("global:\n  remedies: []\n" + nodiag + "endpoints:\n" + endpoint("api.test/*", remedy("pconf", 434)) +
                endpoint("api.test/a", remedy("pconf2", 435)) + exporters)
    raise Broken("unknown policies label %r" % label)


POLICY_LABELS = ["P1", "P2", "P3", "Q1", "Q2", "pjunk", "punk", "pdup", "pexp", "pacct", "pconf"]


def policies_contents():
    c = {"policies.yaml": {l: policies_yaml(l) for l in POLICY_LABELS}}
    c["discover"] = flows_contents()["discover"]
    c["remedy"] = flows_contents()["remedy"]
    return c


FLOW_PROBES = [{"id": "a", "url": "api.test/a"}, {"id": "b", "url": "api.test/b"}, {"id": "c", "url": "api.test/c"}]
POLICY_PROBES = [{"id": "a", "url": "api.test/a"}, {"id": "d", "url": "api.test/d"}]


# ------------------------------------------------------------------------------------------------ histories
def fix(v):
    """TLC's ToJson writes an empty function as an empty sequence"""
    return {} if v == [] or v is None else v


def op_from_model(o):
    k = o["op"]
    if k == "edit":
        return {"op": "edit", "tree": fix(o["tree"])}
    if k == "statefile":
        return {"op": "statefile", "which": o["which"], "tag": o["tag"]}
    if k == "hapfail":
        return {"op": "hapfail", "nth": o["nth"]}
    if k == "start":
        return {"op": "start"}
    if k == "call":
        c = {"op": "call", "ep": o["ep"], "method": o["method"]}
        if not o["decodable"]:
            c["raw"] = "{nojson"
        elif o["ep"] in ("apply_flows", "configuration"):
            c["payload"] = fix(o["payload"])
        if o.get("body"):
            c["body"] = o["body"]
        if o.get("txns"):
            c["txns"] = ["t%d" % i for i in range(o["txns"])]
        return c
    if k == "begin":
        return {"op": "begin", "u": o["u"], "ep": o["ep"], "payload": fix(o["payload"]), "point": o["point"], "nth": o["nth"]}
    if k == "finish":
        return {"op": "finish", "u": o["u"]}
    raise Broken("unknown model operation %r" % (o,))


def history_from_model(w):
    ops = [op_from_model(o) for o in w["ops"]]
    # a walk that ends while an update is parked: let it finish
    if any(o["op"] == "begin" for o in ops) and not any(o["op"] == "finish" for o in ops):
        ops.append({"op": "finish", "u": "A"})
    return {"mode": w["mode"], "hub": bool(w["hub"]), "managed": "true" if w["managed"] else "", "ops": ops, "src": "model"}


def call(ep, method="POST", **kw):
    return dict(op="call", ep=ep, method=method, **kw)


FLOW_TAGS = {"flows/a.yaml": ["v1", "v2", "v3", "junk", "rep", "bad"], "flows/b.yaml": ["v1", "v2", "v3", "junk", "rep", "bad", "dup", "lim"],
             "flows/c.yaml": ["v1", "v2", "bad", "junk"], "quotas/q.yaml": ["q1", "q2", "qbad", "qjunk"], "gateway_config.yaml": ["g1", "g2", "gbad"]}
OK_TAGS = {"flows/a.yaml": ["v1", "v2", "v3"], "flows/b.yaml": ["v1", "v2", "v3"], "flows/c.yaml": ["v1", "v2"], "quotas/q.yaml": ["q1", "q2"],
           "gateway_config.yaml": ["g1", "g2"]}


def rand_tree(rng, valid=None):
    """a random tree of the tagged universe; valid=True: loadable by construction, None: anything"""
    t = {}
    src = OK_TAGS if valid else FLOW_TAGS
    for p, tags in src.items():
        if rng.random() < (0.55 if p.startswith("flows/") else 0.3):
            t[p] = rng.choice(tags)
    if valid and rng.random() < 0.2:
        t["flows/b.yaml"], t["quotas/q.yaml"] = "lim", "q1"
    return t


def flows_requests(rng, tree_fn):
    r = rng.random()
    if r < 0.22:
        return [call("validate_flows")]
    if r < 0.40:
        return [call("load_flows")]
    if r < 0.52:
        return [call("doctor", "GET")]
    if r < 0.60:
        return [{"op": "edit", "tree": tree_fn()}]
    if r < 0.70:
        pl = {k: v for k, v in tree_fn().items()}
        return [call(rng.choice(["apply_flows", "configuration"]), "PUT", payload=pl)]
    if r < 0.74:
        return [{"op": "statefile", "which": rng.choice(["discover", "remedy"]), "tag": rng.choice(["s1", "s2", "absent"])}]
    if r < 0.80:
        return [call(rng.choice(["discover", "remedy_stats", "handshake"]), "GET")]
    if r < 0.84:
        return [call("on_haproxy_error", "PUT", **rng.choice([{"txns": ["t1", "t2"]}, {"raw": "{nojson"}, {"txns": []}]))]
    if r < 0.90:       # routes: the other mode's endpoints, unknown paths, other verbs
        return [call(rng.choice(["apply_policies", "validate_policies", "revert_to_last_loaded", "revert_to_diagnosis_free", "nonsense", "load_flowsx"]),
                     rng.choice(["POST", "GET", "PUT"]))]
    if r < 0.96:
        ep = rng.choice(["load_flows", "validate_flows", "apply_flows", "configuration", "on_haproxy_error", "doctor", "discover", "handshake", "remedy_stats"])
        right = {"load_flows": "POST", "validate_flows": "POST", "apply_flows": "PUT", "configuration": "PUT", "on_haproxy_error": "PUT"}.get(ep, "GET")
        m = rng.choice([x for x in ["GET", "POST", "PUT", "DELETE", "PATCH"] if x != right])
        kw = {"payload": tree_fn()} if ep in ("apply_flows", "configuration") else ({"txns": ["t1"]} if ep == "on_haproxy_error" else {})
        return [call(ep, m, **kw)]
    return [{"op": "hapfail", "nth": rng.choice([1, 1, 2, 3])}]


def rand_flows_history(rng, n):
    tf = lambda: rand_tree(rng, valid=rng.random() < 0.6 or None)
    ops = [{"op": "edit", "tree": rand_tree(rng, valid=rng.random() < 0.7 or None)}, {"op": "start"}]
    while len(ops) < n:
        ops += flows_requests(rng, tf)
    # a gated update with requests in between
    if rng.random() < 0.35:
        pl = tf()
        ops.append({"op": "begin", "u": "A", "ep": rng.choice(["apply_flows", "configuration"]), "payload": pl,
                    "point": rng.choice(["fs.store", "fs.store", "hdm.initialized", "hdm.published"]), "nth": rng.choice([1, 1, 2])})
        for _ in range(rng.randint(1, 4)):
            ops.append(rng.choice([call("validate_flows"), call("doctor", "GET"), call("handshake", "GET"),
                                   call(rng.choice(["apply_flows", "configuration"]), "PUT", payload=tf()),
                                   call("nonsense", "GET"), call("validate_flows", "GET")]))
        ops.append({"op": "finish", "u": "A"})
        ops += [call("doctor", "GET"), call("validate_flows")]
    return {"mode": "flows", "hub": rng.random() < 0.7, "managed": rng.choice(["true", "", "false"]), "ops": ops, "src": "random"}


def order_histories(rng):
    """S3 / S6 directly: on the same tree validate* ; load and load ; validate*, and the start-up of a fresh engine on it"""
    out = []
    t0 = rand_tree(rng, valid=True)
    t = rand_tree(rng, valid=rng.random() < 0.4 or None)
    k = rng.randint(1, 3)
    out.append({"mode": "flows", "hub": True, "managed": "", "src": "order",
                "ops": [{"op": "edit", "tree": t0}, {"op": "start"}, {"op": "edit", "tree": t}] + [call("validate_flows")] * k +
                       [call("load_flows"), call("doctor", "GET")] + [call("validate_flows")]})
    out.append({"mode": "flows", "hub": True, "managed": "", "src": "order",
                "ops": [{"op": "edit", "tree": t0}, {"op": "start"}, {"op": "edit", "tree": t}, call("load_flows"), call("doctor", "GET")] +
                       [call("validate_flows")] * k})
    out.append({"mode": "flows", "hub": rng.random() < 0.5, "managed": "", "src": "order",
                "ops": [{"op": "edit", "tree": t}, {"op": "start"}, call("validate_flows"), call("doctor", "GET"), call("load_flows")]})
    return out


POL_OK = ["P1", "P2", "P3", "Q1", "Q2"]
POL_BAD = ["pjunk", "punk", "pdup", "pexp", "pacct", "pconf"]


def rand_pol(rng, ok=0.6):
    return rng.choice(POL_OK) if rng.random() < ok else rng.choice(POL_BAD)


def pol_edit(tag):
    return {"op": "edit", "tree": {"policies.yaml": tag} if tag != "none" else {}}


def rand_policies_history(rng, n):
    ops = [pol_edit(rand_pol(rng, 0.8) if rng.random() < 0.9 else "none"), {"op": "start"}]
    while len(ops) < n:
        r = rng.random()
        if r < 0.15:
            ops.append(pol_edit(rand_pol(rng) if rng.random() < 0.92 else "none"))
        elif r < 0.33:
            ops.append(call("validate_policies"))
        elif r < 0.50:
            ops.append(call("apply_policies"))
        elif r < 0.60:
            ops.append(call("apply_policies", body=rand_pol(rng)))
        elif r < 0.68:
            ops.append(call("revert_to_last_loaded"))
        elif r < 0.76:
            ops.append(call("revert_to_diagnosis_free"))
        elif r < 0.85:
            ops.append(call("doctor", "GET"))
        elif r < 0.89:
            ops.append(call(rng.choice(["handshake", "discover", "remedy_stats"]), "GET"))
        elif r < 0.91:
            ops.append({"op": "statefile", "which": rng.choice(["discover", "remedy"]), "tag": rng.choice(["s1", "s2", "absent"])})
        elif r < 0.95:
            ops.append(call(rng.choice(["load_flows", "validate_flows", "apply_flows", "configuration", "on_haproxy_error", "nonsense"]),
                            rng.choice(["POST", "PUT", "GET"])))
        elif r < 0.98:
            ep = rng.choice(["apply_policies", "validate_policies", "revert_to_last_loaded", "revert_to_diagnosis_free", "doctor", "handshake"])
            right = "GET" if ep in ("doctor", "handshake") else "POST"
            ops.append(call(ep, rng.choice([x for x in ["GET", "POST", "PUT", "DELETE"] if x != right])))
        else:
            ops.append({"op": "hapfail", "nth": rng.choice([1, 2, 3])})
    return {"mode": "policies", "hub": False, "managed": rng.choice(["true", "", "false"]), "ops": ops, "src": "random"}


def pol_order_histories(rng):
    t0, t = rng.choice(POL_OK), rand_pol(rng, 0.4)
    k = rng.randint(1, 3)
    return [{"mode": "policies", "hub": False, "managed": "", "src": "order",
             "ops": [pol_edit(t0), {"op": "start"}, pol_edit(t)] + [call("validate_policies")] * k + [call("apply_policies"), call("doctor", "GET"),
                                                                                                  call("validate_policies"), call("revert_to_last_loaded")]},
            {"mode": "policies", "hub": False, "managed": "", "src": "order",
             "ops": [pol_edit(t0), {"op": "start"}, pol_edit(t), call("apply_policies"), call("doctor", "GET")] + [call("validate_policies")] * k},
            {"mode": "policies", "hub": False, "managed": "", "src": "order",
             "ops": [pol_edit(t), {"op": "start"}, call("validate_policies"), call("doctor", "GET")]}]


def T(a=None, b=None, c=None, q=None, g=None):
    t = {}
    for k, v in (("flows/a.yaml", a), ("flows/b.yaml", b), ("flows/c.yaml", c), ("quotas/q.yaml", q), ("gateway_config.yaml", g)):
        if v:
            t[k] = v
    return t


def E(**kw):
    return {"op": "edit", "tree": T(**kw)}


def directed_histories():
    """hand-written tours: every route of both modes with both answers, every validity class of a tree through validate, load
    and start-up, the two update endpoints, requests while an update is parked, a refusal of the proxy"""
    fl = lambda ops, hub=True, managed="true": {"mode": "flows", "hub": hub, "managed": managed, "ops": ops, "src": "directed"}
    po = lambda ops, managed="": {"mode": "policies", "hub": False, "managed": managed, "ops": ops, "src": "directed"}
    A, B, Q, G = "flows/a.yaml", "flows/b.yaml", "quotas/q.yaml", "gateway_config.yaml"
    hs = []
    tour = [E(a="v1", b="v1"), {"op": "start"}, call("validate_flows"), call("doctor", "GET"), call("handshake", "GET"), call("discover", "GET"),
            {"op": "statefile", "which": "discover", "tag": "s1"}, call("discover", "GET"), call("remedy_stats", "GET"),
            {"op": "statefile", "which": "remedy", "tag": "s2"}, call("remedy_stats", "GET"),
            {"op": "statefile", "which": "discover", "tag": "s2"}, call("discover", "GET"), {"op": "statefile", "which": "remedy", "tag": "s1"},
            call("remedy_stats", "GET"), {"op": "statefile", "which": "discover", "tag": "absent"}, call("discover", "GET")]
    for t in (T(a="v2", b="bad"), T(a="v2", b="junk"), T(a="v2", b="rep"), T(a="v2", b="dup"), T(b="dup"), T(a="v3", b="lim"),
              T(a="v3", b="lim", q="q1"), T(a="v3", q="qbad"), T(a="v3", q="qjunk"), T(a="v3", g="gbad"), T(), T(q="q1")):
        tour += [{"op": "edit", "tree": t}, call("validate_flows"), call("load_flows"), call("doctor", "GET")]
    tour += [call("apply_policies"), call("validate_policies"), call("nonsense", "GET"), call("load_flows", "GET"), call("validate_flows", "PUT"),
             call("on_haproxy_error", "PUT", txns=["t1"]), call("on_haproxy_error", "GET", txns=["t1"]), call("on_haproxy_error", "PUT", raw="{nojson"),
             call("on_haproxy_error", "POST", raw="{nojson"), call("doctor", "POST"), call("handshake", "POST"), call("discover", "DELETE")]
    hs.append(fl(tour))
    for i, t in enumerate([T(a="v1", b="junk"), T(a="v1", b="rep"), T(a="v1", b="bad"), T(a="junk"), T(a="v1", q="qjunk"), T(a="v1", q="qbad"),
                           T(a="v1", g="gbad"), T(a="v1", b="dup"), T(a="v1", b="lim"), T(), T(a="rep", b="junk"), T(a="v1", b="lim", q="q1")]):
        hs.append(fl([{"op": "edit", "tree": t}, {"op": "start"}, call("validate_flows"), call("doctor", "GET"), call("handshake", "GET"),
                      call("load_flows")], hub=i % 2 == 0, managed=["", "true", "false"][i % 3]))
    hs.append(fl([E(a="v1", b="v1", q="q2", g="g1"), {"op": "start"},
                  call("configuration", "PUT", payload={A: "v2"}), call("configuration", "PUT", payload={B: "bad"}),
                  call("configuration", "PUT", payload={G: "gbad"}), call("configuration", "PUT", payload={"flows/c.yaml": "v1", G: "g2"}),
                  call("apply_flows", "PUT", payload={A: "v3"}), call("apply_flows", "PUT", payload={A: "v1", B: "junk"}),
                  call("apply_flows", "PUT", payload={Q: "q1"}), call("apply_flows", "PUT", payload={B: "lim", Q: "q1", G: "g1"}),
                  call("apply_flows", "PUT", payload={}), call("configuration", "PUT", payload={}), call("configuration", "PUT", raw="{nojson"),
                  call("apply_flows", "POST", payload={A: "v1"}), call("apply_flows", "PUT", payload={A: "v1"}),
                  call("configuration", "GET", payload={A: "v2"}), call("configuration", "PUT", payload={A: "v2"}), call("doctor", "GET"),
                  {"op": "hapfail", "nth": 1}, E(a="v2"), call("load_flows"), call("doctor", "GET"), call("load_flows"),
                  {"op": "hapfail", "nth": 1}, E(a="v3", b="v1"), call("validate_flows"), call("load_flows"), call("load_flows"),
                  {"op": "hapfail", "nth": 2}, call("configuration", "PUT", payload={A: "v1", B: "v2"}), call("doctor", "GET")]))
    hs.append(fl([E(a="v1", b="v1", q="q2", g="g1"), {"op": "start"},
                  {"op": "begin", "u": "A", "ep": "configuration", "payload": {A: "v2", B: "v2"}, "point": "fs.store", "nth": 2},
                  call("validate_flows"), call("configuration", "PUT", payload={A: "v3"}), call("apply_flows", "PUT", payload={A: "v3"}),
                  call("apply_flows", "GET"), call("doctor", "GET"), call("handshake", "GET"), call("nonsense", "GET"), {"op": "finish", "u": "A"},
                  {"op": "begin", "u": "A", "ep": "apply_flows", "payload": {A: "v1"}, "point": "hdm.initialized", "nth": 1},
                  call("validate_flows"), call("configuration", "PUT", payload={A: "v3"}), call("doctor", "GET"), {"op": "finish", "u": "A"},
                  {"op": "begin", "u": "A", "ep": "configuration", "payload": {A: "v2", B: "bad"}, "point": "hdm.published", "nth": 1},
                  call("validate_flows"), call("doctor", "GET"), {"op": "finish", "u": "A"},
                  {"op": "begin", "u": "A", "ep": "configuration", "payload": {A: "v2", B: "bad"}, "point": "fs.store", "nth": 2},
                  call("validate_flows"), call("on_haproxy_error", "PUT", txns=["t"]), {"op": "finish", "u": "A"}, call("doctor", "GET")]))
    hs.append(fl([E(a="v1", b="v1"), {"op": "start"}, E(a="v1"), call("configuration", "PUT", payload={A: "bad"}), call("doctor", "GET"),
                  E(a="v2", b="v2"), call("apply_flows", "PUT", payload={A: "bad"}), E(a="v3", b="junk"), call("apply_flows", "PUT", payload={A: "bad"}),
                  call("doctor", "GET")]))
    ptour = [pol_edit("P1"), {"op": "start"}, call("validate_policies"), call("doctor", "GET"), call("handshake", "GET"),
             {"op": "statefile", "which": "discover", "tag": "s2"}, call("discover", "GET"), call("remedy_stats", "GET"),
             {"op": "statefile", "which": "discover", "tag": "s1"}, call("discover", "GET"), {"op": "statefile", "which": "remedy", "tag": "s1"},
             call("remedy_stats", "GET"), {"op": "statefile", "which": "remedy", "tag": "absent"}, call("remedy_stats", "GET"),
             pol_edit("P2"), call("validate_policies"), call("apply_policies"), call("doctor", "GET"),
             call("revert_to_diagnosis_free"), call("doctor", "GET"), call("revert_to_last_loaded")]
    for t in POL_BAD:
        ptour += [pol_edit(t), call("validate_policies"), call("apply_policies"), call("doctor", "GET"), call("revert_to_last_loaded"),
                  call("revert_to_diagnosis_free")]
    ptour += [pol_edit("Q1"), call("apply_policies"), call("revert_to_diagnosis_free"), call("revert_to_last_loaded"),
              call("apply_policies", body="P3"), call("apply_policies", body="punk"), call("apply_policies", body="pconf"),
              call("apply_policies", body="pjunk"), call("doctor", "GET"), pol_edit("none"), call("validate_policies"), call("apply_policies"),
              call("load_flows"), call("validate_flows"), call("configuration", "PUT"), call("apply_policies", "GET"),
              call("validate_policies", "PUT"), call("revert_to_last_loaded", "GET"),
              {"op": "hapfail", "nth": 1}, call("apply_policies", body="P1"), {"op": "hapfail", "nth": 2}, call("apply_policies", body="P2"),
              {"op": "hapfail", "nth": 1}, call("revert_to_last_loaded"), call("doctor", "GET")]
    hs.append(po(ptour, managed="true"))
    for t in POL_BAD + ["none", "Q2"]:
        hs.append(po([pol_edit(t), {"op": "start"}, call("validate_policies"), call("handshake", "GET"), call("doctor", "GET")]))
    return hs


# trees whose validity the specification does not know: configurations of the C04 / C05 generators (valid and invalid in
# every class of the loader's rules) and the quota files of C05, next to a loadable marker flow
def opaque_bundles(rng, n, big):
    import _flowgraph as fg
    bundles = []
    hand = list(fg.handcrafted().values())
    rng.shuffle(hand)
    qf = sorted(fg.QUOTA_FILES)
    for i in range(n):
        r = rng.random()
        files = {}
        if r < 0.55:
            files = fg.render(fg.vary_impl(fg.random_config(rng, big), rng))
        elif r < 0.75 and hand:
            files = fg.render(fg.vary_impl(json.loads(json.dumps(hand[i % len(hand)])), rng))
        else:
            k = rng.choice(qf)
            a, b = fg.QUOTA_FILES[k]
            files = {"quotas/xa.yaml": a}
            if b is not None:
                files["quotas/xb.yaml"] = b
            if rng.random() < 0.5:
                files.update(fg.render({"flows": [fg.flow("A", [("p", "Plain")], [fg.conn(fg.S("start"), fg.P("p")), fg.conn(fg.P("p"), fg.S("end"))],
                                                          [fg.conn(fg.S("start"), fg.S("end"))])], "quotas": []}))
        files = {("flows/X%s" % p[len("flows/"):] if p.startswith("flows/") else p): c for p, c in files.items()}
        bundles.append(files)
    return bundles


def opaque_histories(rng, bundles, contents):
    """every bundle through every way a tree reaches the loader: validate, load, start-up, apply_flows, configuration -
    in both orders, always next to marker flows the probes can see"""
    hs = []
    import hashlib
    for i, files in enumerate(bundles):
        tree = {}
        for p, c in files.items():
            if c is None:
                continue
            tag = "x" + hashlib.sha1(c.encode()).hexdigest()[:8]      # the same text under the same path is the same tag
            contents.setdefault(p, {})[tag] = c
            tree[p] = tag
        m1 = {"flows/a.yaml": rng.choice(["v1", "v2"])}
        m2 = {"flows/a.yaml": "v3", "flows/b.yaml": rng.choice(["v1", "v2"])}
        full = dict(tree, **m2)
        first = rng.random() < 0.5
        seq = [call("validate_flows"), call("load_flows")] if first else [call("load_flows"), call("validate_flows")]
        hs.append({"mode": "flows", "hub": True, "managed": "", "src": "opaque",
                   "ops": [{"op": "edit", "tree": m1}, {"op": "start"}, {"op": "edit", "tree": full}] + seq +
                          [call("doctor", "GET"), call("validate_flows"), {"op": "edit", "tree": m1}, call("load_flows"),
                           call(rng.choice(["apply_flows", "configuration"]), "PUT", payload=full), call("doctor", "GET"), call("validate_flows")]})
        hs.append({"mode": "flows", "hub": True, "managed": "", "src": "opaque",
                   "ops": [{"op": "edit", "tree": full}, {"op": "start"}, call("validate_flows"), call("doctor", "GET"), call("load_flows")]})
    return hs


# ------------------------------------------------------------------------------------------------ execution
def script_for(mode, hists, contents):
    return {"config": {"mode": mode}, "contents": contents, "probes": FLOW_PROBES if mode == "flows" else POLICY_PROBES, "histories": hists}


_sink = []


def start_sink():
    """the engine dials its export server (127.0.0.1:5140) at start-up and retries for 2 s when nobody listens"""
    if _sink:
        return
    try:
        s = socket.socket()
        s.setsockopt(socket.SOL_SOCKET, socket.SO_REUSEADDR, 1)
        s.bind(("127.0.0.1", 5140))
        s.listen(64)
    except OSError:
        return          # somebody else listens (another run of this check): good enough

    def loop():
        while True:
            try:
                c, _ = s.accept()
            except OSError:
                return
            threading.Thread(target=lambda c=c: (c.settimeout(30), [None for _ in iter(lambda: _recv(c), b"")], c.close()), daemon=True).start()

    def _recv(c):
        try:
            return c.recv(65536)
        except OSError:
            return b""
    threading.Thread(target=loop, daemon=True).start()
    _sink.append(s)


def run_batches(ctx, binary, batches, tag):
    """batches: [(mode, [history..], contents)] -> list of event lists (config line first)"""
    def one(it):
        i, (mode, hists, contents) = it
        d = ctx.sub("run-%s-%d" % (tag, i))
        for k, h in enumerate(hists):
            h["id"] = k + 1
        json.dump(script_for(mode, [{k: v for k, v in h.items() if k != "src"} for h in hists], contents), open(os.path.join(d, "script.json"), "w"))
        ctx.run_harness(binary, ["run", os.path.join(d, "script.json"), d], cwd=ctx.sub("cwd-%s-%d" % (tag, i)), timeout=900)
        ev = read_ndjson(os.path.join(d, "trace.ndjson"))
        for e in ev:
            e.pop("body", None)          # the text of the answer is not part of any judgement
        os.remove(os.path.join(d, "script.json"))
        return ev
    return parallel(one, list(enumerate(batches)), n=min(6, len(batches)) or 1)


DEV_RE = re.compile(r'<<\s*"DEV",\s*(\d+),\s*\{([^}]*)\}\s*>>')


def validate(ctx, events, cfg, tag, max_rounds=5, module="AdminTrace", deque=False):
    """TLC validates one trace (config + histories) against AdminP; returns (accepted histories, rejected, DEV lines).
    A rejected history is taken out and the rest validated again (vlib.validate_history_trace, plus the DEV lines)."""
    import shutil
    config, hs = split_histories(events)
    rejected, devs = [], []
    sd = ctx.spec_dir(SPEC)
    wd = os.path.join(ctx.scratch, "tv-%s" % tag)
    if not os.path.isdir(wd):
        shutil.copytree(sd, wd)
    rounds = 0
    while True:
        rounds += 1
        flat = [config] + [e for h in hs for e in h]
        p = os.path.join(wd, "trace.ndjson")
        write_ndjson(p, flat)
        ok, hwm, r = ctx.tlc_trace(wd, module, p, cfg=cfg, timeout=900, deque=deque)
        if ok and not r.violated:
            for m in DEV_RE.finditer(r.out):
                for name in re.findall(r'"([^"]+)"', m.group(2)):
                    devs.append((int(m.group(1)), name, flat[int(m.group(1)) - 1]))
            return len(hs), rejected, devs
        if hwm < 1:
            raise Broken("trace validation made no progress (%s): %s\n%s" % (tag, r, r.out[-2500:]))
        if r.error and not r.violated and "TRACE-HWM" not in r.out:
            raise Broken("trace validation failed to evaluate line %d (%s): %s\n%s" % (hwm + 1, tag, json.dumps(flat[min(hwm, len(flat) - 1)])[:600], r.out[-2500:]))
        # AdminTrace: the state after consuming line hwm violates an invariant; AdminITrace: line hwm + 1 is the first the model cannot explain
        idx = (hwm - 2) if r.violated else (hwm - 1)
        k = 0
        for hi, h in enumerate(hs):
            if idx < k + len(h):
                rejected.append({"hist": h, "at": idx - k, "invariant": r.violated})
                del hs[hi]
                break
            k += len(h)
        else:
            raise Broken("cannot locate rejected line %d of %d" % (hwm, len(flat)))
        if rounds >= max_rounds or not hs:
            return len(hs), rejected, devs


def witness_of(rej, hist):
    e = rej["hist"][min(rej["at"], len(rej["hist"]) - 1)]
    return {"class": rej.get("invariant") or "rejected", "mode": hist["mode"], "event": e.get("ev"), "endpoint": e.get("ep", ""),
            "method": e.get("method", ""), "code": e.get("code", e.get("ok", "")), "source": hist.get("src", ""),
            "position": rej["at"], "history_len": len(hist["ops"])}


def clean(h):
    return {k: v for k, v in h.items() if k != "id"}


# ------------------------------------------------------------------------------------------------ run
FLAGS = {"flows_load": ["ValidateLenient", "LoadSkipsValidation", "ValidatePublishes", "GetReloads", "DoctorFromDisk", "PolicyRoutesInFlows"],
         "flows_update": ["NoLock", "RestoreSkipped"],
         "policies": ["RevertFromPoliciesFile", "BodyFileFirst", "DoctorFromDiskPol"]}
REPORTED = set()
UNREPRODUCED = []


def model_histories(out, want, rng):
    """walks of the model: the same prefix with a different last operation is printed many times - a few of each prefix"""
    by_prefix = {}
    for w in tlc_vh_lines(out):
        key = json.dumps(w["ops"][:-1], sort_keys=True)
        by_prefix.setdefault(key, []).append(w)
    hs = []
    for key in sorted(by_prefix):
        ws = by_prefix[key]
        rng.shuffle(ws)
        hs += ws[:2]
    rng.shuffle(hs)
    return [history_from_model(w) for w in hs[:want]]


def judge(ctx, binary, traces, batches, tag, stats):
    def one(it):
        i, ev = it
        return validate(ctx, ev, "AdminTrace_both.cfg", "%s%d" % (tag, i))
    res = parallel(one, list(enumerate(traces)), n=4)
    for bi, ((acc, rejected, devs), ev) in enumerate(zip(res, traces)):
        mode, hists, contents = batches[bi]
        cfg, hs = split_histories(ev)
        ctx.cov["traces_validated_against_impl"] += acc
        stats["events"] += len(ev) - 1
        for h in hs:
            n = sum(1 for e in h if e["ev"] in ("call", "start", "begin", "finish"))
            ctx.cov["evaluations"] += n
            src = hists[h[0]["hist"] - 1].get("src", "")
            stats["by_source"][src] = stats["by_source"].get(src, 0) + 1
            key = json.dumps([{k: v for k, v in o.items()} for o in hists[h[0]["hist"] - 1]["ops"]], sort_keys=True)
            if key not in stats["seen"]:
                stats["seen"].add(key)
                # non-trivial: the history loaded a configuration after start-up or was refused one
                if any(e["ev"] == "call" and e.get("ep") in ("load_flows", "apply_flows", "configuration", "apply_policies",
                                                           "revert_to_last_loaded", "revert_to_diagnosis_free") and e["code"] not in (404, 405, 0) for e in h):
                    ctx.cov["distinct_nontrivial"] += 1
            for e in h:
                if e["ev"] == "call":
                    k = "%s %s %s" % (e["method"], e["ep"], e["code"])
                    stats["answers"][k] = stats["answers"].get(k, 0) + 1
        for line, name, e in devs:
            stats["devs"][name] = stats["devs"].get(name, 0) + 1
            if name not in stats["dev_examples"]:
                stats["dev_examples"][name] = {"mode": mode, "event": {k: v for k, v in e.items() if k != "obs"},
                                               "observed": {k: e.get("obs", {}).get(k) for k in ("disk", "served")}}
        for rej in rejected:
            hist = hists[rej["hist"][0]["hist"] - 1]
            w = witness_of(rej, hist)
            if w["class"] == "Harness":       # the recording does not have the shape the specification expects: a fault of the machinery
                raise Broken("recorded history is not a history of the interface (executor / driver fault): %s\n%s" % (
                    json.dumps(w), json.dumps([{k: v for k, v in e.items() if k != "obs"} for e in rej["hist"][: rej["at"] + 1]])[-1500:]))
            sig = json.dumps(w, sort_keys=True)
            if sig in REPORTED or len(ctx.violations) >= 6:
                continue
            REPORTED.add(sig)
            found = None
            for attempt in range(3):
                t2 = run_batches(ctx, binary, [(mode, [dict(clean(hist))], contents)], "%s-repro" % tag)[0]
                a2, r2, _ = validate(ctx, t2, "AdminTrace_both.cfg", "%s-repro" % tag, max_rounds=1)
                if r2:
                    found = (witness_of(r2[0], hist), t2)
                    break
            if found is None:
                UNREPRODUCED.append(w)
                ctx.log("rejection not reproduced: %s" % json.dumps(w))
                continue
            used = {p: {t: contents[p][t] for t in contents[p]} for p in contents
                    if any(p in json.dumps(o) for o in hist["ops"]) or p in ("discover", "remedy", "policies.yaml")}
            ctx.violation(found[0], {"mode": mode, "history": clean(hist), "contents": used, "trace": found[1], "clause": found[0]["class"]})


def drift_check(ctx, traces, batches, stats):
    """binds AdminI to the code: every recorded history (of the tagged universe) must be a behaviour of the model.
    A history the model cannot follow is model drift (DESIGN 2.5), never a violation."""
    def one(it):
        i, ev = it
        mode, hists, contents = batches[i]
        if any(h.get("src") == "opaque" for h in hists):
            return 0, []
        acc, rej, _ = validate(ctx, ev, "AdminITrace_%s.cfg" % mode, "I%d" % i, max_rounds=4, module="AdminITrace", deque=True)
        return acc, [(hists[r["hist"][0]["hist"] - 1], r) for r in rej]
    for acc, rej in parallel(one, list(enumerate(traces)), n=4):
        stats["accepted"] += acc
        for h, r in rej:
            stats["rejected"] += 1
            if len(stats["examples"]) < 3:
                at = min(r["at"], len(r["hist"]) - 1)
                stats["examples"].append({"source": h.get("src"), "mode": h["mode"], "index": r["at"],
                                          "unexplained_event": {k: v for k, v in r["hist"][at].items()},
                                          "before": [{k: v for k, v in e.items() if k not in ("obs", "arg", "ans")} for e in r["hist"][max(0, at - 4): at]]})


def clause_of(r):
    m = re.findall(r'/\\ viol = "([^"]*)"', r.out)
    return m[-1] if m else ""


def run(ctx):
    T = ctx.thorough
    os.environ.setdefault("JAVA_TOOL_OPTIONS", "-Xmx2g")
    start_sink()
    binary = ctx.build_harness("x08")
    sd = ctx.spec_dir(SPEC)
    rng = ctx.rng
    ctx.cov["rule"] = ("history = operator actions on one engine process (edit of the tree, start-up, any request of the administrative "
                       "interface, one update parked at a yield point, one refusal of the proxy's admin API); histories = walks of the "
                       "TLA+ model MC_X08 (TLC -simulate) + seeded random histories over a wider universe + order histories "
                       "(validate* ; load / load ; validate* / start-up on the same tree) + trees of the C04/C05 generators; every event is "
                       "judged by AdminP; non-trivial = the history loaded, or was refused, a configuration after start-up; distinct by operations")
    ctx.cov["checker_cmd"] = ("tlc -config MC_flows_load_*.cfg|MC_flows_update_*.cfg|MC_policies_*.cfg MC_X08.tla ; tlc -config MC_nv_<flag>.cfg MC_X08.tla ; "
                              "tlc -simulate -config GenX08_*.cfg MC_X08.tla ; tlc -config AdminTrace_both.cfg AdminTrace.tla")
    ctx.cov["trusted_base"] = ["TLC 1.8", "CommunityModules Json", "Go toolchain", "loopback fake of the HAProxy admin / health API (harness/cmd/x08)",
                               "loopback sink standing for Fluent Bit's syslog input (127.0.0.1:5140)",
                               "probe projection: flows mode = version header written by the flow of the probed URL; policy mode = early-response "
                               "status of the endpoint's fixed_response remedy + whether the diagnosis worker was handed the transaction",
                               "projection of the files the engine writes itself (loaded-policies*.yaml, doctor's active policies) onto "
                               "(remedy names, number of diagnosis plugins); SHA-256 / tag table of the tree computed by the harness",
                               "a Lunar Hub that is configured but unreachable (so that the engine keeps the loaded configuration for the doctor)"]
    ctx.assumptions += ["one engine process per history: real NewHandlingDataManager + Setup + SetHandleRoutes + routing.Handler",
                        "requests are issued one after the other; the only overlap is one /apply_flows or /configuration parked at a yield point "
                        "(fs.store, hdm.initialized, hdm.published) while other requests are answered; /load_flows next to a running update is outside the statement",
                        "an infrastructure failure = one admin call of the proxy refused with 500; the statement then accepts the old or the new configuration",
                        "the delayed un-registration of endpoints (30 s) never happens within a history",
                        "metrics configuration files are outside the observed tree"]

    # (1) exhaustive I => P, non-vacuity, generation - at most four JVMs at a time
    sfx = "thorough" if T else "quick"
    jobs = [("mc", "MC_flows_load_%s.cfg" % sfx), ("mc", "MC_flows_update_%s.cfg" % sfx), ("mc", "MC_policies_%s.cfg" % sfx)]
    jobs += [("nv", f) for fam in FLAGS.values() for f in fam]
    nw = (60, 60, 60) if not T else (700, 400, 500)
    jobs += [("gen", ("GenX08_flows.cfg", nw[0])), ("gen", ("GenX08_flows_nohub.cfg", nw[1])), ("gen", ("GenX08_policies.cfg", nw[2]))]
    if T:
        jobs += [("doc", "MC_policies_doc.cfg"), ("doc", "MC_flows_load_doc.cfg"), ("eng", "MC_policies_engine.cfg"), ("eng", "MC_flows_load_engine.cfg")]

    def stage(job):
        kind, arg = job
        if kind == "mc":
            return ctx.tlc_exhaustive(sd, "MC_X08", arg, timeout=1500, heap="4g" if T else "2g", workers=4 if T else 3,
                                      label="AdminI => AdminP, every order of operations")
        if kind == "nv":
            return ctx.tlc(sd, "MC_X08", "MC_nv_%s.cfg" % arg, workers=1, timeout=600, heap="1g", label="non-vacuity: %s must be refuted" % arg)
        if kind == "doc":
            return ctx.tlc(sd, "MC_X08", arg, workers=2, timeout=600, heap="1g", label="the engine's model under the documented reading only: must be refuted")
        if kind == "eng":
            return ctx.tlc_exhaustive(sd, "MC_X08", arg, timeout=900, heap="2g", workers=2, label="the engine's model under the engine's reading only")
        cfgname, num = arg
        return ctx.tlc(sd, "MC_X08", cfgname, workers=1, timeout=600, heap="1g", simulate="num=%d" % num, depth=400,
                       extra=["-seed", str(ctx.seed)], label="operation sequences (walks)")
    res = parallel(stage, jobs, n=4)
    refuted = {}
    walks = {}
    for (kind, arg), r in zip(jobs, res):
        if kind == "nv":
            if r.violated is None:
                raise Broken("the model cannot tell deviation %s from the statement (vacuous refinement check): %r" % (arg, r))
            refuted[arg] = clause_of(r)
        if kind == "doc":
            if r.violated is None:
                raise Broken("%s: the documented reading alone accepts the engine's model - the named deviations are vacuous: %r" % (arg, r))
            refuted["documented reading only, " + arg] = clause_of(r)
        if kind == "gen":
            if not r.ok:
                raise Broken("generation %s failed: %r\n%s" % (arg[0], r, r.out[-1500:]))
            walks[arg[0]] = r.out
    ctx.notes.append("deviations of AdminI refuted by TLC (violated clause): %s" % json.dumps(refuted, sort_keys=True))

    # (2) spec -> code: the walks of the model; (3) code -> spec: seeded random histories over a wider universe
    n_model = (36, 30, 40) if not T else (600, 300, 450)
    hf = model_histories(walks["GenX08_flows.cfg"], n_model[0], rng) + model_histories(walks["GenX08_flows_nohub.cfg"], n_model[1], rng)
    hp = model_histories(walks["GenX08_policies.cfg"], n_model[2], rng)
    if len(hf) < (40 if not T else 500) or len(hp) < (25 if not T else 300):
        raise Broken("generation produced only %d flows-mode and %d policy-mode histories" % (len(hf), len(hp)))
    ctx.log("TLC generated %d flows-mode and %d policy-mode operation sequences" % (len(hf), len(hp)))
    nr = (40, 40, 8, 8, 10) if not T else (700, 600, 80, 80, 120)
    hf += [rand_flows_history(rng, rng.randint(8, 18)) for _ in range(nr[0])]
    hp += [rand_policies_history(rng, rng.randint(8, 20)) for _ in range(nr[1])]
    for _ in range(nr[2]):
        hf += order_histories(rng)
    for _ in range(nr[3]):
        hp += pol_order_histories(rng)
    dh = directed_histories()
    hf += [h for h in dh if h["mode"] == "flows"]
    hp += [h for h in dh if h["mode"] == "policies"]
    fcont, pcont = flows_contents(), policies_contents()
    ocont = flows_contents()
    ho = opaque_histories(rng, opaque_bundles(rng, nr[4], T), ocont)
    ctx.sample({"kind": "generated-history", "mode": hf[0]["mode"], "ops": hf[0]["ops"]})
    nproc = 3 if not T else 5
    batches = [("flows", hf[i::nproc], fcont) for i in range(nproc)] + [("policies", hp[i::nproc], pcont) for i in range(nproc)]
    batches += [("flows", ho[i::2], ocont) for i in range(2 if len(ho) > 8 else 1)]
    batches = [b for b in batches if b[1]]
    traces = run_batches(ctx, binary, batches, "h")
    ctx.log("recorded %d histories (%d events) in %d batches" % (sum(len(b[1]) for b in batches), sum(len(t) - 1 for t in traces), len(batches)))
    ctx.sample({"kind": "recorded-history", "events": [{k: v for k, v in e.items() if k != "arg"} for e in traces[0][1:8]]})
    stats = {"events": 0, "by_source": {}, "seen": set(), "answers": {}, "devs": {}, "dev_examples": {}}
    judge(ctx, binary, traces, batches, "p", stats)
    dstats = {"accepted": 0, "rejected": 0, "examples": []}
    drift_check(ctx, traces, batches, dstats)
    ctx.notes.append("implementation-shaped model vs code: %d recorded histories are behaviours of AdminI, %d not explained" %
                     (dstats["accepted"], dstats["rejected"]))
    if dstats["rejected"]:
        ctx.cov["model_drift"] = True
        ctx.notes.append("MODEL-DRIFT examples: %s" % json.dumps(dstats["examples"])[:3000])
        ctx.log("MODEL-DRIFT: %d histories not explained by AdminI, e.g. %s" % (dstats["rejected"], json.dumps(dstats["examples"][:1])[:1500]))
        if not ctx.violations:
            ctx.cov["states"] = 0          # the exhaustive result no longer speaks about this code
            ctx.cov["transitions"] = 0
    ctx.cov["histories_by_source"] = stats["by_source"]
    ctx.cov["events_validated"] = stats["events"]
    ctx.cov["answers_seen"] = dict(sorted(stats["answers"].items()))
    ctx.cov["engine_readings_seen"] = stats["devs"]
    ctx.notes.append("acceptances that needed the engine's reading of the statement (doc/code disagreements observed on the real code): %s" %
                     json.dumps(stats["devs"], sort_keys=True))
    for name, ex in sorted(stats["dev_examples"].items()):
        ctx.notes.append("example %s: %s" % (name, json.dumps(ex, sort_keys=True)[:900]))
    # vacuity of the recorded part: every route of both modes answered, both verdicts of every validating / loading endpoint seen
    seen_kind = set()
    for k in stats["answers"]:
        m, ep, code = k.split(" ")
        code = int(code)
        seen_kind.add("%s %s %s" % (m, ep, "accepted" if 200 <= code <= 299 else "refused" if code >= 400 and code not in (404, 405) else str(code)))
    need = ["POST validate_flows accepted", "POST validate_flows refused", "POST load_flows accepted", "POST load_flows refused",
            "PUT configuration accepted", "PUT configuration refused", "PUT apply_flows accepted", "PUT apply_flows refused",
            "POST validate_policies accepted", "POST validate_policies refused", "POST apply_policies accepted", "POST apply_policies refused",
            "POST revert_to_last_loaded accepted", "POST revert_to_diagnosis_free accepted", "GET doctor accepted", "GET handshake accepted",
            "GET discover accepted", "GET discover refused", "GET remedy_stats accepted", "PUT on_haproxy_error accepted"]
    missing = [k for k in need if k not in seen_kind]
    if not ctx.violations:        # (a run that found violations is not vacuous, whatever else it did not see)
        if missing or not any(k.endswith(" 404") for k in stats["answers"]) or not any(k.endswith(" 405") for k in stats["answers"]):
            raise Broken("vacuous run: answers never observed: %s" % (missing or "404 / 405"))
        if not any(k.endswith(" 226") for k in stats["answers"]):
            raise Broken("vacuous run: no request was refused with 226 while an update was parked")
    if UNREPRODUCED:
        ctx.notes.append("rejections not reproduced by re-execution: %s" % json.dumps(UNREPRODUCED)[:1500])
        if not ctx.violations:
            raise Broken("rejection not reproduced: %s" % json.dumps(UNREPRODUCED[0]))
    if T:
        self_test(ctx, traces, batches)


def self_test(ctx, traces, batches):
    """binding: corrupted / truncated recordings must be rejected; the documented reading alone must reject the recorded
    disagreements and the engine's reading alone must accept them"""
    results = {}
    fl = next(i for i, b in enumerate(batches) if b[0] == "flows")
    po = next(i for i, b in enumerate(batches) if b[0] == "policies")
    cfg, hs = split_histories(traces[fl])

    def pick(pred):
        for h in hs:
            for k, e in enumerate(h):
                if pred(e):
                    return h, k
        raise Broken("self-test: no suitable recorded event")
    # (a) a rejected validation reported as accepted
    h, k = pick(lambda e: e["ev"] == "call" and e.get("ep") == "validate_flows" and e["code"] == 422)
    bad = [dict(e) for e in h]
    bad[k]["code"], bad[k]["codes"] = 200, [200]
    _, rej, _ = validate(ctx, [cfg] + bad, "AdminTrace_both.cfg", "self-a", max_rounds=1)
    results["validation verdict flipped"] = bool(rej) and rej[0]["invariant"] == "ValidateVerdict"
    # (b) a refused load after which another configuration serves
    h, k = pick(lambda e: e["ev"] == "call" and e.get("ep") == "load_flows" and e["code"] == 400 and not e["obs"]["hapfault"])
    bad = [json.loads(json.dumps(e)) for e in h]
    bad[k]["obs"]["served"]["a"] = "v9"
    _, rej, _ = validate(ctx, [cfg] + bad, "AdminTrace_both.cfg", "self-b", max_rounds=1)
    results["refused load changed what serves"] = bool(rej) and rej[0]["invariant"] == "LoadOutcome"
    # (c) the start-up event dropped
    h, k = pick(lambda e: e["ev"] == "start" and e["ok"])
    _, rej, _ = validate(ctx, [cfg] + [e for i, e in enumerate(h) if i != k], "AdminTrace_both.cfg", "self-c", max_rounds=1)
    results["dropped start-up event"] = bool(rej)
    # (d) a validation that wrote to the proxy
    h, k = pick(lambda e: e["ev"] == "call" and e.get("ep") == "validate_flows" and e["method"] == "POST" and e["code"] in (200, 422))
    bad = [json.loads(json.dumps(e)) for e in h]
    bad[k]["obs"]["put"] = 3
    _, rej, _ = validate(ctx, [cfg] + bad, "AdminTrace_both.cfg", "self-d", max_rounds=1)
    results["validation that registered endpoints"] = bool(rej) and rej[0]["invariant"] == "ValidatePure"
    # (e) policy mode: the doctor reporting other policies than the ones serving
    pcfg, phs = split_histories(traces[po])
    h, k = next((h, k) for h in phs for k, e in enumerate(h) if e["ev"] == "call" and e.get("ep") == "doctor" and e["code"] == 200)
    bad = [json.loads(json.dumps(e)) for e in h]
    bad[k]["ans"]["pol"] = {"names": ["P9"], "nd": 0}
    _, rej, _ = validate(ctx, [pcfg] + bad, "AdminTrace_both.cfg", "self-e", max_rounds=1)
    results["doctor reporting other policies"] = bool(rej) and rej[0]["invariant"] == "Introspect"
    # (f) the two readings: the recorded traces under the documented reading only / the engine's reading only
    acc_d, rej_d, _ = validate(ctx, traces[po], "AdminTrace_doc.cfg", "self-doc", max_rounds=3)
    acc_e, rej_e, _ = validate(ctx, traces[po], "AdminTrace_engine.cfg", "self-eng", max_rounds=2)
    results["documented reading alone rejects recorded policy-mode histories"] = bool(rej_d)
    results["engine's reading alone accepts them"] = not rej_e
    # (g) the binding of AdminI: a model of other code (no validation before a load) must fail to explain the recordings,
    #     and so must the right model on a recording with one answer changed
    _, rej_w, _ = validate(ctx, traces[fl], "AdminITrace_flows_wrong.cfg", "self-iw", max_rounds=1, module="AdminITrace", deque=True)
    results["model of other code does not explain the recordings"] = bool(rej_w)
    h, k = pick(lambda e: e["ev"] == "call" and e.get("ep") == "load_flows" and e["code"] == 200)
    bad = [json.loads(json.dumps(e)) for e in h]
    bad[k]["code"], bad[k]["codes"] = 400, [400]
    _, rej_i, _ = validate(ctx, [cfg] + bad, "AdminITrace_flows.cfg", "self-ic", max_rounds=1, module="AdminITrace", deque=True)
    results["AdminI does not explain a changed answer"] = bool(rej_i)
    ctx.notes.append("self-test: " + json.dumps(results))
    if not all(results.values()):
        raise Broken("binding self-test failed: %s" % json.dumps(results))


def replay(ctx, path):
    obj = json.load(open(path))
    start_sink()
    binary = ctx.build_harness("x08")
    rp = obj["replay"]
    cont = flows_contents() if rp["mode"] == "flows" else policies_contents()
    for p, m in rp.get("contents", {}).items():
        cont.setdefault(p, {}).update(m)
    rej = []
    for attempt in range(3):
        t = run_batches(ctx, binary, [(rp["mode"], [dict(rp["history"])], cont)], "replay")[0]
        acc, rej, _ = validate(ctx, t, "AdminTrace_both.cfg", "replay", max_rounds=1)
        if rej:
            break
    for e in t:
        print(json.dumps(e)[:1200])
    if rej:
        print("VIOLATION property=X08 replay=%s" % path)
        print("   clause %s violated at event %d: %s" % (rej[0].get("invariant"), rej[0]["at"],
                                                        json.dumps({k: v for k, v in rej[0]["hist"][min(rej[0]["at"], len(rej[0]["hist"]) - 1)].items() if k != "obs"})[:500]))
        return 1
    print("replay accepted by the specification")
    return 0
