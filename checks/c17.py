"""C17 - retries are bounded by the configured number of attempts.

spec:     specs/c17_retry  RetryP (property: set of admissible remaining budgets per sequence), RetryI (implementation-shaped:
          RetryPlugin.OnResponse + MemoryCache TTL / sleepers; Retry processor counter), RetryTrace, RetryITrace, GenC17
binding:  harness/cmd/c17 drives the real remedies.RetryPlugin.OnResponse on a lock-step clock (policy mode) and the real Retry
          processor inside an engine built from a directory, Filter(status) -> Retry -> retry/failed (flows mode)
"""
import json, os, re, socket
from vlib import Broken, read_ndjson, validate_history_trace, parallel, tlc_vh_lines, split_histories

SPEC = "c17_retry"
BUGS = ["offbyone", "noclear", "lt0", "sharedkey", "nocond", "zero"]
ST_POOL = [200, 204, 301, 404, 428, 429, 430, 499, 500, 503, 599]
RANGE_POOL = [[[500, 599]], [[429, 429], [500, 599]], [[429, 429]], [[404, 404], [500, 503]], [[400, 599]]]


def in_cond(ranges, st):
    return any(a <= st <= b for a, b in ranges)


def rand_history(rng, mode, thorough):
    if mode == "policy":
        A = rng.choice([0, 1, 1, 2, 2, 3, 3, 4] + ([5, -1] if thorough else []))
        ranges = rng.choice(RANGE_POOL)
    else:
        A = rng.choice([1, 1, 2, 2, 3, 3, 4] + ([5] if thorough else []))
        ranges = rng.choice([r for r in RANGE_POOL if len(r) == 1])
    cd, mult = rng.choice([0, 0, 1, 2, 5]), rng.choice([0, 1, 1, 2, 3])
    seqs = ["s%d" % i for i in range(1, rng.choice([1, 2, 2, 3, 4]) + 1)]
    h = [{"ev": "reset", "mode": mode, "A": A, "cd": cd, "mult": mult, "ranges": ranges, "seqs": seqs}]
    hot = [st for st in ST_POOL if in_cond(ranges, st)]
    cold = [st for st in ST_POOL if not in_cond(ranges, st)]
    started = set()
    p_adv = rng.choice([0.0, 0.0, 0.08, 0.2])
    for _ in range(rng.randint(8, 28 if not thorough else 40)):
        if rng.random() < p_adv:
            h.append({"ev": "adv", "d": rng.choice([1, 1, 5, 30, 31, 32, 33, 36, 41, 100])})
            continue
        s = rng.choice(seqs)
        st = rng.choice(hot) if rng.random() < 0.8 else rng.choice(cold)
        # mostly protocol-shaped (a call starts with the transaction whose id is the sequence id), sometimes arbitrary
        new = (s not in started) if rng.random() < 0.75 else (rng.random() < 0.5)
        started.add(s)
        if rng.random() < 0.07:
            started.discard(s)          # the client starts a new call under the same id
        h.append({"ev": "resp", "s": s, "st": st, "new": new})
    return h


def rand_multi_history(rng, thorough):
    """flows mode, an engine with several user flows that each hold a Retry processor behind a status filter: a wildcard flow and
    exact-URL flows, so that one call is selected by one, two or three of them; processor keys equal or different; attempts equal
    or different; sequences interleaved; every Retry processor is judged on its own (key "<flow>/<sequence>")."""
    same_key = rng.random() < 0.6
    same_att = rng.random() < 0.5
    a0 = rng.choice([1, 2, 2, 3])
    urls = [("f1", "api.test/*"), ("f2", "api.test/orders")] + ([("f3", rng.choice(["api.test/orders", "api.test/other"]))] if rng.random() < 0.4 else [])
    flows = [{"name": n, "url": u, "key": "RetryProc" if same_key else "Retry_" + n, "A": a0 if same_att else rng.choice([1, 2, 3])}
             for n, u in urls]
    seqs = ["s%d" % i for i in range(1, rng.choice([1, 2, 3]) + 1)]
    h = [{"ev": "reset", "mode": "flows", "A": 0, "cd": 0, "mult": 0, "ranges": [[500, 599]], "seqs": seqs, "flows": flows}]
    path = {s: rng.choice(["orders", "orders", "other", "misc"]) for s in seqs}     # a call and its retries go to one URL
    for _ in range(rng.randint(8, 24 if not thorough else 36)):
        if rng.random() < 0.05:
            h.append({"ev": "adv", "d": rng.choice([1, 31, 100])})
            continue
        s = rng.choice(seqs)
        if rng.random() < 0.05:
            path[s] = rng.choice(["orders", "other", "misc"])
        st = rng.choice([500, 503, 599]) if rng.random() < 0.85 else rng.choice([200, 404, 499])
        h.append({"ev": "resp", "s": s, "st": st, "new": rng.random() < 0.3, "u": path[s]})
    return h


def rand_burst_history(rng):
    """policy mode with very many sequences open at the same time (state-size limits of the store): a few tracked sequences
    start, 10^4..2*10^4 others are opened, the tracked ones go on failing"""
    A = rng.choice([3, 3, 4, 5])
    seqs = ["s1", "s2", "s3"]
    ranges = rng.choice(RANGE_POOL)
    hot = [st for st in ST_POOL if in_cond(ranges, st)]
    h = [{"ev": "reset", "mode": "policy", "A": A, "cd": rng.choice([0, 1]), "mult": 1, "ranges": ranges, "seqs": seqs}]
    k = rng.randint(0, 3)
    for s in seqs[:k]:
        h.append({"ev": "resp", "s": s, "st": rng.choice(hot), "new": True})
    h.append({"ev": "burst", "n": rng.randint(10000, 20000), "st": rng.choice(hot)})
    for s in seqs[k:]:
        h.append({"ev": "resp", "s": s, "st": rng.choice(hot), "new": True})
    for _ in range(rng.randint(8, 16)):
        h.append({"ev": "resp", "s": rng.choice(seqs), "st": rng.choice(hot), "new": False})
    return h


def rand_flows_burst_history(rng, thorough=False):
    """flows mode: bursts of very many fresh failing sequences (a few thousand each: capacity / eviction effects of the counter
    store) between the steps of tracked sequences; one flow or several flows with a Retry processor each; zero cool-down"""
    seqs = ["s1", "s2"]
    if rng.random() < 0.5:
        A = rng.choice([1, 2, 2, 3])
        h = [{"ev": "reset", "mode": "flows", "A": A, "cd": 0, "mult": 0, "ranges": [[500, 599]], "seqs": seqs}]
        u = None
    else:
        flows = [{"name": "f1", "url": "api.test/*", "key": "RetryProc", "A": rng.choice([1, 2, 3])},
                 {"name": "f2", "url": "api.test/orders", "key": rng.choice(["RetryProc", "Retry_f2"]), "A": rng.choice([1, 2, 3])}]
        h = [{"ev": "reset", "mode": "flows", "A": 0, "cd": 0, "mult": 0, "ranges": [[500, 599]], "seqs": seqs, "flows": flows}]
        u = "orders"
    def resp(s):
        e = {"ev": "resp", "s": s, "st": rng.choice([500, 503]), "new": False}
        if u:
            e["u"] = u
        return e
    # every call of the Retry processor costs 1 ms of real time (MockClock.After sleeps to yield): bursts are kept just above
    # the sizes at which a bounded store would start evicting in the quick tier
    for _ in range(rng.randint(3, 4) if thorough else 2):
        for _ in range(rng.randint(1, 2)):
            h.append(resp(rng.choice(seqs)))
        b = {"ev": "burst", "n": rng.randint(1100, 3000 if thorough else 1300), "st": 500}
        if u:
            b["u"] = u
        h.append(b)
    for _ in range(rng.randint(2, 5)):
        h.append(resp(rng.choice(seqs)))
    return h


def rand_conc_history(rng):
    """flows mode, responses of 2-4 different sequences handled at the same time: every call enters the flow while the previous
    ones are parked in the Retry processor's cool-down wait (positive cool-down), then the waits end; each sequence is judged
    on its own budget"""
    seqs = ["s%d" % i for i in range(1, rng.choice([2, 2, 3, 4]) + 1)]
    A = rng.choice([1, 2, 2, 3])
    h = [{"ev": "reset", "mode": "flows", "A": A, "cd": rng.choice([1, 2]), "mult": rng.choice([0, 1]), "ranges": [[500, 599]], "seqs": seqs}]
    for _ in range(rng.randint(A + 2, A + 6)):
        if rng.random() < 0.2:
            h.append({"ev": "resp", "s": rng.choice(seqs), "st": rng.choice([500, 503, 200])})
            continue
        k = rng.randint(2, len(seqs))
        calls = [{"ev": "resp", "s": s, "st": rng.choice([500, 500, 503, 599, 200])} for s in rng.sample(seqs, k)]
        h.append({"ev": "conc", "calls": calls})
    return h


def rand_handler_history(rng):
    """policy mode end to end (routing.Handler, real runner): one or several retry remedies apply to the call (endpoint and / or
    global, also two of one endpoint), the same policies are re-applied (reload) in the middle of sequences"""
    combos = [["global"], ["endpoint"], ["endpoint", "global"], ["endpoint", "global"], ["endpoint", "endpoint"], ["endpoint", "endpoint", "global"]]
    rem = [{"scope": sc, "A": rng.choice([1, 2, 2, 3])} for sc in rng.choice(combos)]
    seqs = ["s1", "s2"]
    ranges = rng.choice([[[500, 599]], [[429, 429], [500, 599]]])
    hot = [st for st in ST_POOL if in_cond(ranges, st)]
    cold = [st for st in ST_POOL if not in_cond(ranges, st)]
    h = [{"ev": "reset", "mode": "handler", "A": 0, "cd": rng.choice([0, 1, 2]), "mult": rng.choice([1, 1, 2]), "ranges": ranges, "seqs": seqs, "remedies": rem}]
    started = set()
    for _ in range(rng.randint(8, 20)):
        if rng.random() < 0.2:
            h.append({"ev": "reload"})
            continue
        s = rng.choice(seqs)
        new = s not in started
        started.add(s)
        st = rng.choice(hot) if rng.random() < 0.88 else rng.choice(cold)
        h.append({"ev": "resp", "s": s, "st": st, "new": new})
        if rng.random() < 0.06:
            started.discard(s)
    return h


def long_backoff_history(rng):
    """flows mode with a long linear back-off (the wait before the k-th retry grows past half a minute): much time passes
    between two responses of one sequence without the sequence being over - time-based expiry of the counters must not hand
    out a fresh budget"""
    A = rng.choice([3, 4])
    seqs = ["s1", "s2"][: rng.choice([1, 1, 2])]
    h = [{"ev": "reset", "mode": "flows", "A": A, "cd": rng.choice([0, 10]), "mult": rng.choice([15, 20]), "ranges": [[500, 599]], "seqs": seqs}]
    for _ in range(rng.randint(A + 2, 2 * A + 3)):
        h.append({"ev": "resp", "s": rng.choice(seqs), "st": rng.choice([500, 503])})
    return h


def shrinking_cooldown_history(rng):
    """policy mode: the announced cool-down shrinks from one retry to the next (multiplier 0 or 1 with a client that comes back
    sooner), so a later state write has an earlier expiry than the entry it replaces"""
    A = rng.choice([3, 4, 5])
    ranges = rng.choice(RANGE_POOL)
    hot = [st for st in ST_POOL if in_cond(ranges, st)]
    h = [{"ev": "reset", "mode": "policy", "A": A, "cd": rng.choice([1, 2, 5, 9]), "mult": rng.choice([0, 0, 1]), "ranges": ranges, "seqs": ["s1", "s2"]}]
    for s in ("s1", "s2"):
        h.append({"ev": "resp", "s": s, "st": rng.choice(hot), "new": True})
    for _ in range(rng.randint(A + 2, A + 6)):
        if rng.random() < 0.3:
            h.append({"ev": "adv", "d": rng.choice([1, 1, 2, 5])})
        h.append({"ev": "resp", "s": rng.choice(["s1", "s1", "s2"]), "st": rng.choice(hot), "new": False})
    return h


def script_of(hist):
    return [{k: v for k, v in e.items() if k not in ("out", "ra", "refused")} for e in hist]


def nontrivial(h):
    """exercises the bound: the budget was used up (a retry was refused inside the conditions) and a later response of the
    same sequence was retried again (fresh budget)"""
    ranges = h[0]["ranges"]
    gave_up = set()
    for e in h[1:]:
        if e["ev"] != "resp":
            continue
        if in_cond(ranges, e["st"]) and e.get("out") in ("noop", "failed"):
            gave_up.add(e["s"])
        elif e.get("out") == "retry" and e["s"] in gave_up:
            return True
    return False


def witness_of(rej):
    h, at = rej["hist"], rej["at"]
    r, e = h[0], h[at]
    att = r.get("A")
    if e.get("s") in r.get("seqs", []) and "atts" in r:
        att = r["atts"][r["seqs"].index(e["s"])]
    w = {"class": "answer-not-allowed-by-spec", "mode": r.get("mode"), "A": att, "event": e, "invariant": rej.get("invariant")}
    if r.get("flows"):
        w["flows"] = r["flows"]
    if e.get("ev") == "resp":
        cond = in_cond(r["ranges"], e["st"])
        if e.get("out") == "retry" and not cond:
            w["class"] = "retry-outside-conditions"
        elif e.get("out") == "retry":
            w["class"] = "retry-beyond-budget"
            w["nonpositive_attempts"] = att <= 0
        elif cond and e.get("out") in ("noop", "failed"):
            w["class"] = "no-retry-although-budget-left"
        prior = [x for x in h[1:at] if x.get("ev") == "resp" and x.get("s") == e.get("s")]
        w["retries_before"] = sum(1 for x in prior if x.get("out") == "retry")
    return w



def unreached(ctx, sd, out, modules, allow=()):
    """non-vacuity from `tlc -coverage 1`: expressions of the given modules that were never evaluated in the Next relation
    (count 0), minus lines whose source text contains one of `allow`."""
    import re
    bad = []
    for m in re.finditer(r"line (\d+), col (\d+) to line \d+, col \d+ of module (\w+): 0\s*$", out, re.M):
        ln, mod = int(m.group(1)), m.group(3)
        if mod not in modules:
            continue
        src = open(os.path.join(sd, mod + ".tla")).read().splitlines()[ln - 1]
        if not any(a in src for a in allow):
            bad.append("%s:%d %s" % (mod, ln, src.strip()))
    return bad

def execute(ctx, binary, scripts, tag):
    d = ctx.sub("run-" + tag)
    sp = os.path.join(d, "scripts.json")
    json.dump(scripts, open(sp, "w"))
    so = socket.socket(); so.bind(("127.0.0.1", 0)); port = str(so.getsockname()[1]); so.close()
    # handler histories build a policy-mode gateway whose updates talk to the proxy's admin API: a loopback fake answers there
    ctx.run_harness(binary, ["run", sp, d], env={"HAPROXY_MANAGE_ENDPOINTS_PORT": port, "LUNAR_HEALTHCHECK_PORT": port})
    return [read_ndjson(os.path.join(d, "trace-%03d.ndjson" % i)) for i in range(len(scripts))]


def judge(ctx, binary, traces, tag, seen, scripts):
    """TLC validates the recordings against RetryP (verdict) and RetryI (model conformance)."""
    def one(it):
        i, ev = it
        return validate_history_trace(ctx, SPEC, "RetryTrace", ev, tag="%s%d" % (tag, i))
    def one_i(it):
        i, ev = it
        # several remedies behind the gateway's reply: judged by RetryP only (RetryI models one remedy's bookkeeping)
        cfg, hs0 = split_histories(ev)
        flat = [cfg] + [e for h in hs0 if h[0].get("mode") != "multi" for e in h]
        if len(flat) == 1:
            return 0, [], 0
        return validate_history_trace(ctx, SPEC, "RetryITrace", flat, tag="%si%d" % (tag, i), max_rounds=3)
    res = parallel(one, list(enumerate(traces)), n=4)
    res_i = parallel(one_i, list(enumerate(traces)), n=4)
    for ti, ((acc, rejected, _), (acc_i, rej_i, _), ev) in enumerate(zip(res, res_i, traces)):
        _, hs = split_histories(ev)
        ctx.cov["traces_validated_against_impl"] += acc
        for h in hs:
            ctx.cov["evaluations"] += sum(1 for e in h if e["ev"] == "resp")
            key = json.dumps(h, sort_keys=True)
            if key not in seen:
                seen.add(key)
                if nontrivial(h):
                    ctx.cov["distinct_nontrivial"] += 1
        if rej_i and not rejected:
            ctx.cov["model_drift"] = True
            ctx.notes.append("MODEL-DRIFT (%s): RetryI does not predict %s" % (tag, json.dumps(rej_i[0]["hist"][rej_i[0]["at"]])))
        for rej in rejected:
            w = witness_of(rej)
            j = next(i for i, h in enumerate(hs) if h == rej["hist"])
            script = [{"histories": [scripts[ti]["histories"][j]]}]
            t2 = execute(ctx, binary, script, "%s-repro" % tag)[0]
            _, r2, _ = validate_history_trace(ctx, SPEC, "RetryTrace", t2, tag="%s-repro" % tag)
            if not r2:
                # the history alone is accepted: the answer depended on what the same process did before (engines are shared
                # by the histories of a script) - reproduce with the whole script
                script = [scripts[ti]]
                t2 = execute(ctx, binary, script, "%s-repro-all" % tag)[0]
                _, hs2 = split_histories(t2)
                # the same recording again = the same verdict of the specification on it
                if len(hs2) <= j or hs2[j] != rej["hist"]:
                    raise Broken("rejection not reproduced (%s): %s" % (tag, json.dumps(w)))
                w["needs_preceding_histories"] = True
            ctx.violation(w, {"script": script, "trace": [rej["config"]] + rej["hist"], "rejected_at": rej["at"]})
    return res


def run(ctx):
    T = ctx.thorough
    binary = ctx.build_harness("c17")
    sd = ctx.spec_dir(SPEC)
    ctx.cov["rule"] = ("histories = seeded random scripts (responses of 1-4 interleaved sequences with statuses inside/outside the "
                       "conditions, new/continued transactions, clock advances around the state TTL) over random settings "
                       "(attempts, cool-down, multiplier, status ranges) in policy mode and flows mode + TLC -simulate walks of RetryI + every "
                       "behaviour of RetryI with 3 (thorough 5) events of one sequence enumerated by TLC; "
                       "non-trivial = some sequence had a retry refused inside the conditions (budget used up / failure reported) and "
                       "was retried again later; distinct by (settings, events)")
    ctx.cov["checker_cmd"] = "tlc -config MC_small.cfg MC_C17.tla ; tlc -config RetryTrace.cfg RetryTrace.tla ; tlc -config RetryITrace.cfg RetryITrace.tla"
    ctx.cov["trusted_base"] = ["TLC 1.8", "CommunityModules Json", "Go toolchain", "harness StepClock / clock.MockClock",
                               "harness/cmd/c17 projection (ModifyResponse{x-lunar-retry-after}=retry, NoOp=noop; RetryRequestAction=retry, "
                               "proc.exec hook output failed=failed, Retry not executed=none)"]
    ctx.assumptions += ["responses of one sequence are handled one after the other (the plugin's documented assumption); sequences interleave",
                        "the statement is silent about time: P lets any passage of time forget a sequence, never more",
                        "flows mode: Retry processors behind a Filter(status_code_range) each; with several flows selected for one call "
                        "every Retry processor bounds its own retries (the statement's configured number is the processor's)"]

    # (1) exhaustive: I => P on the bounded instance; action properties on a smaller bound; every broken variant must be refuted
    ctx.tlc_exhaustive(sd, "MC_C17", "MC_small.cfg" if not T else "MC_large.cfg", timeout=1500, label="I=>P (Accepted, Bounded)",
                       workers=8 if not T else None)
    jobs = [("MC_props.cfg", None)] + [("MC_bug_%s.cfg" % b, b) for b in BUGS]
    def mc(job):
        cfg, bug = job
        return ctx.tlc(sd, "MC_C17", cfg, workers=2, timeout=600, label=("non-vacuity: %s" % bug) if bug else "refinement + action properties")
    for (cfg, bug), r in zip(jobs, parallel(mc, jobs, n=4)):
        if bug is None:
            if not r.ok:
                raise Broken("TLC %s: %r\n%s" % (cfg, r, r.out[-2000:]))
            ctx.cov["states"] += r.distinct
            ctx.cov["transitions"] += r.generated
        elif r.violated is None:
            raise Broken("broken variant %s of the model is not refuted (vacuous check): %r" % (bug, r))
    if T:
        r = ctx.tlc(sd, "MC_C17", "MC_props.cfg", workers=4, timeout=900, extra=["-coverage", "1"], label="coverage (non-vacuity)", count=False)
        bad = unreached(ctx, sd, r.out, ("RetryI", "RetryP"))
        if not r.ok or bad:
            raise Broken("vacuous exploration: unreached parts of the model: %s %r" % (bad[:5], r))
        ctx.notes.append("coverage: every expression of RetryI/RetryP reached by the exhaustive run")
        for cfg in ("MC_wit_exhaust.cfg", "MC_wit_giveup.cfg"):
            r = ctx.tlc(sd, "MC_C17", cfg, workers=4, timeout=600, label="witness (expected violated)")
            if r.violated is None:
                raise Broken("witness %s not reachable: exploration is vacuous: %r" % (cfg, r))

    seen = set()
    # (2) spec -> code: walks of the implementation-shaped model replayed; real answers vs prediction, judged by P
    n = 12 if not T else 120
    g = ctx.tlc(sd, "GenC17", "GenC17.cfg", workers=1, simulate="num=%d" % n, depth=20, extra=["-seed", str(ctx.seed)],
                timeout=900, label="behaviour generation")
    walks = tlc_vh_lines(g.out)
    if len(walks) < n // 2:
        raise Broken("behaviour generation produced %d walks: %s" % (len(walks), g.out[-1500:]))
    hists = []
    for w in walks:
        r = dict(w[0]); r["seqs"] = ["s1", "s2", "s3"]
        if r["mode"] == "flows":
            r["ranges"] = [[500, 599]]
        hists.append([r] + [{k: v for k, v in e.items() if k != "out"} for e in w[1:]])
    gscripts = [{"histories": hists}]
    traces = execute(ctx, binary, gscripts, "gen")
    _, real = split_histories(traces[0])
    mism = 0
    for w, h in zip(walks, real):
        if w[0]["mode"] == "flows":
            continue            # walks are generated with two ranges, the flows engine is built with one: prediction differs for 429
        if any(se.get("out") != re_.get("out") for se, re_ in zip(w[1:], h[1:])):
            mism += 1
    ctx.log("replayed %d TLC walks of RetryI, %d policy walks differ from the model's prediction" % (len(walks), mism))
    if mism:
        ctx.cov["model_drift"] = True
        ctx.notes.append("MODEL-DRIFT: %d generated policy walks answered differently from RetryI" % mism)
    ctx.sample({"kind": "tlc-walk-replayed", "events": real[0][:10]})
    judge(ctx, binary, traces, "gen", seen, gscripts)

    # (2b) spec -> code, exhaustively: every behaviour of RetryI with 3 (thorough: 5) events of one sequence, both modes,
    #      attempts 1 and 2, statuses inside/outside the conditions, new/continued, clock steps 30 / 31 s around the state TTL
    gx = ctx.tlc(sd, "GenC17", "GenC17x.cfg" if not T else "GenC17x_large.cfg", workers=1, timeout=900, label="case enumeration", heap="4g")
    allb = tlc_vh_lines(gx.out)
    want = 4 * 6 ** (3 if not T else 5)
    if len(allb) != want:
        raise Broken("case enumeration produced %d behaviours, expected %d: %s" % (len(allb), want, gx.out[-1500:]))
    hx = []
    for w in allb:
        r = dict(w[0]); r["seqs"] = ["s1"]
        hx.append([r] + [{k: v for k, v in e.items() if k != "out"} for e in w[1:]])
    nchunk = 2 if not T else 12
    k = (len(hx) + nchunk - 1) // nchunk
    xscripts = [{"histories": hx[i:i + k]} for i in range(0, len(hx), k)]
    traces = execute(ctx, binary, xscripts, "enum")
    judge(ctx, binary, traces, "enum", seen, xscripts)
    ctx.cov["exhaustive"] = True
    ctx.log("replayed all %d behaviours of the enumeration" % len(allb))

    # (3) code -> spec: random scripts, both modes
    nscripts, nh = (6, 40) if not T else (16, 150)
    def pick(i, j):
        if j % 4 == 3:
            return rand_multi_history(ctx.rng, T)
        if j == 0 and (T or i < 3):
            return rand_burst_history(ctx.rng)
        if j == 1 and (T or i < 2):
            return rand_flows_burst_history(ctx.rng, T)
        if j in (2, 5):
            return shrinking_cooldown_history(ctx.rng)
        if j in (6, 9, 13):
            return rand_conc_history(ctx.rng)
        if j in (12, 16):
            return long_backoff_history(ctx.rng)
        if j in (7, 10, 14, 17, 18):
            return rand_handler_history(ctx.rng)
        return rand_history(ctx.rng, "policy" if (i + j) % 2 == 0 else "flows", T)
    scripts = [{"histories": [pick(i, j) for j in range(nh)]} for i in range(nscripts)]
    traces = execute(ctx, binary, scripts, "rand")
    refused = sum(1 for t in traces for e in t if e.get("refused"))
    ctx.sample({"kind": "recorded-trace", "events": traces[0][:12]})
    ctx.sample({"kind": "recorded-trace", "events": traces[1][:12]})
    judge(ctx, binary, traces, "rand", seen, scripts)
    if refused:
        ctx.notes.append("%d configurations refused by the loader" % refused)

    # (4) binding self-test (thorough): corrupted / truncated recordings must be rejected
    if T:
        ev = traces[0]
        k = next(i for i, e in enumerate(ev) if e.get("out") in ("noop", "failed") and i > 2 and ev[i - 1].get("out") == "retry"
                 and ev[i - 1].get("s") == e.get("s"))
        bad = [dict(e) for e in ev]; bad[k]["out"] = "retry"
        _, rej, _ = validate_history_trace(ctx, SPEC, "RetryTrace", bad, tag="selftest1", max_rounds=1)
        # dropping the failure report of a flows-mode history leaves one retry too many in a row
        ev2 = next(t for t in traces if any(e.get("out") == "failed" for e in t))
        k2 = next(i for i, e in enumerate(ev2) if e.get("out") == "failed" and i + 1 < len(ev2) and ev2[i + 1].get("out") == "retry"
                  and ev2[i + 1].get("s") == e.get("s"))
        drop = [e for i, e in enumerate(ev2) if i != k2]
        _, rej2, _ = validate_history_trace(ctx, SPEC, "RetryTrace", drop, tag="selftest2", max_rounds=1)
        if not rej or not rej2:
            raise Broken("self-test: corrupted trace accepted (flip=%s drop=%s)" % (bool(rej), bool(rej2)))
        ctx.notes.append("self-test: flipped answer rejected, dropped failure report rejected")


def replay(ctx, path):
    obj = json.load(open(path))
    binary = ctx.build_harness("c17")
    t = execute(ctx, binary, obj["replay"]["script"], "replay")[0]
    acc, rej, _ = validate_history_trace(ctx, SPEC, "RetryTrace", t, tag="replay")
    for e in t:
        print(json.dumps(e))
    if rej:
        print("VIOLATION property=C17 replay=%s" % path)
        print("   rejected at event %d: %s" % (rej[0]["at"], json.dumps(rej[0]["hist"][rej[0]["at"]])))
        return 1
    print("replay accepted by the specification")
    return 0
