"""C02 - concurrency quotas bound in-flight requests and always free their slots.

spec:     specs/c02_concurrency  ConcurrencyP (property), ConcurrencyI (implementation-shaped), ConcurrencyTrace, GenC02
binding:  harness/cmd/c02 drives a real streams.Stream (generated quota/flow YAML) through ExecuteFlow(request/response)
          and Stream.OnError on the mock clock; background GC passes are awaited through the hook cq.gc.done
"""
import json, os
from vlib import Broken, read_ndjson, write_ndjson, validate_history_trace, parallel, tlc_vh_lines, split_histories

SPEC = "c02_concurrency"


# --------------------------------------------------------------------------- configuration -> YAML
def chain(cfg, q):
    out = [q]
    while cfg["parent"][out[-1]] != "-":
        out.append(cfg["parent"][out[-1]])
    return out


def _strategy(cfg, q, ind):
    if q in cfg.get("fixed", {}):
        # a fixed-window quota that never refuses: it only sits in the hierarchy between / above / below concurrency quotas
        return ["%sstrategy:" % ind, "%s  fixed_window:" % ind, "%s    max: 1000000" % ind,
                "%s    interval: 1" % ind, "%s    interval_unit: hour" % ind]
    return ["%sstrategy:" % ind, "%s  concurrent:" % ind,
            "%s    max_request_count: %d" % (ind, cfg["Max"][q]),
            "%s    request_expiration_sec: %d" % (ind, cfg["Expiry"][q] // cfg.get("k", 1)),
            "%s    gc_interval_sec: %d" % (ind, cfg["GcPeriod"][q] // cfg.get("k", 1))]


def files_of(cfg):
    """cfg["parent"] is the hierarchy of the concurrency quotas as the specification sees it; cfg["real_parent"] (optional)
    is the configured hierarchy including never-refusing fixed-window quotas (cfg["fixed"]) - mixed hierarchies."""
    rp = cfg.get("real_parent", cfg["parent"])
    allq = list(rp)

    def depth(q):
        d = 0
        while rp[q] != "-":
            q = rp[q]
            d += 1
        return d
    ql = ["quotas:"]
    for q in [q for q in allq if rp[q] == "-"]:
        ql += ["  - id: %s" % q, "    filter:", "      url: api.test/*"] + _strategy(cfg, q, "    ")
    rest = sorted([q for q in allq if rp[q] != "-"], key=depth)
    if rest:
        ql.append("internal_limits:")
    for q in rest:
        ql += ["  - id: %s" % q, "    parent_id: %s" % rp[q]] + _strategy(cfg, q, "    ")
    files = {"quotas/quotas.yaml": "\n".join(ql) + "\n"}
    for f, fl in cfg["flows"].items():
        files["flows/%s.yaml" % f] = flow_yaml(f, fl.get("lim", fl["qs"]))
    return files


def flow_yaml(name, qs):
    """Limiter(q1) -below-> Limiter(q2) ... -below-> Filter(header x-early=1) -hit-> GenerateResponse(200)
       every Limiter -above_limit-> GenerateResponse(429)"""
    procs, req, resp = [], [], []
    for i, q in enumerate(qs):
        procs += ["  Lim%d:" % i, "    processor: Limiter", "    parameters:", "      - key: quota_id", "        value: %s" % q]
    procs += ["  Early:", "    processor: Filter", "    parameters:", "      - key: header", "        value: x-early=1"]
    for nm, st in (("TooMany", 429), ("Answer", 200)):
        procs += ["  %s:" % nm, "    processor: GenerateResponse", "    parameters:", "      - key: status", "        value: %d" % st,
                  "      - key: body", "        value: generated", "      - key: Content-Type", "        value: text/plain"]

    def edge(frm, to, cond=None):
        out = ["    - from:"]
        if frm == "start":
            out += ["        stream:", "          name: globalStream", "          at: start"]
        else:
            out += ["        processor:", "          name: %s" % frm]
            if cond:
                out += ["          condition: %s" % cond]
        out += ["      to:"]
        if to == "end":
            out += ["        stream:", "          name: globalStream", "          at: end"]
        else:
            out += ["        processor:", "          name: %s" % to]
        return out
    req += edge("start", "Lim0")
    for i in range(len(qs)):
        req += edge("Lim%d" % i, "TooMany", "above_limit")
        req += edge("Lim%d" % i, "Lim%d" % (i + 1) if i + 1 < len(qs) else "Early", "below_limit")
    req += edge("Early", "Answer", "hit") + edge("Early", "end", "miss")
    resp += edge("TooMany", "end") + edge("Answer", "end")
    return "\n".join(["name: %s" % name, "filter:", "  url: api.test/%s" % name, "processors:"] + procs +
                     ["flow:", "  request:"] + req + ["  response:"] + resp) + "\n"


def script_of(cfg, histories, hooks=False):
    model = {k: cfg[k] for k in ("quotas", "parent", "Max", "Expiry", "GcPeriod", "txns")}
    model["txns"] = list(model["txns"]) + ["s%d" % i for i in range(NSTORM)]
    flows = {f: {"url": "api.test/%s" % f, "qs": fl["qs"]} for f, fl in cfg["flows"].items()}
    return {"config": model, "files": files_of(cfg), "flows": flows, "ngc": len(cfg["quotas"]), "hooks": hooks,
            "tick_ms": 1000 // cfg.get("k", 1),
            "histories": histories}


# --------------------------------------------------------------------------- random scripts
SHAPES = [
    {"quotas": ["cq"], "parent": {"cq": "-"}, "flows": {"f": {"qs": ["cq"]}}},
    {"quotas": ["cp", "cc"], "parent": {"cp": "-", "cc": "cp"}, "flows": {"f": {"qs": ["cc"]}, "g": {"qs": ["cp"]}}},
    {"quotas": ["qa", "qb"], "parent": {"qa": "-", "qb": "-"}, "flows": {"f": {"qs": ["qa", "qb"]}, "g": {"qs": ["qb"]}}},
    # mixed hierarchies: the fixed-window members never refuse, the specification sees the concurrency quotas only
    {"quotas": ["mp"], "parent": {"mp": "-"}, "fixed": ["fx"], "real_parent": {"mp": "-", "fx": "mp"},
     "flows": {"f": {"qs": ["mp"], "lim": ["fx"]}, "g": {"qs": ["mp"], "lim": ["mp"]}}},
    {"quotas": ["mc"], "parent": {"mc": "-"}, "fixed": ["fp"], "real_parent": {"fp": "-", "mc": "fp"},
     "flows": {"f": {"qs": ["mc"], "lim": ["mc"]}}},
    {"quotas": ["cr", "cl"], "parent": {"cr": "-", "cl": "cr"}, "fixed": ["fm"], "real_parent": {"cr": "-", "fm": "cr", "cl": "fm"},
     "flows": {"f": {"qs": ["cl"], "lim": ["cl"]}, "g": {"qs": ["cr"], "lim": ["fm"]}}},
]
NTXN = 14


def rand_config(rng, thorough, shape=None):
    sh = shape or rng.choice(SHAPES)
    cfg = {"quotas": list(sh["quotas"]), "parent": dict(sh["parent"]), "flows": json.loads(json.dumps(sh["flows"])),
           "Max": {}, "Expiry": {}, "GcPeriod": {}, "txns": ["t%d" % i for i in range(NTXN)]}
    # ticks per second: with 2 or 4 the engine start, the admissions and the GC passes fall on sub-second clock readings
    k = cfg["k"] = rng.choice([1, 2, 4, 4])
    if "fixed" in sh:
        cfg["fixed"] = {q: True for q in sh["fixed"]}
        cfg["real_parent"] = dict(sh["real_parent"])
    for q in cfg["quotas"]:
        cfg["Max"][q] = rng.choice([1, 2, 3, 3, 4])
        cfg["Expiry"][q] = rng.choice([2, 3, 4]) * k         # in ticks; the YAML states whole seconds
        cfg["GcPeriod"][q] = rng.choice([1, 2, 3]) * k
    for q in cfg["quotas"]:
        # a child collected more often than its parent: the two forget an expired transaction at different instants
        if cfg["parent"][q] != "-" and rng.random() < 0.75:
            cfg["GcPeriod"][q] = k
            cfg["GcPeriod"][cfg["parent"][q]] = rng.choice([2, 3]) * k
    return cfg


def rand_history(rng, cfg, n, conc):
    """transactions over ids t0..; live ones are ended by response / error, or abandoned.  A transaction id is
    presented AGAIN (a new request with an old id, e.g. the retry of a hung call) once its previous transaction is
    certainly over whatever the gateway answered: it was ended explicitly (response / proxy error), or it was
    requested more than max(expiry + GC period) ticks ago."""
    k = cfg.get("k", 1)
    now = rng.randint(1, 4 * k + 1)          # the engine starts at a sub-second clock reading when k > 1
    h = [{"ev": "reset", "now": now}]
    flows = sorted(cfg["flows"])
    far_all = max(cfg["Expiry"][q] + cfg["GcPeriod"][q] for q in cfg["quotas"])
    nxt, live, ended = 0, [], []
    req_at, reusable = {}, []

    def new_id():
        nonlocal nxt
        old = [t for t in req_at if t not in live and t not in reusable and now > req_at[t] + far_all]
        for t in old:
            reusable.append(t)
        if reusable and (rng.random() < 0.4 or nxt >= NTXN):
            t = rng.choice(reusable)
            reusable.remove(t)
            if t in ended:
                ended.remove(t)
        elif nxt < NTXN:
            t = "t%d" % nxt
            nxt += 1
        else:
            return None
        req_at[t] = now
        return t

    def adv(d):
        nonlocal now
        now += d
        h.append({"ev": "adv", "d": d})
        # abandoned transactions that are certainly over by now are no longer "live" for the script
        for t in [t for t in live if now > req_at[t] + far_all]:
            live.remove(t)

    def end(t, kind):
        live.remove(t)
        ended.append(t)
        if t not in reusable:
            reusable.append(t)
        return {"ev": kind, "t": t}

    burst = rng.random() < (0.5 if len(cfg["quotas"]) > 1 else 0.3)      # saturate a quota, abandon everything, let it all expire, saturate again
    if burst:
        f = rng.choice(flows)
        q = cfg["flows"][f]["qs"][0]
        k = min(cfg["Max"][x] for x in chain(cfg, q))
        first = []
        for _ in range(min(k + 1, NTXN // 2)):
            t = new_id()
            first.append(t)
            live.append(t)
            h.append({"ev": "req", "t": t, "flow": f, "early": False})
        far = max(cfg["Expiry"][x] + cfg["GcPeriod"][x] for x in chain(cfg, q)) + rng.choice([0, 1])
        if rng.random() < 0.5:
            adv(far)
        else:
            # stop somewhere between expiry and the last GC pass, end some of the abandoned transactions late, go on
            soon = min(cfg["Expiry"][x] for x in chain(cfg, q)) + 1
            d1 = rng.randint(min(soon, far), far) if rng.random() < 0.7 else rng.randint(1, far)
            adv(d1)
            for t in first:
                if rng.random() < 0.6:
                    if t in live:
                        h.append(end(t, rng.choice(["err", "resp"])))
                    else:
                        h.append({"ev": rng.choice(["err", "resp"]), "t": t})
            if rng.random() < 0.5 and far > d1:
                adv(far - d1)
        for _ in range(k + 1):
            t = new_id()
            if t is None:
                break
            live.append(t)
            h.append({"ev": "req", "t": t, "flow": f, "early": False})
    for _ in range(n):
        x = rng.random()
        if x < 0.18:
            adv(rng.choice([1, 1, 2, 3, k, k + 1, 2 * k, 3 * k]))
        elif conc and x < 0.34:
            ops, used = [], set()
            for _ in range(rng.randint(2, 4)):
                cand = [t for t in live if t not in used]
                if cand and rng.random() < 0.45:
                    t = rng.choice(cand)
                    used.add(t)
                    ops.append({"op": rng.choice(["resp", "resp", "err"]), "t": t})
                else:
                    t = new_id()
                    if t is None:
                        continue
                    used.add(t)
                    ops.append({"op": "req", "t": t, "flow": rng.choice(flows), "early": rng.random() < 0.2})
            if len(ops) >= 2:
                h.append({"ev": "conc", "ops": ops})
                for o in ops:
                    if o["op"] == "req":
                        live.append(o["t"])          # may have been admitted: the script treats it as live
                    else:
                        end(o["t"], o["op"])
            else:
                for o in ops:
                    if o["op"] == "req":
                        live.append(o["t"])
                        h.append({"ev": "req", "t": o["t"], "flow": o["flow"], "early": o["early"]})
                    else:
                        h.append(end(o["t"], o["op"]))
        elif x < 0.62:
            t = new_id()
            if t is None:
                continue
            h.append({"ev": "req", "t": t, "flow": rng.choice(flows), "early": rng.random() < 0.2})
            live.append(t)
        elif live and x < 0.92:
            h.append(end(rng.choice(live), rng.choice(["resp", "resp", "err"])))
        elif ended:
            h.append({"ev": rng.choice(["resp", "err"]), "t": rng.choice(ended)})      # a second end of the same transaction
    return h


NSTORM = 24


def storm_histories(rng, cfg, rounds, nh):
    """storms near the limit: NSTORM goroutines present one request each on one flow at the same instant, the admitted
    ones are then answered (or failed) and the same ids come again, round after round."""
    flows = sorted(cfg["flows"])
    hs = []
    for _ in range(nh):
        h = [{"ev": "reset", "now": rng.randint(1, 4 * cfg.get("k", 1) + 1)}]
        for _ in range(rounds):
            h.append({"ev": "storm", "flow": rng.choice(flows), "n": NSTORM, "rel": rng.choice(["resp", "resp", "err", "mixed"])})
            if rng.random() < 0.15:
                h.append({"ev": "adv", "d": 1})
        hs.append(h)
    return hs


def late_end_histories(cfg):
    """systematic family: a transaction is admitted, the clock moves d ticks (every d up to expiry + GC period + 1),
    the transaction is ended late (response or proxy error), then every flow is filled (the slots stay held), the id
    of the first transaction is presented again, and everything is answered."""
    out = []
    for f in sorted(cfg["flows"]):
        qs = cfg["flows"][f]["qs"]
        allq = [x for q in qs for x in chain(cfg, q)]
        far = max(cfg["Expiry"][x] + cfg["GcPeriod"][x] for x in allq) + 1
        for d in range(1, far + 1):
            for end in (("err", "resp") if cfg.get("k", 1) == 1 else (("err",) if d % 2 else ("resp",))):
                h = [{"ev": "reset", "now": 1 + (d % 3)}, {"ev": "req", "t": "t0", "flow": f, "early": False},
                     {"ev": "adv", "d": d}, {"ev": end, "t": "t0"}]
                n, ts = 1, []
                for g in sorted(cfg["flows"]):
                    k = min(cfg["Max"][x] for q in cfg["flows"][g]["qs"] for x in chain(cfg, q))
                    for _ in range(min(k, 4)):
                        if n < NTXN:
                            ts.append("t%d" % n)
                            h.append({"ev": "req", "t": "t%d" % n, "flow": g, "early": False})
                            n += 1
                h.append({"ev": "req", "t": "t0", "flow": f, "early": False})       # the old id again: a new request
                h += [{"ev": "resp", "t": t} for t in ts + ["t0"]]
                out.append(h)
    return out


def hold_histories(cfg):
    """systematic family on the time grid: the engine starts, a ticks later (every sub-second phase) a transaction is
    admitted and simply stays in flight; d ticks later (every d from one second before its expiry to expiry + GC period)
    every flow is filled: as long as the expiry time has not passed its slot must still be taken."""
    out = []
    k = cfg.get("k", 1)
    for f in sorted(cfg["flows"]):
        allq = [x for q in cfg["flows"][f]["qs"] for x in chain(cfg, q)]
        emin = min(cfg["Expiry"][x] for x in allq)
        far = max(cfg["Expiry"][x] + cfg["GcPeriod"][x] for x in allq) + 1
        for a in range(k):
            for d in range(max(1, emin - k), far + 1):
                h = [{"ev": "reset", "now": 1 + (d % (2 * k))}]
                if a:
                    h.append({"ev": "adv", "d": a})
                h.append({"ev": "req", "t": "t0", "flow": f, "early": False})
                h.append({"ev": "adv", "d": d})
                n, ts = 1, ["t0"]
                for g in sorted(cfg["flows"]):
                    m = min(cfg["Max"][x] for q in cfg["flows"][g]["qs"] for x in chain(cfg, q))
                    for _ in range(min(m, 4)):
                        if n < NTXN:
                            ts.append("t%d" % n)
                            h.append({"ev": "req", "t": "t%d" % n, "flow": g, "early": False})
                            n += 1
                h += [{"ev": "resp", "t": t} for t in ts]
                out.append(h)
    return out


def script_of_history(hist, cfg_flows):
    """strip outcomes from a recorded history -> script events."""
    def flow_of(qs):
        for f, fl in cfg_flows.items():
            if fl["qs"] == qs:
                return f
        raise Broken("no flow for %r" % (qs,))
    out, conc, open_ids = [], None, set()
    for e in hist:
        if e["ev"] == "begin":
            if conc is None or not open_ids:        # a batch ends when all its operations have returned
                conc = {"ev": "conc", "ops": []}
                out.append(conc)
            open_ids.add(e["id"])
            o = {"op": e["op"], "t": e["t"]}
            if e["op"] == "req":
                o["flow"], o["early"] = e.get("flow") or flow_of(e["qs"]), e["early"]
            conc["ops"].append(o)
        elif e["ev"] == "end":
            open_ids.discard(e["id"])
            continue
        elif e["ev"] == "storm":
            conc = None
            out.append({"ev": "storm", "flow": e["flow"], "n": len(e["ts"]), "rel": e.get("rel", "resp")})
        elif e["ev"] in ("resp", "err") and e["t"].startswith("s"):
            continue                 # issued by the harness itself after a storm
        else:
            conc = None
            if e["ev"] == "req":
                out.append({"ev": "req", "t": e["t"], "flow": e.get("flow") or flow_of(e["qs"]), "early": e["early"]})
            else:
                out.append({k: v for k, v in e.items() if k not in ("out", "error")})
    return out


def nontrivial(hist):
    """a history exercises the property when a request was refused (quota exhausted) and a later request was admitted
    (a slot had been given back)."""
    refused = False
    for e in hist:
        if e.get("out") == "refuse":
            refused = True
        elif e.get("out") in ("admit", "early") and refused:
            return True
    return False


def witness_of(rej):
    h, at = rej["hist"], rej["at"]
    e = h[at]
    ends = sorted({x["ev"] if x["ev"] != "begin" else x["op"] for x in h[:at] if x["ev"] in ("resp", "err") or (x["ev"] == "begin" and x["op"] in ("resp", "err"))})
    return {"class": "verdict-not-allowed-by-spec" if not rej.get("invariant") else "bound-exceeded",
            "event": e, "concurrent": e["ev"] in ("begin", "end", "storm") or any(x["ev"] == "storm" for x in h[:at]) or any(x["ev"] == "begin" for x in h[:at]),
            "nquotas": len(e.get("qs", [])), "after_advance": any(x["ev"] == "adv" for x in h[:at]),
            "ends_before": ends, "invariant": rej.get("invariant")}


def execute(ctx, binary, scripts, tag):
    d = ctx.sub("run-" + tag)
    sp = os.path.join(d, "scripts.json")
    json.dump(scripts, open(sp, "w"))
    ctx.run_harness(binary, ["run", sp, d])
    return [read_ndjson(os.path.join(d, "trace-%03d.ndjson" % i)) for i in range(len(scripts))]


def drift_check(ctx, tag, n):
    """hook-level recordings (cq.sadd / cq.srem under the shared-state mutex) against the member-set model.
    A mismatch is MODEL-DRIFT (evidence only), never a violation."""
    d = ctx.sub("run-" + tag)

    def one(i):
        ev = read_ndjson(os.path.join(d, "hooks-%03d.ndjson" % i))
        for e in ev:
            if e.get("ev") in ("cq.sadd", "cq.srem"):
                e["q"] = e.pop("key").rsplit("_", 1)[0]
        acc, rej, _ = validate_history_trace(ctx, SPEC, "ConcurrencyITrace", ev, tag="%s-i%d" % (tag, i), max_rounds=1)
        return acc, rej, sum(1 for e in ev if e.get("ev", "").startswith("cq."))
    tot = 0
    for acc, rej, k in parallel(one, list(range(n)), n=2):
        tot += k
        if rej:
            ctx.cov["model_drift"] = True
            r = rej[0]
            ctx.notes.append("MODEL-DRIFT: member-set event not explained by the model: %s" % json.dumps(r["hist"][r["at"]]))
    ctx.notes.append("hook level: %d cq.sadd / cq.srem events of %d recordings validated against the member-set model%s"
                     % (tot, n, " - MODEL-DRIFT" if ctx.cov["model_drift"] else ""))
    ctx.log(ctx.notes[-1])


UNREPRODUCED = []


def judge(ctx, binary, scripts, traces, tag, seen_hist):
    def one(it):
        i, ev = it
        return validate_history_trace(ctx, SPEC, "ConcurrencyTrace", ev, tag="%s%d" % (tag, i))
    res = parallel(one, list(enumerate(traces)), n=2)
    for (acc, rejected, rounds), ev, sc in zip(res, traces, scripts):
        cfg, hs = split_histories(ev)
        ctx.cov["traces_validated_against_impl"] += acc
        for h in hs:
            ctx.cov["evaluations"] += sum(1 for e in h if e["ev"] in ("req", "resp", "err", "begin")) + sum(len(e["ts"]) for e in h if e["ev"] == "storm")
            key = json.dumps([cfg, h], sort_keys=True)
            if key not in seen_hist:
                seen_hist.add(key)
                if nontrivial(h):
                    ctx.cov["distinct_nontrivial"] += 1
        for rej in rejected:
            if len(ctx.violations) >= 8:
                break              # enough reproduced witnesses: do not spend the run re-executing every further rejection
            w = witness_of(rej)
            script = dict(sc)
            script["histories"] = [script_of_history(rej["hist"], sc["flows"])]
            reproduced = False
            for attempt in range(1 if not w["concurrent"] else 20):
                t2 = execute(ctx, binary, [script], "%s-repro" % tag)[0]
                a2, r2, _ = validate_history_trace(ctx, SPEC, "ConcurrencyTrace", t2, tag="%s-repro" % tag)
                if r2:
                    reproduced = True
                    break
            if not reproduced:
                # never reported as a violation; the run is broken unless other rejections were reproduced
                ctx.notes.append("rejection not reproduced in %d attempts (%s): %s" % (20 if w["concurrent"] else 1, tag, json.dumps(w)))
                UNREPRODUCED.append(w)
                continue
            ctx.violation(w, {"script": [script], "trace": [rej["config"]] + rej["hist"], "rejected_at": rej["at"]})


GEN_CONFIG = {"quotas": ["qa", "qb", "cc"], "parent": {"qa": "-", "qb": "-", "cc": "qa"},
              "k": 2, "Max": {"qa": 3, "qb": 1, "cc": 2}, "Expiry": {"qa": 4, "qb": 6, "cc": 4}, "GcPeriod": {"qa": 4, "qb": 2, "cc": 4},
              "txns": ["t%d" % i for i in range(6)],
              "flows": {"f": {"qs": ["cc"]}, "g": {"qs": ["qa", "qb"]}, "h": {"qs": ["qb"]}}}

VARIANTS = [("gc_wrong_key", 1), ("gc_keeps", 1), ("ge_to_gt", 1), ("dec_wrong", 1), ("no_release", 1), ("no_unregister", 1)]   # (variant, Max): each must be refuted


def variant_cfg(sd, base, variant, mx=None, txns=None):
    txt = open(os.path.join(sd, base)).read().replace('Variant = "none"', 'Variant = "%s"' % variant)
    if mx is not None:
        import re
        txt = re.sub(r"Max = \d+", "Max = %d" % mx, txt)
    name = base.replace(".cfg", "_%s.cfg" % variant)
    open(os.path.join(sd, name), "w").write(txt)
    return name


def run(ctx):
    T = ctx.thorough
    binary = ctx.build_harness("c02")
    sd = ctx.spec_dir(SPEC)
    ctx.cov["rule"] = ("histories = seeded random transaction scripts over six configuration shapes (one quota; parent + internal limit "
                       "with a flow on each; two independent quotas consulted by one flow; concurrency parent with a fixed-window internal "
                       "limit named by the Limiter; fixed-window parent with a concurrency internal limit; concurrency / fixed-window / "
                       "concurrency chain) with requests - also re-presenting the id of a transaction that is over - (some answered early by a later "
                       "processor), responses, proxy errors, repeated ends, abandoned transactions, clock advances past expiry and GC "
                       "period, concurrent batches of requests / responses / errors + TLC -simulate walks of ConcurrencyP; a history is "
                       "non-trivial when a request is refused (quota exhausted) and a later request is admitted (a slot was given back); "
                       "distinct by (config, events)")
    ctx.cov["checker_cmd"] = "tlc -config MC_small.cfg MC_C02.tla ; tlc -config MC_mid.cfg MC_C02.tla ; tlc -config ConcurrencyTrace.cfg ConcurrencyTrace.tla"
    ctx.cov["trusted_base"] = ["TLC 1.8", "CommunityModules Json", "Go toolchain", "clock.MockClock (+PendingTimers)",
                               "harness/cmd/c02 projection (no early-return action = admit, 429 = refuse, 200 = answered early)",
                               "hook cq.gc.done as the completion signal of a background GC pass"]
    ctx.assumptions += ["1 tick = 1 s, 500 ms or 250 ms (engine start, admissions and GC passes then fall on sub-second clock readings; expiry and GC interval are whole seconds); the clock moves tick by tick and no operation overlaps a background GC pass (the pass due at a tick completes before the next event)",
                        "a transaction id is presented again (a new request) only after its previous transaction is over: ended by response / proxy error / early or refusing answer, or requested more than expiry + GC period ago; ids in flight are distinct; the end events of a transaction come after its request was answered",
                        "implementation-shaped model: a re-presented id does not race a GC pass, and the two critical sections of a request's Inc take less than a tick",
                        "mixed hierarchies: the fixed-window members are configured never to refuse (max 10^6 per hour), the specification sees the concurrency quotas only",
                        "the implementation-shaped model covers one quota (no hierarchy); hierarchies and multi-quota flows are covered by the recorded traces judged by ConcurrencyP",
                        "single gateway instance (no cluster liveness), in-memory shared state"]

    n = 60 if not T else 300
    jobs = [("ex", "MC_C02", "MC_small.cfg", "2 transactions, Max 1, one re-presented id, expiry + GC: Bounded, NoLeak, Quiescent, ExpiryBound, OnceOnly, HeldHasSlot")]
    if T:
        jobs.append(("ex", "MC_C02", "MC_mid.cfg", "3 transactions, Max 2, requests || releases"))
        jobs.append(("ex", "MC_C02", "MC_large.cfg", "3 transactions, Max 2, expiry + GC"))
        jobs.append(("nv", "MC_C02", variant_cfg(sd, "MC_large.cfg", "alias_gc", 3), "alias_gc"))
    jobs += [("nv", "MC_C02", variant_cfg(sd, "MC_small.cfg", v, mx), v) for v, mx in (VARIANTS if T else VARIANTS[:4])]
    jobs.append(("gen", "GenC02", "GenC02.cfg", "behaviour generation"))

    def tl(job):
        kind, mod, cfg, label = job
        if kind == "gen":
            return ctx.tlc(sd, mod, cfg, workers=1, simulate="num=%d" % n, depth=41, extra=["-seed", str(ctx.seed)], timeout=900, label=label)
        if kind == "nv":
            return ctx.tlc(sd, mod, cfg, workers=2, timeout=900, label="non-vacuity: %s must be refuted" % label)
        return ctx.tlc(sd, mod, cfg, workers=(4 if not T else 8), timeout=1500, label=label)
    from concurrent.futures import ThreadPoolExecutor
    bg = ThreadPoolExecutor(max_workers=1)
    fut = bg.submit(lambda: parallel(tl, jobs, n=2))

    seen = set()
    # (3) code -> spec, while TLC works: random scripts incl. concurrency, recorded and validated
    ncfg, nh, hl = (9, 18, 30) if not T else (24, 80, 40)
    scripts = []
    for c in range(ncfg):
        cfg = rand_config(ctx.rng, T, shape=SHAPES[c % len(SHAPES)])
        hs = [rand_history(ctx.rng, cfg, hl, conc=(i % 2 == 1)) for i in range(nh)]
        if c < len(SHAPES) or T:
            hs += late_end_histories(cfg)
            hs += hold_histories(cfg)
        hs += storm_histories(ctx.rng, cfg, 12 if not T else 25, 2 if not T else 6)
        scripts.append(script_of(cfg, hs, hooks=True))
    rtraces = execute(ctx, binary, scripts, "rand")
    ctx.sample({"kind": "recorded-trace", "events": rtraces[0][:14]})
    judge(ctx, binary, scripts, rtraces, "rand", seen)
    if not ctx.violations:
        drift_check(ctx, "rand", len(scripts))

    g = None
    for job, r in zip(jobs, fut.result()):
        kind, mod, cfg, label = job
        if kind == "ex":
            if not r.ok or r.distinct <= 1:
                raise Broken("TLC %s/%s: %r\n%s" % (mod, cfg, r, r.out[-3000:]))
            ctx.cov["states"] += r.distinct
            ctx.cov["transitions"] += r.generated
            ctx.log("TLC %s %s: %d generated / %d distinct, depth %d, %.1fs" % (mod, cfg, r.generated, r.distinct, r.depth, r.wall))
        elif kind == "nv" and r.violated is None:
            raise Broken("model variant %s is not refuted (vacuous check): %r" % (label, r))
        elif kind == "gen":
            g = r

    # (2) spec -> code: TLC walks of P replayed (Expire steps are the spec's own, not scripted)
    behaviours = tlc_vh_lines(g.out)
    if len(behaviours) < n:
        raise Broken("behaviour generation produced %d walks: %s" % (len(behaviours), g.out[-1500:]))
    flow_of = {json.dumps(fl["qs"]): f for f, fl in GEN_CONFIG["flows"].items()}
    hists = []
    for b in behaviours:
        h = [{"ev": "reset", "now": 1}]
        for e in b:
            if e["ev"] == "req":
                h.append({"ev": "req", "t": e["t"], "flow": flow_of[json.dumps(e["qs"])], "early": e["early"]})
            elif e["ev"] in ("resp", "err"):
                h.append({"ev": e["ev"], "t": e["t"]})
            elif e["ev"] == "adv":
                h.append({"ev": "adv", "d": e["d"]})
        hists.append(h)
    gscripts = [script_of(GEN_CONFIG, hists)]
    traces = execute(ctx, binary, gscripts, "gen")
    nexp = sum(1 for b in behaviours if any(e["ev"] == "expire" for e in b))
    ctx.log("replayed %d TLC behaviours (%d of them with expiry steps)" % (len(behaviours), nexp))
    ctx.sample({"kind": "tlc-behaviour", "config": {k: GEN_CONFIG[k] for k in ("Max", "Expiry", "GcPeriod", "parent")}, "events": behaviours[0][:12]})
    judge(ctx, binary, gscripts, traces, "gen", seen)

    if UNREPRODUCED and not ctx.violations:
        raise Broken("rejection(s) not reproduced: %s" % json.dumps(UNREPRODUCED[0]))
    if ctx.cov["distinct_nontrivial"] < 20 and not ctx.violations:
        raise Broken("only %d non-trivial histories" % ctx.cov["distinct_nontrivial"])

    # (4) binding self-test (thorough): a corrupted / truncated recording must be rejected
    if T and not ctx.violations:
        ev = [e for e in rtraces[0]]
        k = next(i for i, e in enumerate(ev) if e.get("ev") == "req" and e.get("out") == "refuse")
        bad = [dict(e) for e in ev]
        bad[k]["out"] = "admit"
        _, rej, _ = validate_history_trace(ctx, SPEC, "ConcurrencyTrace", bad, tag="selftest1", max_rounds=1)
        # dropping a response: the slot stays held in the spec, a later admission then exceeds the bound or a refusal is missing
        k2 = next(i for i, e in enumerate(ev) if e.get("ev") == "resp")
        drop = [e for i, e in enumerate(ev) if i != k2]
        _, rej2, _ = validate_history_trace(ctx, SPEC, "ConcurrencyTrace", drop, tag="selftest2", max_rounds=1)
        if not rej:
            raise Broken("self-test: corrupted trace accepted")
        ctx.notes.append("self-test: corrupted verdict rejected=%s, dropped response event rejected=%s" % (bool(rej), bool(rej2)))


def replay(ctx, path):
    obj = json.load(open(path))
    binary = ctx.build_harness("c02")
    t = execute(ctx, binary, obj["replay"]["script"], "replay")[0]
    acc, rej, _ = validate_history_trace(ctx, SPEC, "ConcurrencyTrace", t, tag="replay")
    for e in t:
        print(json.dumps(e))
    if rej:
        print("VIOLATION property=C02 replay=%s" % path)
        print("   rejected at event %d: %s" % (rej[0]["at"], json.dumps(rej[0]["hist"][rej[0]["at"]])))
        return 1
    print("replay accepted by the specification")
    return 0
