"""C07 - combined actions: early response wins, header edits merge last-writer-wins.

spec:     specs/c07_actions  ActionsP (property relation ReqOK/RespOK + reference fold), ActionsI (transcription of the pairwise
          tables, MergeHeaders, the SPOE encoders and the left fold), MC_C07 (alphabets), GenC07 (input space as a constant set),
          ActionsTrace (one event per executed case, judged by ReqOK/RespOK)
binding:  harness/cmd/c07 executes the real routing.getSPOEReqActions / getSPOERespActions (export_verif_c07.go) and the real
          runner.runOnRequest / runOnResponse over real remedy plugins (actions observed at verif points runner.*_action)
"""
import json, os, re
from vlib import Broken, read_ndjson
from fnjudge import judge_cases, exhaustive_parallel

SPEC = "c07_actions"
REFUTED = ["swap_merge", "modh_early_left", "resp_noop_self", "gen_modh_drop"]     # must be refuted by TLC (non-vacuity)
ACCEPTED = ["status_later", "retry_wins"]                                          # not forbidden by the statement: must pass

REQ_KINDS = ["noop", "early", "modh", "modreq", "gen"]
RESP_KINDS = ["noop", "modresp", "retry"]

HKEYS = ["a", "b", "x-id", "Authorization", "x-lunar-retry-after", "X-ID"]
HVALS = ["1", "2", "", "v w", "tok:en", "zé"]


def rand_headers(rng, maxn=3):
    ks = rng.sample(HKEYS, rng.randint(0, maxn))
    return [[k, rng.choice(HVALS)] for k in sorted(ks)]


def act(k, h=(), st=0, b="", p="", ho="", q="", rm=()):
    return {"k": k, "h": [list(x) for x in h], "st": st, "b": b, "p": p, "ho": ho, "q": q, "rm": list(rm)}


def nilify(rng, a):
    """an action that sets no header is built with a nil map (as processors do) half of the time"""
    return dict(a, nilh=True) if not a["h"] and a["k"] != "noop" and rng.random() < 0.5 else a


def rand_req_action(rng, early_w):
    x = rng.random()
    if x < 0.15:
        return act("noop")
    if x < 0.15 + early_w:
        return act("early", rand_headers(rng), rng.choice([200, 404, 429, 503]), rng.choice(["", "e1", '{"m":"GO"}']))
    k = rng.choice(["modh", "modh", "modreq", "modreq", "gen"])
    if k == "modh":
        return act("modh", rand_headers(rng))
    if k == "modreq":
        return act("modreq", rand_headers(rng), b=rng.choice(["", "", "B1", '{"k":1}']), p=rng.choice(["", "", "/p", "/p/q"]),
                   ho=rng.choice(["", "", "h.test"]), q=rng.choice(["", "", "a=1"]))
    return act("gen", rand_headers(rng), b=rng.choice(["", "G1", "{}"]), rm=rng.sample(["a", "content-length"], rng.randint(0, 2)))


def rand_resp_action(rng):
    x = rng.random()
    if x < 0.2:
        return act("noop")
    if x < 0.75:
        return act("modresp", rand_headers(rng), rng.choice([0, 200, 201, 500]), rng.choice(["", "r1", "r2"]))
    return act("retry", rand_headers(rng))


def rand_routing_case(rng, maxlen):
    n = rng.randint(0, maxlen)
    if rng.random() < 0.6:
        w = rng.choice([0.0, 0.0, 0.1, 0.3])
        return {"side": "req", "via": "routing", "seq": [nilify(rng, rand_req_action(rng, w)) for _ in range(n)]}
    return {"side": "resp", "via": "routing", "seq": [nilify(rng, rand_resp_action(rng)) for _ in range(n)]}


TOK = [["x-key", "k1"], ["x-key", "k2"], ["x-org", "o1"], ["early-response", "true"], ["x-a", "1"], ["x-a", "9"]]


def rand_runner_case(rng):
    if rng.random() < 0.65:
        rems = []
        for _ in range(rng.randint(1, 6)):
            t = rng.choice(["fixed", "fixed", "acct", "acct", "acct", "apikey", "basic", "oauth", "retry"])
            if t == "fixed":
                rems.append({"t": "fixed", "status": rng.choice([418, 429, 503])})
            elif t in ("acct", "apikey"):
                ks = {}
                for k, v in rng.sample(TOK, rng.randint(0, 3)):
                    ks[k] = v
                rems.append({"t": t, "tokens": [[k, v] for k, v in sorted(ks.items())]})
            elif t == "basic":
                rems.append({"t": "basic", "tokens": [[rng.choice(["u1", "u2"]), "pw"]]})
            elif t == "oauth":
                rems.append({"t": "oauth", "tokens": [["grant", rng.choice(["g1", "g2"])]]})
            else:
                rems.append({"t": "retry", "from": 500, "to": 599, "attempts": 3, "cooldown": 1, "mult": 2})
        hdr = {"x-a": rng.choice(["1", "7"])}
        er = rng.choice(["true", "false", None, None])
        if er:
            hdr["early-response"] = er
        return {"side": "req", "via": "runner", "remedies": rems, "headers": hdr, "body": rng.choice(["", '{"q":1}'])}
    rems = []
    for _ in range(rng.randint(1, 5)):
        t = rng.choice(["retry", "retry", "retry", "fixed", "acct"])
        if t == "retry":
            lo = rng.choice([400, 500, 500])
            rems.append({"t": "retry", "from": lo, "to": lo + 99, "attempts": rng.randint(1, 3), "cooldown": rng.randint(1, 4),
                         "mult": rng.randint(1, 3)})
        elif t == "fixed":
            rems.append({"t": "fixed", "status": 418})
        else:
            rems.append({"t": "acct", "tokens": [["x-key", "k1"]]})
    return {"side": "resp", "via": "runner", "remedies": rems, "headers": {"content-type": "text/plain"},
            "status": rng.choice([200, 404, 429, 500, 503])}


def execute(ctx, binary, cases, tag, workers=0):
    """one event per case.  The executor retains the encoded actions of every transaction and decodes them only after the whole
    batch was encoded.  workers > 0: the (routing) cases are encoded by that many concurrent goroutines."""
    d = ctx.sub("run-" + tag)
    cp, tp = os.path.join(d, "cases.json"), os.path.join(d, "trace.ndjson")
    json.dump(cases, open(cp, "w"))
    ctx.run_harness(binary, ["conc", cp, tp, str(workers)] if workers else ["run", cp, tp])
    ev = read_ndjson(tp)
    if len(ev) != len(cases):
        raise Broken("executor returned %d events for %d cases" % (len(ev), len(cases)))
    errs = [e for e in ev if e.get("ev") == "error"]
    if errs:
        raise Broken("executor could not run a case: %s" % json.dumps(errs[0]))
    return ev


def nontrivial(e):
    return sum(1 for a in e["seq"] if a["k"] != "noop") >= 2


def witness_of(e):
    kinds = [a["k"] for a in e["seq"]]
    o = e["out"]
    shown = "early" if o["early"] else "modresp" if o["modresp"] else "retry" if o["retry"] else \
        ("noop" if not o["names"] else "request-modification")
    cls = "combined-%s-action-not-permitted" % ("request" if e["ev"] == "req" else "response")
    if any(b.startswith("panic") for b in o["bad"]):
        cls = "fold-panics-no-%s-action" % ("request" if e["ev"] == "req" else "response")
    return {"class": cls, "via": e["via"], "nil_header_maps_at": e.get("nil_positions", []),
            "kinds": kinds, "result": shown, "seq": e["seq"], "out": {k: v for k, v in o.items() if k != "scopes"}}


def judge(ctx, binary, cases, events, tag, seen):
    """TLC judges the real outputs; every rejection is re-executed and re-judged before it is reported.
    A case of a history (h > 0) is re-executed with the folds that preceded it in its history (shared action objects)."""
    drift = set()
    rej = judge_cases(ctx, SPEC, "ActionsTrace", events, tag, drift=drift)
    drift -= set(rej)
    if drift:      # accepted by P but not what the implementation-shaped model computes: the exhaustive result no longer covers the code
        ctx.cov["model_drift"] = True
        ctx.notes.append("MODEL-DRIFT (%s): %d real outputs permitted by ActionsP differ from ActionsI, e.g. %s" % (
            tag, len(drift), json.dumps(events[min(drift)])[:500]))
    ctx.cov["evaluations"] += len(events)
    ctx.cov["traces_validated_against_impl"] += len(events) - len(rej)
    for e in events:
        key = json.dumps([e["ev"], e["via"], e["seq"]], sort_keys=True)
        if key not in seen:
            seen.add(key)
            if nontrivial(e):
                ctx.cov["distinct_nontrivial"] += 1
    done_h, last = set(), -100
    for i in rej[:40]:
        h = cases[i].get("h", 0)
        if (h and h in done_h) or i < last + 40:
            continue
        done_h.add(h)
        last = i
        j = i
        while h and j > 0 and cases[j - 1].get("h", 0) == h:
            j -= 1
        # the case with what preceded it in its history and with the transactions encoded after it (their encoding must not
        # change what was handed back for this one)
        hids = {}
        hist = [dict(c, id=k, h=hids.setdefault(c.get("h", 0), len(hids) + 1) if c.get("h", 0) else 0)
                for k, c in enumerate(cases[j:i + 40])]
        ev2 = execute(ctx, binary, hist, tag + "-repro")
        r2 = judge_cases(ctx, SPEC, "ActionsTrace", ev2, tag + "-repro")
        if not r2:
            raise Broken("rejection not reproduced (%s): %s" % (tag, json.dumps(events[i])[:800]))
        n = r2[0]
        w = witness_of(ev2[n])
        if not ev2[n].get("stable", True):
            w["class"] += "-encoded-actions-changed-after-later-transactions-were-encoded"
        elif h:
            w["class"] += "-in-a-history-of-folds-over-shared-action-objects"
            w["folds_before"] = [[a["k"] for a in c["seq"]] for c in hist[:n] if c.get("h")]
        ctx.violation(w, {"history": hist, "events": ev2, "rejected": r2})
    return rej


def judge_conc(ctx, binary, cases, workers, seen):
    """the encoders called from concurrent goroutines; every transaction judged on its own by ActionsTrace"""
    events = execute(ctx, binary, cases, "conc", workers=workers)
    rej = judge_cases(ctx, SPEC, "ActionsTrace", events, "conc")
    ctx.cov["evaluations"] += len(events)
    ctx.cov["traces_validated_against_impl"] += len(events) - len(rej)
    if rej:
        for attempt in range(20):
            ev2 = execute(ctx, binary, cases, "conc-repro", workers=workers)
            r2 = judge_cases(ctx, SPEC, "ActionsTrace", ev2, "conc-repro")
            if r2:
                w = witness_of(ev2[r2[0]])
                w["class"] += "-under-concurrent-encoding"
                w["workers"], w["attempts"] = workers, attempt + 1
                ctx.violation(w, {"conc": cases, "workers": workers, "event": ev2[r2[0]]})
                break
        else:
            raise Broken("concurrent rejection not reproduced in 20 attempts: %s" % json.dumps(events[rej[0]])[:600])
    return events, rej


def rand_history(rng):
    """a few folds over one small pool of actions: the same action values (= the same objects) recur within and across folds"""
    side = rng.choice(["req", "req", "resp"])
    mk = (lambda: rand_req_action(rng, rng.choice([0.0, 0.0, 0.15]))) if side == "req" else (lambda: rand_resp_action(rng))
    pool = [mk() for _ in range(rng.randint(2, 5))]
    if rng.random() < 0.5 and len(pool) >= 2:          # two different actions configured with the same header map
        pool[1] = dict(pool[1], h=pool[0]["h"]) if pool[1]["k"] != "noop" else pool[1]
    return [{"side": side, "via": "routing", "seq": [rng.choice(pool) for _ in range(rng.randint(1, 5))]} for _ in range(rng.randint(2, 5))]


def run(ctx):
    T = ctx.thorough
    binary = ctx.build_harness("c07")
    sd = ctx.spec_dir(SPEC)
    ctx.cov["rule"] = ("a case = one sequence of request (or response) actions folded and encoded by the real code; cases = every sequence "
                       "over the model's action alphabet up to the generation length (TLC constant set) + seeded random sequences over "
                       "richer header maps / bodies / paths + seeded random remedy lists run through the real plugins; a case is "
                       "non-trivial when at least two of its actions are not no-ops; distinct by (side, entry point, sequence)")
    ctx.cov["checker_cmd"] = "tlc -config MC_small4_none.cfg MC_C07.tla ; tlc -config GenC07_small.cfg GenC07.tla ; tlc -config ActionsTrace.cfg ActionsTrace.tla"
    ctx.cov["trusted_base"] = ["TLC 1.8", "CommunityModules Json", "Go toolchain",
                               "harness/cmd/c07 decoding of action.Actions (name -> field, DumpHeaders inverted by splitting lines at the first ':')",
                               "snapshot of the plugin actions at verif points runner.req_action / runner.resp_action"]
    ctx.assumptions += ["header names are compared case-sensitively as the code's maps do; names contain no ':' and values no newline",
                        "which kind of request modification results, which body/path/host/query/status a merged modification carries, "
                        "how Retry ranks against ModifyResponse and how retries merge are not fixed by the statement and are left open"]

    # (1) exhaustive I => P; broken variants must be refuted, variants the statement does not forbid must pass
    runs = [("MC_small4_none.cfg", "I=>P: every sequence up to length 4, small alphabet", None)] if not T else \
           [("MC_large.cfg", "I=>P: every sequence up to length 4, large alphabet", None),
            ("MC_small6_none.cfg", "I=>P: every sequence up to length 6, small alphabet", None)]
    runs += [("MC_small_%s.cfg" % b, "non-vacuity: %s must be refuted" % b, "Conforms") for b in REFUTED]
    runs += [("MC_small_%s.cfg" % b, "permissiveness: %s must be accepted" % b, "accepted") for b in ACCEPTED]
    exhaustive_parallel(ctx, sd, "MC_C07", runs, workers=4 if not T else 8, par=7 if not T else 3)

    # non-vacuity witness: every cell of the 5x5 and 3x3 tables was evaluated by the exploration
    r = ctx.tlc(sd, "MC_C07", "MC_small_cov.cfg", workers=1, timeout=300, label="table-cell coverage witness")
    cells = set(re.findall(r'<<"(req|resp)", "(\w+)", "(\w+)">>', r.out))
    want = {("req", x, y) for x in REQ_KINDS for y in REQ_KINDS} | {("resp", x, y) for x in RESP_KINDS for y in RESP_KINDS}
    if not r.ok or cells != want:
        raise Broken("table cells never evaluated by the model (vacuous): %s  %r" % (sorted(want - cells), r))
    ctx.notes.append("model exploration evaluated all %d cells of the request table and all %d cells of the response table" % (
        len(REQ_KINDS) ** 2, len(RESP_KINDS) ** 2))

    seen = set()
    # (2) spec -> code: the whole bounded input space, generated by TLC with the reference result, replayed
    gcfg = "GenC07_small.cfg" if not T else "GenC07_small4.cfg"
    gens = [gcfg] + (["GenC07_large.cfg"] if T else [])
    total_gen = 0
    for gi, g in enumerate(gens):
        gd = ctx.spec_dir(SPEC, fresh=False)
        r = ctx.tlc(gd, "GenC07", g, workers=1, timeout=900, label="case generation %s" % g)
        path = os.path.join(gd, "gen_cases.json")
        if not r.ok or not os.path.exists(path):
            raise Broken("case generation failed: %r\n%s" % (r, r.out[-2000:]))
        cases = json.load(open(path))["cases"]
        os.remove(path)
        for i, c in enumerate(cases):
            c["id"] = i
        refs = [c.pop("ref") for c in cases]
        events = execute(ctx, binary, cases, "gen%d" % gi)
        agree = 0
        for e, ref in zip(events, refs):
            o = e["out"]
            hdr = o["rh"] if ref["k"] in ("early", "modresp") else o["th"] if ref["k"] == "retry" else o["qh"]
            agree += sorted(map(tuple, hdr)) == sorted(map(tuple, ref["h"]))
        rej = judge(ctx, binary, cases, events, "gen%d" % gi, seen)
        total_gen += len(cases)
        ctx.log("replayed %d generated cases (%s): %d rejected by the spec; headers equal to the reference fold in %d" % (
            len(cases), g, len(rej), agree))
        if gi == 0:
            k = next(i for i, e in enumerate(events) if nontrivial(e) and e["out"]["names"])
            ctx.sample({"kind": "generated-case", "seq": events[k]["seq"], "reference": refs[k], "real_out": events[k]["out"]})
            gen_events, gen_rejected = events, set(rej)
            gen_cases_first = cases
    ctx.cov["exhaustive"] = True
    ctx.notes.append("generated input space replayed completely: %d cases" % total_gen)

    # (2a) the generated cases in which some action sets no header, again with those header maps nil instead of empty (processors
    # build such actions with a nil map): nil / empty / non-empty in every position of every table cell
    nc = [dict(c, nil_empty=True) for c in gen_cases_first if any(a["k"] != "noop" and not a["h"] for a in c["seq"])]
    for i, c in enumerate(nc):
        c["id"] = i
    events = execute(ctx, binary, nc, "gennil")
    rej = judge(ctx, binary, nc, events, "gennil", seen)
    ctx.log("generated cases with nil header maps: %d, %d rejected" % (len(nc), len(rej)))
    ctx.notes.append("generated cases re-executed with nil instead of empty header maps: %d" % len(nc))

    # (2b) histories: the generated cases again, in seeded random order, five folds per history drawing their actions from one
    # pool (equal values = the same action instance / the same header map object), then random histories over small pools.
    # Each fold is judged on its own: its result may depend only on the values of its sequence.
    hc = [dict(c) for c in gen_cases_first]
    ctx.rng.shuffle(hc)
    nh = (len(hc) + 4) // 5
    for i, c in enumerate(hc):
        c["id"], c["h"] = i, 1 + i // 5
    for k in range(300 if not T else 3000):
        for c in rand_history(ctx.rng):
            hc.append(dict(c, id=len(hc), h=nh + 1 + k))
    events = execute(ctx, binary, hc, "hist")
    rej = judge(ctx, binary, hc, events, "hist", seen)
    reuse = sum(1 for c in hc if len({json.dumps(a, sort_keys=True) for a in c["seq"]}) < len(c["seq"]))
    ctx.log("histories over shared action objects: %d folds in %d histories (%d folds repeat an action instance), %d rejected" % (
        len(hc), hc[-1]["h"], reuse, len(rej)))
    ctx.notes.append("histories of folds over shared action instances / header maps: %d folds, %d with a repeated instance" % (len(hc), reuse))

    # (3) code -> spec: seeded random sequences through routing, seeded random remedy lists through the runner fold
    n_rt, n_rn, maxlen = (1500, 600, 7) if not T else (12000, 5000, 9)
    cases = [rand_routing_case(ctx.rng, maxlen) for _ in range(n_rt)] + [rand_runner_case(ctx.rng) for _ in range(n_rn)]
    for i, c in enumerate(cases):
        c["id"] = i
    events = execute(ctx, binary, cases, "rand")
    rej = judge(ctx, binary, cases, events, "rand", seen)
    kinds = {}
    for e in events:
        if e["via"] == "runner":
            for a in e["seq"]:
                kinds[a["k"]] = kinds.get(a["k"], 0) + 1
    for need in ("early", "modreq", "gen", "modresp", "noop"):
        if not kinds.get(need):
            raise Broken("runner cases never produced a %s action (vacuous runner binding): %s" % (need, kinds))
    ctx.log("random: %d routing + %d runner cases, %d rejected; plugin actions observed: %s" % (n_rt, n_rn, len(rej), kinds))
    k = next(i for i, e in enumerate(events) if e["via"] == "runner" and nontrivial(e))
    ctx.sample({"kind": "runner-case", "remedies": events[k]["remedies"], "observed_actions": events[k]["seq"], "real_out": events[k]["out"]})

    # (3b) the encoders under concurrent transactions: seeded random sequences (every kind of result on both sides) encoded by
    # 8 goroutines, each transaction's retained actions read when its goroutine is done
    cc = [rand_routing_case(ctx.rng, 5) for _ in range(3000 if not T else 30000)]
    for i, c in enumerate(cc):
        c["id"] = i
    cev, crej = judge_conc(ctx, binary, cc, 8, seen)
    kinds_out = {}
    for e in events + cev:
        o = e["out"]
        k = "early" if o["early"] else "modresp" if o["modresp"] else "retry" if o["retry"] else "gen" if o["gen"] else \
            "modreq" if o["modreq"] else "modh" if o["names"] else "noop"
        kinds_out[k] = kinds_out.get(k, 0) + 1
    if not ctx.violations and any(not kinds_out.get(k) for k in ("early", "modresp", "retry", "gen", "modreq", "modh", "noop")):
        raise Broken("a kind of encoded result never occurred (vacuous): %s" % kinds_out)
    unstable = sum(1 for e in events + cev if not e.get("stable", True))
    ctx.log("concurrent encoding: %d transactions by 8 goroutines, %d rejected; encoded results by kind %s; results that changed after "
            "the call returned: %d" % (len(cc), len(crej), kinds_out, unstable))
    ctx.notes.append("every transaction's encoded actions are retained and decoded only after the whole batch (and, concurrently, the "
                     "goroutine's share) was encoded")

    # (4) binding self-test: corrupted recordings of accepted cases must be rejected by the spec
    src = [e for i, e in enumerate(gen_events) if nontrivial(e) and i not in gen_rejected]
    def pick(pred):
        return next((json.loads(json.dumps(x)) for x in src if pred(x)), None)
    bad = []
    e = pick(lambda x: x["ev"] == "req" and not x["out"]["early"] and x["out"]["qh"])
    if e:
        e["out"]["qh"] = e["out"]["qh"][:-1]; bad.append(("lost header edit", e))
    e = pick(lambda x: x["out"]["early"])
    if e:
        e["out"]["st"] += 1; bad.append(("changed early status", e))
    e = pick(lambda x: x["ev"] == "resp" and x["out"]["modresp"])
    if e:
        e["out"] = dict(e["out"], names=[], modresp=False); bad.append(("no-op displacing a modification", e))
    a, b = pick(lambda x: x["ev"] == "req" and not x["out"]["early"] and x["out"]["qh"]), pick(lambda x: x["out"]["early"])
    if a and b:
        a["out"] = b["out"]; bad.append(("outputs of two cases swapped", a))
    if len(bad) < 4 and not ctx.violations:
        raise Broken("binding self-test: no accepted case to corrupt (%d of 4 built)" % len(bad))
    for i, (_, e) in enumerate(bad):
        e["id"] = i
    rj = judge_cases(ctx, SPEC, "ActionsTrace", [e for _, e in bad], "selftest")
    if rj != list(range(len(bad))):
        raise Broken("binding self-test: corrupted events accepted by the spec: %s" % [bad[i][0] for i in range(len(bad)) if i not in rj])
    ctx.notes.append("self-test: corrupted events rejected: %s" % ", ".join(n for n, _ in bad))


    if ctx.cov["model_drift"]:        # DESIGN.md 2.5: the exhaustive result is then not counted as covering the code
        ctx.cov["states"] = ctx.cov["transitions"] = 0


def replay(ctx, path):
    obj = json.load(open(path))
    binary = ctx.build_harness("c07")
    r = obj["replay"]
    if "conc" in r:
        for attempt in range(20):
            ev = execute(ctx, binary, r["conc"], "replay", workers=r["workers"])
            if judge_cases(ctx, SPEC, "ActionsTrace", ev, "replay"):
                break
        ev = [e for i, e in enumerate(ev) if i in set(judge_cases(ctx, SPEC, "ActionsTrace", ev, "replay2"))][:3] or ev[:1]
    else:
        ev = execute(ctx, binary, r.get("history") or [r["case"]], "replay")
    for e in ev:
        print(json.dumps(e))
    rj = judge_cases(ctx, SPEC, "ActionsTrace", ev, "replay")
    if rj:
        print("VIOLATION property=C07 replay=%s" % path)
        print("   the specification (ActionsP) does not permit the output of fold %s of this history for its sequence" % rj)
        return 1
    print("replay accepted by the specification")
    return 0
