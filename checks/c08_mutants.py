#!/usr/bin/env python3
"""Development tool (not part of any verdict): mutation campaign for C08 (BUILDING.md "Mutation testing").

  git -C /repo worktree add --detach /tmp/wt-c08 HEAD
  python3 checks/c08_mutants.py [mutant-name ...]        # default: all
  git -C /repo worktree remove --force /tmp/wt-c08 ; rm -rf /tmp/verif-alt-*

Applies one mutant at a time to the scratch worktree, builds it, runs the repository's own tests of the touched
packages (tag off), runs  VERIF_REPO=/tmp/wt-c08 bin/check C08  and prints the exit code (M* must give 1, B* 0).
M13 (a failing HAProxy registration is only logged) keeps disk and engine consistent: not a C08 violation, expected 0."""
import os, subprocess, sys, json, time
WT = "/tmp/wt-c08"
ENG = WT + "/proxy/src/services/lunar-engine"
HDM = ENG + "/routing/handling_data_manager.go"
GFS = ENG + "/config/gateway_file_system.go"
ENV = dict(os.environ, GOFLAGS="-mod=mod", GOPROXY="off", GOSUMDB="off", GOTOOLCHAIN="local")

CFG_HANDLER_START = "func (rd *HandlingDataManager) handleConfiguration()"

def in_cfg_handler(s, old, new, count=1):
    i = s.index(CFG_HANDLER_START)
    head, tail = s[:i], s[i:]
    assert tail.count(old) >= 1, old
    return head + tail.replace(old, new, count)

RESTORE_BLOCK = '''			if err = fileSystemOperations.Restore(); err != nil {
				log.Error().Err(err).Msg("Failed to restore file system operations")
			}
'''

MUTANTS = {
  # --- DESIGN §11
  "M1-backup-skipped": [(HDM, lambda s: in_cfg_handler(s, '''		if err := fileSystemOperations.Backup(); err != nil {
			handleError(writer, "Failed to backup", http.StatusInternalServerError, err)
			return
		}
''', ''))],
  "M2-restore-only-after-reload-failure": [(HDM, lambda s: in_cfg_handler(s, '''				http.StatusInternalServerError, err)
''' + RESTORE_BLOCK, '''				http.StatusInternalServerError, err)
'''))],
  "M3-dry-run-validation-skipped": [(HDM, lambda s: s.replace('''	if err := rd.processFlowsValidation(); err != nil {
		return err
	}

	err := rd.initializeStreams()''', '''	err := rd.initializeStreams()'''))],
  # --- the four defects that were repaired (reverts)
  "M4-restore-wrong-direction": [(GFS, lambda s: s.replace("fs.backUp.GetDiff(fileSystemSnapshot.dataMD5)", "fileSystemSnapshot.GetDiff(fs.backUp.dataMD5)"))],
  "M5-publish-before-initialize": [(HDM, lambda s: s.replace('''	stream.WithHub(rd.lunarHub)
''', '''	rd.stream = stream
	stream.WithHub(rd.lunarHub)
'''))],
  "M6-405-continues": [(HDM, lambda s: in_cfg_handler(s, '''				http.StatusMethodNotAllowed,
			)
			return
''', '''				http.StatusMethodNotAllowed,
			)
'''))],
  "M7-apply-flows-no-restore-after-reload-failure": [(HDM, lambda s: s.replace('''			if err = rd.reloadFlows(); err != nil {
				log.Error().Err(err).Msg("Failed to reload flows after restore")
			}
			return
''', '''			return
''', 1).replace('''			handleError(writer, err.Error(), http.StatusUnprocessableEntity, err)
''' + RESTORE_BLOCK, '''			handleError(writer, err.Error(), http.StatusUnprocessableEntity, err)
''', 1))],
  # --- own mutants: need a specific payload / failure step
  "M8-restore-keeps-added-files": [(GFS, lambda s: s.replace('''		if _, existed := fs.backUp.data[path]; !existed {''', '''		if _, existed := fs.backUp.data[path]; !existed && false {'''))],
  "M9-restore-skips-removed-files": [(GFS, lambda s: s.replace('''		if dataMD5[key] != value {''', '''		if cur, ok := dataMD5[key]; ok && cur != value {'''))],
  "M10-no-reload-after-restore": [(HDM, lambda s: in_cfg_handler(s, '''			if err = rd.reloadFlows(); err != nil {
				log.Error().Err(err).Msg("Failed to reload flows after restore")
			}
''', ''))],
  "M11-backup-after-save": [(HDM, lambda s: in_cfg_handler(in_cfg_handler(s, '''		if err := fileSystemOperations.Backup(); err != nil {
			handleError(writer, "Failed to backup", http.StatusInternalServerError, err)
			return
		}

		if err := incomingData.ParsePayload(); err != nil {''', '''		if err := incomingData.ParsePayload(); err != nil {'''), '''		if err := rd.reloadFlows(); err != nil {
			handleError(writer, err.Error(), http.StatusUnprocessableEntity, err)''', '''		if err := fileSystemOperations.Backup(); err != nil {
			handleError(writer, "Failed to backup", http.StatusInternalServerError, err)
			return
		}

		if err := rd.reloadFlows(); err != nil {
			handleError(writer, err.Error(), http.StatusUnprocessableEntity, err)'''))],
  "M12-restore-only-first-file": [(GFS, lambda s: s.replace('''	for path, content := range fs.backUp.GetDiff(fileSystemSnapshot.dataMD5) {
		if err := fs.storeFileOnDisk(path, content); err != nil {
			return err
		}
	}
''', '''	for path, content := range fs.backUp.GetDiff(fileSystemSnapshot.dataMD5) {
		if err := fs.storeFileOnDisk(path, content); err != nil {
			return err
		}
		break
	}
'''))],
  "M13-swap-on-haproxy-failure-only-logged": [(HDM, lambda s: s.replace('''	if err != nil {
		return fmt.Errorf("failed to initialize HAProxy endpoints: %v", err)
	}
''', '''	if err != nil {
		log.Error().Err(err).Msg("failed to initialize HAProxy endpoints")
	}
'''))],
  "M14-metrics-file-not-backed-up": [(GFS, lambda s: s.replace('''			metricsConfigFileKey: environment.GetUserMetricsConfigFilePath(),
''', ''))],
  "M15-metrics-config-saved-to-default-path": [(GFS, lambda s: s.replace('''	filePath := fs.files[metricsConfigFileKey]
	if filePath == "" {''', '''	filePath := ""
	if filePath == "" {'''))],
  "M17-no-restore-when-metrics-reload-failed": [(HDM, lambda s: in_cfg_handler(s, '''			handleError(writer, err.Error(), http.StatusUnprocessableEntity, err)
			if err = fileSystemOperations.Restore(); err != nil {''', '''			handleError(writer, err.Error(), http.StatusUnprocessableEntity, err)
			if len(err.Error()) > 30 && err.Error()[:30] == "failed to load metrics config:" {
				return
			}
			if err = fileSystemOperations.Restore(); err != nil {'''))],
  "M19-restore-removes-added-files-only-in-flows-dir": [(GFS, lambda s: s.replace('''		if _, existed := fs.backUp.data[path]; !existed {''', '''		if _, existed := fs.backUp.data[path]; !existed && filepath.Base(filepath.Dir(path)) == "flows" {'''))],
  # --- benign variants: must stay silent
  "B1-restore-rewrites-every-backed-up-file": [(GFS, lambda s: s.replace('''	for path, content := range fs.backUp.GetDiff(fileSystemSnapshot.dataMD5) {''', '''	for path, content := range fs.backUp.data {'''))],
  "B2-metrics-saved-first": [(ENG + "/streams/config/flows_payload.utils.go", lambda s: s.replace('''	if err := applyFlows.saveFlows(fileSysOp); err != nil {
		return err
	}

	if err := applyFlows.saveQuotas(fileSysOp); err != nil {''', '''	if err := applyFlows.saveMetricsConfig(fileSysOp); err != nil {
		return err
	}

	if err := applyFlows.saveFlows(fileSysOp); err != nil {
		return err
	}

	if err := applyFlows.saveQuotas(fileSysOp); err != nil {'''))],
  "B3-validation-failure-answers-400": [(HDM, lambda s: in_cfg_handler(s, '''			handleError(writer, err.Error(), http.StatusUnprocessableEntity, err)''', '''			handleError(writer, err.Error(), http.StatusBadRequest, err)'''))],
  "B4-swap-under-mutex": [(HDM, lambda s: s.replace('''	rd.stream = stream
	verifhook.Point("hdm.published")''', '''	rd.handlingSwapLock.Lock()
	rd.stream = stream
	rd.handlingSwapLock.Unlock()
	verifhook.Point("hdm.published")''').replace('''	handlingLock     sync.Mutex
''', '''	handlingLock     sync.Mutex
	handlingSwapLock sync.Mutex
'''))],
  "B5-restore-removes-added-files-first": [(GFS, lambda s: (lambda a, b: s.replace(a + "\n" + b, b + "\n" + a))(
      '''	// Files that were changed or removed since the backup get their backed-up content back.
	for path, content := range fs.backUp.GetDiff(fileSystemSnapshot.dataMD5) {
		if err := fs.storeFileOnDisk(path, content); err != nil {
			return err
		}
	}
''', '''	// Files that did not exist when the backup was taken are removed.
	for path := range fileSystemSnapshot.data {
		if _, existed := fs.backUp.data[path]; !existed {
			if err := fs.cleanUpFile(path); err != nil {
				return err
			}
		}
	}
'''))],
}


def sh(cmd, cwd=None, env=None, timeout=3000):
    p = subprocess.run(cmd, shell=True, cwd=cwd, env=env or ENV, stdout=subprocess.PIPE, stderr=subprocess.STDOUT, text=True, timeout=timeout)
    return p.returncode, p.stdout


def main():
    names = sys.argv[1:] or list(MUTANTS)
    results = {}
    for name in names:
        sh("git checkout -q -- .", cwd=WT)
        changed = True
        for path, fn in MUTANTS[name]:
            s = open(path).read()
            t = fn(s)
            if t == s:
                changed = False
            open(path, "w").write(t)
        if not changed:
            print(name, "NOT APPLIED"); results[name] = "not-applied"; continue
        rc, out = sh("go build ./... && go vet -tags verif ./routing/ ./config/ >/dev/null 2>&1; go test -vet=off -count=1 ./config/ ./routing/ ./streams/config/ 2>&1 | tail -4", cwd=ENG)
        tests_ok = rc == 0 and "FAIL" not in out
        t0 = time.time()
        rc, out = sh("VERIF_REPO=%s bin/check C08 2>&1 | tail -12" % WT, cwd="/verif", env=dict(os.environ))
        first = [l for l in out.splitlines() if "VIOLATION" in l or "BROKEN" in l or "MODEL-DRIFT" in l or "witness" in l or "done rc" in l]
        code = "?"
        for l in out.splitlines():
            if "done rc=" in l:
                code = l.split("done rc=")[1].split()[0]
            if l.startswith("BROKEN"):
                code = "2"
        results[name] = {"tests_pass": tests_ok, "exit": code, "wall": round(time.time() - t0)}
        print("=====", name, results[name], flush=True)
        for l in first[:7]:
            print("   ", l[:300], flush=True)
    sh("git checkout -q -- .", cwd=WT)
    print(json.dumps(results, indent=1))


main()
