"""GATEWAY - composition of the property specifications of C03 (flow / quota selection: FilterP + UrlPattern), C04 (graph walk),
C01 / C02 (quota state) and C07 (the answer) over whole-engine histories (growth item, DESIGN.md section 5 / 13).
Not one of the listed properties: `bin/check GATEWAY` validates recorded histories of a real flows-mode engine with several flows
(filters with path parameters, wildcards, method / header / query-parameter / status constraints), Limiters on fixed-window and
concurrency quotas whose own filters use the same patterns, conditional branches and answering processors against specs/gateway.

spec:     specs/gateway  GatewayP (composition), GatewayTrace (trace validation; instantiates FilterP, FlowGraphP, FixedWindowP, ConcurrencyP)
binding:  harness/cmd/gateway drives one real engine per configuration through histories of requests / responses / proxy errors / clock advances
"""
import json, os, shutil
from vlib import Broken, read_ndjson, parallel, split_histories, VERIF
import _flowgraph as fg

SPEC = "gateway"
LEVEL = "model_checking"
HOST = ["g", "test"]
LITS = ["x", "y", "z"]
# url patterns of flows and quotas: exact, path parameters (named by position, as the loader requires), trailing wildcards
PATHS = [["*"], ["*"], ["x"], ["y"], ["{p}"], ["x", "*"], ["x", "{q}"], ["x", "y"], ["{p}", "z"], ["x", "y", "*"], []]
METHODS = ["GET", "POST", "PUT"]
HVALS = ["v1", "v2", "V1", "zz"]


def render(u):
    return ".".join(u[0]) + ("/" + "/".join(u[1]) if u[1] else "")


# ------------------------------------------------------------------------------------------------ YAML
def filter_yaml(f, ind):
    pad = " " * ind
    s = "%surl: %s\n" % (pad, json.dumps(render(f["pat"])))
    if f["m"]:
        s += "%smethod: [%s]\n" % (pad, ", ".join(json.dumps(m) for m in f["m"]))
    if f["h"]:
        s += "%sheaders:\n" % pad + "".join("%s  - key: %s\n%s    value: %s\n" % (pad, json.dumps(k), pad, json.dumps(v)) for k, v in f["h"])
    if f["q"]:
        s += "%squery_params:\n" % pad + "".join("%s  - key: %s\n%s    value: %s\n" % (pad, json.dumps(k), pad, json.dumps(v)) for k, v in f["q"])
    if f["s"]:
        s += "%sstatus_code: [%s]\n" % (pad, ", ".join(str(c) for c in f["s"]))
    return s


def proc_yaml(p, limq, status, seth, extra):
    k, kind = p["key"], p["kind"]
    s = "  %s:\n" % k
    if k in extra["RCache"]:
        s += "    processor: ReadCache\n    parameters:\n      - key: caching_key_parts\n        value: [\"$.request.headers.%s\"]\n" % extra["RCache"][k]
    elif k in extra["WCache"]:
        s += ("    processor: WriteCache\n    parameters:\n      - key: caching_key_parts\n        value: [\"$.request.headers.%s\"]\n"
              "      - key: ttl_seconds\n        value: %d\n" % (extra["WCache"][k], extra["CacheTtl"]))
    elif k in extra["StRange"]:
        s += "    processor: Filter\n    parameters:\n      - key: status_code_range\n        value: \"%d-%d\"\n" % tuple(extra["StRange"][k])
    elif k in extra["RetryA"]:
        s += ("    processor: Retry\n    parameters:\n      - key: attempts\n        value: %d\n      - key: cooldown_between_attempts_seconds\n        value: 0\n"
              "      - key: cooldown_multiplier\n        value: 0\n" % extra["RetryA"][k])
    elif k in seth:
        side, name, value = seth[k]
        s += ("    processor: TransformAPICall\n    parameters:\n      - key: set\n        value:\n          '$.%s.headers[\"%s\"]': \"%s\"\n"
              % ("request" if side == "req" else "response", name, value))
    elif kind == "Cond":
        s += "    processor: Filter\n    parameters:\n      - key: header\n        value: \"x-%s=1\"\n" % k.lower()
    elif kind == "Plain":
        s += "    processor: UserDefinedMetrics\n    parameters:\n      - key: metric_name\n        value: \"m_%s\"\n" % k
    elif kind == "Gen":
        s += "    processor: GenerateResponse\n    parameters:\n      - key: status\n        value: %d\n      - key: body\n        value: %s\n      - key: Content-Type\n        value: text/plain\n" % (status[k], k)
    elif kind == "Lim":
        s += "    processor: Limiter\n    parameters:\n      - key: quota_id\n        value: %s\n" % limq[k]
    return s


def flow_yaml(fl, limq, status, seth, extra):
    s = "name: %s\nfilter:\n%sprocessors:\n" % (fl["name"], filter_yaml(fl, 2))
    for p in fl["procs"]:
        s += proc_yaml(p, limq, status, seth, extra)
    s += "flow:\n"
    for d, key in (("request", "req"), ("response", "res")):
        if not fl[key]:
            s += "  %s: []\n" % d
            continue
        s += "  %s:\n" % d
        for c in fl[key]:
            s += "    - from:\n" + fg._end_yaml(c["f"], 8) + "      to:\n" + fg._end_yaml(c["t"], 8)
    return s


def quota_yaml(quotas):
    s = "quotas:\n"
    for q in quotas:
        s += "  - id: %s\n    filter:\n%s    strategy:\n" % (q["id"], filter_yaml(q, 6))
        if q["kind"] == "fixed":
            s += "      fixed_window:\n        max: %d\n        interval: %d\n        interval_unit: second\n" % (q["max"], q["w"] // 2)
        else:
            s += ("      concurrent:\n        max_request_count: %d\n        request_expiration_sec: %d\n        gc_interval_sec: %d\n"
                  % (q["max"], q["exp"] // 2, q["gc"] // 2))
    return s


# ------------------------------------------------------------------------------------------------ configurations
def rand_filter(rng, path, rich, status_ok):
    f = {"pat": [HOST, path], "m": [], "h": [], "q": [], "s": []}
    if rich and rng.random() < 0.25:
        f["m"] = sorted(rng.sample(METHODS[:2], rng.choice([1, 1, 2])))
    if rich and rng.random() < 0.2:
        f["h"] = [["X-Key", v] for v in sorted(rng.sample(["v1", "v2"], rng.choice([1, 1, 2])))]
    if rich and rng.random() < 0.15:
        f["q"] = [["k", rng.choice(["1", "2"])]]
    if rich and status_ok and rng.random() < 0.5:
        f["s"] = sorted(rng.sample([200, 404, 500], rng.choice([1, 2])))
    return f


# directed families: interactions the random draw meets too rarely (each is still a seeded random member of its family)
FORCED = {
    # a Limiter on a concurrency quota whose own filter does not cover the flow (G2), in front of a cache: a cached answer must give
    # the slot back although no releasing system flow will ever run for it
    "g2cache": {"quotas": [("conc", ["y"])], "plan": [("limcache", ["x"])], "cache": True},
    # two flows with a Retry processor each on the urls of one sequence, a Limiter in front of one of them
    "tworetry": {"quotas": [("fixed", ["*"])], "plan": [("limretry", ["x"]), ("retry", ["*"])], "cache": False},
    # an answering Limiter flow next to a caching flow (G7), and a set rule ahead of both
    "limcachetwo": {"quotas": [("fixed", ["*"])], "plan": [("lim", ["x"]), ("cache", ["*"]), ("set", ["x", "*"])], "cache": True},
}


def rand_config(rng, n, force=None):
    """1-3 user flows and 1-2 quotas (fixed window / concurrency) over url patterns with path parameters and wildcards, method / header /
    query-parameter (and, in configurations without answering processors, status-code) constraints; flows built from templates: Limiter
    with answering above-limit branch, conditional answer, plain processors, random graphs."""
    quotas = []
    # Configurations with status-code filters have no answering processor: an early response is selected for again as a response
    # that does not exist yet and a status-code filter then dereferences nil (observation G4, DESIGN.md section 14)
    fc = FORCED.get(force)
    with_status = rng.random() < 0.25 and not fc
    for i in range(rng.randint(1, 2) if not fc else len(fc["quotas"])):
        # at most one concurrency quota per configuration (ConcurrencyP judges one Request per transaction)
        kind = rng.choice(["fixed", "conc"]) if not any(q["kind"] == "conc" for q in quotas) else "fixed"
        if fc:
            kind = fc["quotas"][i][0]
        # a concurrency quota mostly covers the whole host; otherwise (observation G2) a Limiter that refers to it from a flow outside the
        # quota's filter takes slots that no response releases - the releasing system flow hangs on the quota's filter
        if kind == "conc":
            q = rand_filter(rng, ["*"] if rng.random() < 0.65 else rng.choice(PATHS), False, False)
        else:
            q = rand_filter(rng, rng.choice(PATHS), True, False)
        if fc:
            q = rand_filter(rng, fc["quotas"][i][1], False, False)
        q.update({"id": "q%d%d" % (n, i), "kind": kind, "max": rng.randint(1, 3), "w": rng.choice([4, 6, 8]),
                  "exp": rng.choice([4, 6, 8]), "gc": rng.choice([2, 4])})
        quotas.append(q)
    flows, limq, status, st, seth = [], {}, {}, 430, {}
    extra = {"StRange": {}, "RetryA": {}, "RCache": {}, "WCache": {}, "CacheTtl": rng.choice([2, 3]), "CacheJoin": []}
    # one caching flow at most (XCacheP is the specification of one cache); such configurations carry no response-side set rules
    # (WriteCache stores the response as edited by the processors that ran before it)
    with_cache = (not with_status and rng.random() < 0.3) if not fc else fc["cache"]

    def retry_side(k):
        """response side  Filter(status 500-599) -hit-> Retry -retry/failed-> end  (the documented way to say which statuses are retried)"""
        extra["StRange"][k("X")] = [500, 599]
        extra["RetryA"][k("Y")] = rng.randint(1, 3)
        return ([(k("X"), "Cond"), (k("Y"), "Retry")],
                [fg.conn(fg.S("start"), fg.P(k("X"))), fg.conn(fg.P(k("X"), "hit"), fg.P(k("Y"))), fg.conn(fg.P(k("X"), "miss"), fg.S("end")),
                 fg.conn(fg.P(k("Y"), "retry"), fg.S("end")), fg.conn(fg.P(k("Y"), "failed"), fg.S("end"))])

    def rset(key, side):
        if side == "res" and with_cache:
            return
        # a TransformAPICall with one "set" rule on a request / response header; two names, so that rules of different processors
        # and flows meet on one header
        seth[key] = [side, rng.choice(["x-s1", "x-s2"] if side == "req" else ["x-r1", "x-r2"]), rng.choice(["a", "b", "c"])]
    used = set()
    plan = []
    for i in range(rng.randint(1, 3)):
        path = rng.choice([p for p in PATHS if tuple(p) not in used] or PATHS)
        used.add(tuple(path))
        tpl = rng.choice(["plain", "limplain", "set", "set", "retry"] if with_status else
                         ["lim", "cond", "plain", "limcond", "set", "setcond", "retry", "limretry", "random", "random"])
        plan.append((tpl, path))
        if tpl in ("retry", "limretry") and rng.random() < 0.5:
            # a second flow with its own Retry processor on the same url or on the whole host: both see the same sequences
            plan.append(("retry", rng.choice([path, ["*"]])))
    if fc:
        plan = list(fc["plan"])
    elif with_cache:
        plan[rng.randrange(len(plan))] = (rng.choice(["cache", "limcache", "cachelim"]), rng.choice([["*"], ["x"], ["x", "*"], ["{p}"]]))
    for i, (tpl, path) in enumerate(plan[:4]):
        name = "F%d%d" % (n, i)
        k = lambda s, name=name: "%s%s" % (s, name)
        if tpl == "random":
            # a random graph over 2-4 processors of all four kinds: fan-out, several answering processors, shared targets
            keys = [k(c) for c in "ABCD"[: rng.randint(2, 4)]]
            fl = fg.random_flow(rng, name, "", keys, True)
            procs = [(p["key"], p["kind"]) for p in fl["procs"]]
            for key, kind in procs:
                if kind == "Lim":
                    limq[key] = rng.choice(quotas)["id"]
            req, res = fl["req"], fl["res"]
            # plain processors wired on one side only become set rules of that side
            for key, kind in procs:
                sides = {d for d, conns in (("req", req), ("res", res)) for c in conns if key in (c["f"]["n"], c["t"]["n"])}
                if kind == "Plain" and len(sides) == 1 and rng.random() < 0.7:
                    rset(key, sides.pop())
        elif tpl in ("cache", "limcache", "cachelim"):
            # ReadCache on the request side (alone, behind or in front of a Limiter with an answering above-limit branch), WriteCache
            # on the response side; the key is one request header
            extra["RCache"][k("A")] = extra["WCache"][k("W")] = "xck"
            extra["CacheJoin"].append([name, k("A"), k("W")])
            procs = [(k("A"), "RCache"), (k("W"), "WCache")]
            res = [fg.conn(fg.P(k("A"), "cache_hit"), fg.S("end")), fg.conn(fg.S("start"), fg.P(k("W"))), fg.conn(fg.P(k("W")), fg.S("end"))]
            if tpl == "cache":
                req = [fg.conn(fg.S("start"), fg.P(k("A"))), fg.conn(fg.P(k("A"), "cache_miss"), fg.S("end"))]
            else:
                q = rng.choice(quotas)["id"]
                procs += [(k("L"), "Lim"), (k("G"), "Gen")]
                limq[k("L")] = q
                res.append(fg.conn(fg.P(k("G")), fg.S("end")))
                if tpl == "limcache":
                    req = [fg.conn(fg.S("start"), fg.P(k("L"))), fg.conn(fg.P(k("L"), "above_limit"), fg.P(k("G"))),
                           fg.conn(fg.P(k("L"), "below_limit"), fg.P(k("A"))), fg.conn(fg.P(k("A"), "cache_miss"), fg.S("end"))]
                else:
                    req = [fg.conn(fg.S("start"), fg.P(k("A"))), fg.conn(fg.P(k("A"), "cache_miss"), fg.P(k("L"))),
                           fg.conn(fg.P(k("L"), "above_limit"), fg.P(k("G"))), fg.conn(fg.P(k("L"), "below_limit"), fg.S("end"))]
        elif tpl == "retry":
            # a plain request side, retries of failed responses on the response side
            rp, rc = retry_side(k)
            procs = [(k("P"), "Plain")] + rp
            req = [fg.conn(fg.S("start"), fg.P(k("P"))), fg.conn(fg.P(k("P")), fg.S("end"))]
            res = rc
        elif tpl == "limretry":
            # a Limiter with an answering above-limit branch in front, retries behind: every re-sent request is charged again
            q = rng.choice(quotas)["id"]
            rp, rc = retry_side(k)
            procs = [(k("L"), "Lim"), (k("G"), "Gen")] + rp
            limq[k("L")] = q
            req = [fg.conn(fg.S("start"), fg.P(k("L"))), fg.conn(fg.P(k("L"), "above_limit"), fg.P(k("G"))),
                   fg.conn(fg.P(k("L"), "below_limit"), fg.S("end"))]
            res = [fg.conn(fg.P(k("G")), fg.S("end"))] + rc
        elif tpl == "set":
            # set rules on both sides, two in a row on the request side
            procs = [(k("S"), "Plain"), (k("T"), "Plain"), (k("R"), "Plain")]
            rset(k("S"), "req"), rset(k("T"), "req"), rset(k("R"), "res")
            req = [fg.conn(fg.S("start"), fg.P(k("S"))), fg.conn(fg.P(k("S")), fg.P(k("T"))), fg.conn(fg.P(k("T")), fg.S("end"))]
            res = [fg.conn(fg.S("start"), fg.P(k("R"))), fg.conn(fg.P(k("R")), fg.S("end"))]
        elif tpl == "setcond":
            # a set rule, then a conditional answer whose response path passes a response-side set rule (GenerateResponse + later edit)
            procs = [(k("S"), "Plain"), (k("C"), "Cond"), (k("G"), "Gen"), (k("R"), "Plain")]
            rset(k("S"), "req"), rset(k("R"), "res")
            req = [fg.conn(fg.S("start"), fg.P(k("S"))), fg.conn(fg.P(k("S")), fg.P(k("C"))), fg.conn(fg.P(k("C"), "hit"), fg.P(k("G"))),
                   fg.conn(fg.P(k("C"), "miss"), fg.S("end"))]
            res = [fg.conn(fg.P(k("G")), fg.P(k("R"))), fg.conn(fg.S("start"), fg.P(k("R"))), fg.conn(fg.P(k("R")), fg.S("end"))]
        elif tpl == "lim":
            q = rng.choice(quotas)["id"]
            procs = [(k("L"), "Lim"), (k("G"), "Gen")]
            limq[k("L")] = q
            req = [fg.conn(fg.S("start"), fg.P(k("L"))), fg.conn(fg.P(k("L"), "above_limit"), fg.P(k("G"))),
                   fg.conn(fg.P(k("L"), "below_limit"), fg.S("end"))]
            res = [fg.conn(fg.P(k("G")), fg.S("end"))]
        elif tpl == "cond":
            procs = [(k("C"), "Cond"), (k("G"), "Gen")]
            req = [fg.conn(fg.S("start"), fg.P(k("C"))), fg.conn(fg.P(k("C"), "hit"), fg.P(k("G"))),
                   fg.conn(fg.P(k("C"), "miss"), fg.S("end"))]
            res = [fg.conn(fg.P(k("G")), fg.S("end"))]
        elif tpl == "plain":
            procs = [(k("P"), "Plain"), (k("R"), "Plain")]
            req = [fg.conn(fg.S("start"), fg.P(k("P"))), fg.conn(fg.P(k("P")), fg.S("end"))]
            res = [fg.conn(fg.S("start"), fg.P(k("R"))), fg.conn(fg.P(k("R")), fg.S("end"))]
        elif tpl == "limplain":
            q = rng.choice(quotas)["id"]
            procs = [(k("L"), "Lim"), (k("P"), "Plain"), (k("R"), "Plain")]
            limq[k("L")] = q
            req = [fg.conn(fg.S("start"), fg.P(k("L"))), fg.conn(fg.P(k("L"), "above_limit"), fg.P(k("P"))),
                   fg.conn(fg.P(k("L"), "below_limit"), fg.S("end")), fg.conn(fg.P(k("P")), fg.S("end"))]
            res = [fg.conn(fg.S("start"), fg.P(k("R"))), fg.conn(fg.P(k("R")), fg.S("end"))]
        else:
            q = rng.choice(quotas)["id"]
            procs = [(k("L"), "Lim"), (k("C"), "Cond"), (k("G"), "Gen"), (k("H"), "Gen")]
            limq[k("L")] = q
            req = [fg.conn(fg.S("start"), fg.P(k("L"))), fg.conn(fg.P(k("L"), "above_limit"), fg.P(k("H"))),
                   fg.conn(fg.P(k("L"), "below_limit"), fg.P(k("C"))), fg.conn(fg.P(k("C"), "hit"), fg.P(k("G"))),
                   fg.conn(fg.P(k("C"), "miss"), fg.S("end"))]
            res = [fg.conn(fg.P(k("G")), fg.S("end")), fg.conn(fg.P(k("H")), fg.S("end"))]
        for key, kind in procs:
            if kind == "Gen":
                st += 1
                status[key] = st
        fl = fg.flow(name, procs, req, res, url="")
        fl.update(rand_filter(rng, path, not fc, with_status))
        fl["url"] = render(fl["pat"])
        flows.append(fl)
    cfg = {"flows": flows,
           "quotas": [{"id": q["id"], "kind": q["kind"], "url": render(q["pat"]), "pat": q["pat"], "m": q["m"], "h": q["h"], "q": q["q"], "s": q["s"]}
                      for q in quotas]}
    model = {"cfg": cfg, "QKind": {q["id"]: q["kind"] for q in quotas}, "QMax": {q["id"]: q["max"] for q in quotas},
             "QW": {q["id"]: q["w"] for q in quotas}, "QExp": {q["id"]: q["exp"] for q in quotas}, "QGc": {q["id"]: q["gc"] for q in quotas}, "LimQ": limq or {"-": "-none-"}, "GenStatus": status or {"-": 0},
             "SetH": seth or {"-": ["-", "-", "-"]}, "StRange": extra["StRange"] or {"-": [0, 0]}, "RetryA": extra["RetryA"] or {"-": 0},
             "RCache": extra["RCache"] or {"-": "-"}, "WCache": extra["WCache"] or {"-": "-"}, "CacheTtl": extra["CacheTtl"],
             "CacheJoin": extra["CacheJoin"]}
    files = {"quotas/quotas.yaml": quota_yaml(quotas)}
    for fl in flows:
        files["flows/%s.yaml" % fl["name"]] = flow_yaml(fl, limq, status, seth, extra)
    conds = [p["key"] for fl in flows for p in fl["procs"] if p["kind"] == "Cond"]
    return model, files, conds


# ------------------------------------------------------------------------------------------------ histories
def rand_url(rng, pats):
    """a url aimed at one of the configured patterns: parameters and wildcards instantiated, sometimes a segment too few / too many /
    another last segment / the bare host / another host"""
    path = list(rng.choice(pats))
    if path and path[-1] == "*":
        path = path[:-1] + [rng.choice(LITS) for _ in range(rng.choice([0, 1, 1, 2]))]
    path = [rng.choice(LITS) if s.startswith("{") else s for s in path]
    x = rng.random()
    host = HOST
    if x < 0.08 and path:
        path = path[:-1]
    elif x < 0.18:
        path = path + [rng.choice(LITS)]
    elif x < 0.26 and path:
        path = path[:-1] + [rng.choice(LITS)]
    elif x < 0.29:
        host = rng.choice([["o", "test"], HOST + ["evil"], ["test"]])
    return [host, path]


def rand_tx(rng, cfg, rich):
    """method / url / query / headers aimed at one of the configured filters: mostly satisfying it, sometimes missing one constraint"""
    f = rng.choice(cfg["flows"] + cfg["flows"] + cfg["quotas"])
    url = rand_url(rng, [f["pat"][1]])
    method, qry, hdr = "GET", [], {}
    if rich:
        method = rng.choice(f["m"]) if f["m"] and rng.random() < 0.8 else rng.choice(["GET", "GET", "POST", "PUT"])
        if f["h"] and rng.random() < 0.8:
            hdr["x-key"] = rng.choice(f["h"])[1]
        elif rng.random() < 0.4:
            hdr["x-key"] = rng.choice(HVALS)
        if f["q"] and rng.random() < 0.8:
            qry = [list(f["q"][0])]
        elif rng.random() < 0.3:
            qry = [["k", rng.choice(["1", "2"])]]
    return method, url, qry, hdr


def rand_history(rng, model, conds, n, hid):
    cfg = model["cfg"]
    rich = any(f["m"] or f["h"] or f["q"] for f in cfg["flows"] + cfg["quotas"])
    retries = "-" not in model["RetryA"]
    caching = "-" not in model["RCache"]
    now = rng.randint(2, 9)
    h = [{"ev": "reset", "now": now}]
    open_tx, k = [], 0
    # a few kinds of transactions per history, so that the same windows and slots are hit repeatedly
    kinds = [rand_tx(rng, cfg, rich) for _ in range(rng.randint(1, 3))]
    for _ in range(n):
        x = rng.random()
        if x < 0.15:
            h.append({"ev": "adv", "d": rng.choice([1, 2, 3, 4, 8])})
        elif x < 0.70 or not open_tx:
            k += 1
            tid = "t%s_%d" % (hid, k)
            method, url, qry, hdr = rng.choice(kinds) if rng.random() < 0.85 else rand_tx(rng, cfg, rich)
            hdr = dict(hdr)
            hdr.update({"x-%s" % c.lower(): "1" for c in conds if rng.random() < 0.4})
            if caching and rng.random() < 0.85:
                hdr["xck"] = rng.choice(["a", "a", "b"])
            h.append({"ev": "req", "id": tid, "method": method, "url": url, "qry": qry, "hdr": hdr})
            open_tx.append((tid, method, url))
        elif x < 0.92:
            tid, method, url = open_tx.pop(rng.randrange(len(open_tx)))
            ev = {"ev": "res", "id": tid, "method": method, "url": url, "status": rng.choice([200, 200, 404, 500])}
            if retries:
                # the provider keeps failing for a while: statuses of its answers to the re-sent requests (used as far as the engine asks)
                ev["status"] = rng.choice([200, 404, 500, 503, 503])
                ev["chain"] = [rng.choice([503, 503, 500, 200, 404]) for _ in range(rng.choice([0, 1, 2, 3, 4]))]
            if caching:
                ev["status"] = rng.choice([200, 200, 200, 201, 404, 500])
                ev["body"], ev["hdr"] = rng.choice(["b1", "b2"]), {"x-r": rng.choice(["1", "2"])}
            h.append(ev)
        else:
            tid, method, url = open_tx.pop(rng.randrange(len(open_tx)))
            h.append({"ev": "err", "id": tid})
    return h


def fix_history(h, recorded):
    """responses / errors are only meaningful for transactions that went to the provider: the recorder answers all events of the
    script, so events for transactions that were answered early are dropped from the *script* on a second pass (bookkeeping)."""
    early = {e["id"] for e in recorded if e.get("ev") == "tx" and e.get("dir") == "req" and e.get("status", 0) != 0}
    return [e for e in h if not (e["ev"] in ("res", "err") and e["id"] in early)]


def spec_dir(ctx):
    """specs/gateway plus the modules it instantiates from the property directories"""
    d = os.path.join(ctx.scratch, "spec-gateway")
    if not os.path.isdir(d):
        os.makedirs(d)
        for sub in ("gateway", "common"):
            for f in os.listdir(os.path.join(VERIF, "specs", sub)):
                shutil.copy(os.path.join(VERIF, "specs", sub, f), d)
        for rel in ("c04_flow_graph/FlowGraphP.tla", "c01_fixed_window/FixedWindowP.tla", "c02_concurrency/ConcurrencyP.tla",
                    "c03_filter_select/FilterP.tla", "c07_actions/ActionsP.tla", "c17_retry/RetryP.tla",
                    "x02_cache_transform/XCacheP.tla"):
            shutil.copy(os.path.join(VERIF, "specs", rel), d)
    return d


def execute(ctx, binary, scripts, tag):
    d = ctx.sub("run-" + tag)
    sp = os.path.join(d, "scripts.json")
    json.dump(scripts, open(sp, "w"))
    ctx.run_harness(binary, ["run", sp, d], timeout=900, env={"LUNAR_RETRY_REQUEST_TIMEOUT_SEC": "100"})
    return [read_ndjson(os.path.join(d, "trace-%03d.ndjson" % i)) for i in range(len(scripts))]


CHUNK = 8


def validate(ctx, events, tag, max_rounds=6):
    """TLC-validates one trace (config + histories) against GatewayTrace.  Returns (accepted histories, rejected, rounds); every rejected
    entry carries the history, the index of the event the specification could not explain and the specification's own reason (the
    REJECT line of the judgement, or the quota step that no behaviour of FixedWindowP / ConcurrencyP matches).  A rejected history is
    removed and the rest validated again, so that one rejection does not hide later ones (bookkeeping as vlib.validate_history_trace)."""
    import re
    from vlib import write_ndjson
    config, hs = split_histories(events)
    if len(hs) > CHUNK:
        # the state of the specification carries one entry per transaction id of the trace: long traces are validated in pieces
        acc, rejected, rounds = 0, [], 0
        for c in range(0, len(hs), CHUNK):
            a, r, n = validate(ctx, [config] + [e for h in hs[c:c + CHUNK] for e in h], "%s-%d" % (tag, c), max_rounds)
            acc, rejected, rounds = acc + a, rejected + r, rounds + n
        return acc, rejected, rounds
    rejected, rounds = [], 0
    wd = os.path.join(ctx.scratch, "tv-gateway-%s" % tag)
    if not os.path.isdir(wd):
        shutil.copytree(spec_dir(ctx), wd)
    while True:
        rounds += 1
        flat = [config] + [e for h in hs for e in h]
        p = os.path.join(wd, "trace.ndjson")
        write_ndjson(p, flat)
        ok, hwm, r = ctx.tlc_trace(wd, "GatewayTrace", p, deque=True, timeout=900)
        if ok and not r.violated:
            return len(hs), rejected, rounds
        if hwm < 1:
            raise Broken("trace validation made no progress (GatewayTrace): %s\n%s" % (r, r.out[-2000:]))
        bad = hwm + 1                                  # 1-based line of the first event that was not explained completely
        why = [m.group(2) for m in re.finditer(r'<<\s*"REJECT",\s*(\d+),\s*"[^"]*",\s*"([^"]*)"\s*>>', r.out) if int(m.group(1)) == bad]
        reason = why[0] if why else ("invariant " + r.violated if r.violated else "no-step-of-the-quota-specifications-explains-the-observed-verdicts")
        idx, k = bad - 2, 0
        for hi, h in enumerate(hs):
            if idx < k + len(h):
                rejected.append({"config": config, "hist": h, "at": idx - k, "invariant": r.violated, "reason": reason})
                del hs[hi]
                break
            k += len(h)
        else:
            raise Broken("cannot locate rejected line %d of %d" % (bad, len(flat)))
        if rounds >= max_rounds or not hs:
            return len(hs), rejected, rounds


def run(ctx):
    T = ctx.thorough
    binary = ctx.build_harness("gateway")
    sd = spec_dir(ctx)
    ctx.cov["rule"] = ("seeded random configurations (1-3 flows and 1-2 fixed-window or concurrency quotas whose filters are url patterns with path "
                       "parameters / wildcards plus method, header, query-parameter and status-code constraints; flows built from Limiter / conditional / "
                       "plain templates and random graphs) x seeded random histories of requests, responses, proxy errors and clock advances on one "
                       "engine; non-trivial = a history in which a Limiter refused and a transaction was answered early")
    ctx.cov["checker_cmd"] = "tlc -config GatewayTrace.cfg GatewayTrace.tla (StateDeque)"
    ctx.cov["trusted_base"] = ["TLC 1.8", "the property specifications FilterP / FlowGraphP / FixedWindowP / ConcurrencyP / ActionsP as checked by C03 / C04 / C01 / C02 / C07",
                               "harness/cmd/gateway projection of generated system-flow names"]
    ctx.assumptions += ["one tick = 500 ms; fixed windows 2-4 s; concurrency slots expire after 2-4 s, collected every 1-2 s (passes awaited tick by tick)",
                        "sequential handling of overlapping transactions (concurrency is C18's subject)", "at most one concurrency quota per configuration",
                        "status-code filters only in configurations without answering processors (observation G4)"]
    ncfg, nh, hl = (18, 8, 24) if not T else (int(os.environ.get("GW_NCFG", "90")), 24, 40)
    # candidates: twice as many as needed (random graphs are often refused by the loader: C05's subject), loaded once without histories
    cands = [rand_config(ctx.rng, n) for n in range(2 * ncfg)]
    forced = sorted(FORCED) * (1 if not T else 4)
    cands += [rand_config(ctx.rng, 2 * ncfg + i, force=f) for i, f in enumerate(forced)]
    loaded = execute(ctx, binary, [{"config": m, "files": f, "histories": []} for m, f, c in cands], "load")
    ok = [i for i, tr in enumerate(loaded) if not any(e.get("ev") == "loadfail" for e in tr)]
    ctx.notes.append("%d of %d candidate configurations were refused by the loader" % (len(cands) - len(ok), len(cands)))
    rnd = [cands[i] for i in ok if i < 2 * ncfg][:ncfg]
    picked = rnd + [cands[i] for i in ok if i >= 2 * ncfg]
    if len(picked) < ncfg // 2 or len(picked) - len(rnd) != len(forced):
        raise Broken("only %d random and %d of %d directed configurations loaded" % (len(rnd), len(picked) - len(rnd), len(forced)))
    scripts = []
    for n, (model, files, conds) in enumerate(picked):
        hs = [rand_history(ctx.rng, model, conds, hl, "%d_%d" % (n, i)) for i in range(nh)]
        scripts.append({"config": model, "files": files, "histories": hs})
    first = execute(ctx, binary, scripts, "probe")
    # second pass without responses for transactions the engine answered itself
    for sc, tr in zip(scripts, first):
        if any(e.get("ev") == "loadfail" for e in tr):
            continue
        cfg, rec = split_histories(tr)
        sc["histories"] = [fix_history(h, r) for h, r in zip(sc["histories"], rec)]
    traces = execute(ctx, binary, scripts, "rand")
    if any(e.get("ev") == "loadfail" for t in traces for e in t):
        raise Broken("a configuration that loaded once was refused later")
    ctx.sample({"kind": "whole-engine history", "events": [slim(e) for e in split_histories(traces[0])[1][0][:6]]})

    def one(it):
        i, ev = it
        return validate(ctx, ev, "g%d" % i)
    res = parallel(one, list(enumerate(traces)), n=8)
    ctx.cov["states"] = max(1, ctx.cov["states"])
    stats = {"tx": 0, "refused": 0, "early": 0, "multi": 0, "resent": 0, "retry_failed": 0, "cache_hit": 0, "overlapping": 0,
             "g6_retry_on_early_response": 0, "g7_answer_lost_to_writecache_error": 0}
    for (acc, rejected, rounds), ev, sc in zip(res, traces, scripts):
        cfg, hs = split_histories(ev)
        ctx.cov["traces_validated_against_impl"] += acc
        for h in hs:
            txs = [e for e in h if e["ev"] == "tx"]
            ctx.cov["evaluations"] += len(txs)
            refused = any(s.get("out") == "above_limit" for e in txs for s in e.get("seq", []))
            early = any(e.get("status", 0) for e in txs)
            stats["tx"] += len(txs)
            stats["refused"] += sum(1 for e in txs for s in e.get("seq", []) if s.get("out") == "above_limit")
            stats["early"] += sum(1 for e in txs if e.get("status", 0))
            stats["multi"] += sum(1 for e in txs if len({s["flow"] for s in e.get("seq", []) if not s.get("sid")}) > 1)
            stats["resent"] += sum(1 for e in txs if e.get("resent") and e["dir"] == "req")
            stats["retry_failed"] += sum(1 for e in txs for s in e.get("seq", []) if s.get("out") == "failed")
            opened = set()
            for e in h:
                if e["ev"] == "tx" and e["dir"] == "req" and not e.get("status", 0):
                    stats["overlapping"] += 1 if opened else 0
                    opened.add(e["id"])
                elif e["ev"] == "err" or (e["ev"] == "tx" and e["dir"] == "res"):
                    opened.discard(e["id"])
            stats["cache_hit"] += sum(1 for e in txs for s in e.get("seq", []) if s.get("out") == "cache_hit")
            stats["g7_answer_lost_to_writecache_error"] += sum(1 for e in txs if e.get("errclass") == "response-not-found")
            stats["g6_retry_on_early_response"] += sum(1 for e in txs if e["dir"] == "req" for s in e.get("seq", []) if s.get("out") in ("retry", "failed"))
            if refused and early:
                ctx.cov["distinct_nontrivial"] += 1
        for rej in rejected:
            e = rej["hist"][min(rej["at"], len(rej["hist"]) - 1)]
            w = {"class": "whole-engine-history-rejected-by-composition", "event": {k: v for k, v in e.items() if k not in ("seq", "acts", "out")},
                 "seq": [(s.get("flow"), s.get("key"), s.get("dir"), s.get("out")) for s in e.get("seq", [])][:12], "reason": rej.get("reason")}
            script = {"config": sc["config"], "files": sc["files"], "histories": [script_of(rej["hist"])]}
            t2 = execute(ctx, binary, [script], "repro")[0]
            _, r2, _ = validate(ctx, t2, "repro", max_rounds=1)
            if not r2:
                raise Broken("rejection not reproduced: %s" % json.dumps(w)[:800])
            ctx.violation(w, {"script": script, "trace": [rej["config"]] + rej["hist"], "rejected_at": rej["at"]})
    if T:
        selftest(ctx, traces)
    ctx.cov["transitions"] = max(1, ctx.cov["evaluations"])
    ctx.cov["states"] = max(1, ctx.cov["traces_validated_against_impl"])
    ctx.cov["gateway_stats"] = stats
    ctx.notes.append("states/transitions here are trace-validation counts (histories / transactions), no exhaustive run belongs to the composition itself")
    if min(v for k, v in stats.items() if not k.startswith("g")) == 0:
        raise Broken("vacuous run: %s" % stats)


def selftest(ctx, traces):
    """binding demonstration: a recorded history with one corrupted field must be rejected by the specification"""
    import copy
    done = set()
    for ti, tr in enumerate(traces):
        cfg, hs = split_histories(tr)
        for h in hs:
            for i, e in enumerate(h):
                kind = None
                if e["ev"] == "tx" and e["dir"] == "req" and e.get("status") and "answer" not in done:
                    kind, h2 = "answer", copy.deepcopy(h)
                    h2[i]["out"]["st"] += 1                       # the answer handed to the proxy carries another status
                elif e["ev"] == "tx" and e["dir"] == "req" and any(s.get("out") == "below_limit" for s in e["seq"]) and "verdict" not in done:
                    kind, h2 = "verdict", copy.deepcopy(h)
                    for s in h2[i]["seq"]:
                        if s.get("out") == "below_limit":
                            s["out"] = "above_limit"                # a Limiter's verdict turned round
                elif e["ev"] == "tx" and e["dir"] == "req" and e.get("inv") and len(e["seq"]) > 1 and "selection" not in done:
                    kind, h2 = "selection", copy.deepcopy(h)
                    h2[i]["x"]["url"] = [["o", "test"], ["nowhere"]]   # the flows ran for a url none of their filters accepts
                if kind:
                    done.add(kind)
                    acc, rej, _ = validate(ctx, [cfg] + h2, "self-%s" % kind, max_rounds=1)
                    if not rej:
                        raise Broken("binding self-test: a history with a corrupted %s was accepted" % kind)
            if len(done) == 3:
                ctx.notes.append("binding self-test: corrupted answer / Limiter verdict / selection each rejected")
                return
    raise Broken("binding self-test could not find its three kinds of events (%s)" % sorted(done))


def slim(e):
    return {k: v for k, v in e.items() if k not in ("acts", "out")} if e.get("ev") == "tx" else e


def script_of(hist):
    """the script that produced a recorded history (re-sent transactions are the executor's own doing: they become the `chain` of the
    response that asked for the first retry)"""
    out, chains = [], {}
    for i, e in enumerate(hist):
        if e["ev"] == "reset":
            out.append({"ev": "reset", "now": e["now"]})
        elif e["ev"] == "adv":
            out.append({"ev": "adv", "d": e["d"]})
        elif e["ev"] == "tx" and e.get("resent"):
            root = e["id"].split(".r")[0]
            if e["dir"] == "req":
                chains[root]["chain"].append(200)           # a re-send was attempted; its status follows if it went to the provider
            else:
                chains[root]["chain"][-1] = e["x"]["status"]
        elif e["ev"] == "tx" and e["dir"] == "req":
            x = e["x"]
            out.append({"ev": "req", "id": e["id"], "sq": e.get("sq", e["id"]), "method": x["method"], "url": x["url"], "qry": x["qry"],
                        "hdr": {k: v for k, v in x["hdr"]}, "body": e.get("body", "")})
        elif e["ev"] == "tx":
            x = e["x"]
            out.append({"ev": "res", "id": e["id"], "sq": e.get("sq", e["id"]), "method": x["method"], "url": x["url"], "status": x["status"],
                        "hdr": {k: v for k, v in x["hdr"]}, "body": e.get("body", ""), "chain": []})
            chains[e["id"]] = out[-1]
        elif e["ev"] == "err":
            out.append({"ev": "err", "id": e["id"]})
    return out


def replay(ctx, path):
    obj = json.load(open(path))
    binary = ctx.build_harness("gateway")
    spec_dir(ctx)
    t = execute(ctx, binary, [obj["replay"]["script"]], "replay")[0]
    _, rej, _ = validate(ctx, t, "replay", max_rounds=1)
    if rej:
        print("VIOLATION property=GATEWAY replay=%s" % path)
        return 1
    print("replay accepted by the specification")
    return 0
