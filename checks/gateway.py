"""GATEWAY - composition of the property specifications of C03 (restricted selection), C04 (graph walk), C01 / C02 (quota
state) and C07 (first early response wins) over whole-engine histories (growth item, DESIGN.md section 5 / 13).
Not one of the listed properties: `bin/check GATEWAY` validates recorded histories of a real flows-mode engine with several flows,
Limiters on fixed-window and concurrency quotas, conditional branches and answering processors against specs/gateway.

spec:     specs/gateway  GatewayP (composition), GatewayTrace (trace validation; instantiates FlowGraphP, FixedWindowP, ConcurrencyP)
binding:  harness/cmd/gateway drives one real engine per configuration through histories of requests / responses / proxy errors / clock advances
"""
import json, os, shutil
from vlib import Broken, read_ndjson, validate_history_trace, parallel, split_histories, VERIF
import _flowgraph as fg

SPEC = "gateway"
LEVEL = "model_checking"
HOST = "g.test"
WILD = HOST + "/*"
URLS = [HOST + "/x", HOST + "/y"]


def proc_yaml(p, limq, status):
    k, kind = p["key"], p["kind"]
    s = "  %s:\n" % k
    if kind == "Cond":
        s += "    processor: Filter\n    parameters:\n      - key: header\n        value: \"x-%s=1\"\n" % k.lower()
    elif kind == "Plain":
        s += "    processor: UserDefinedMetrics\n    parameters:\n      - key: metric_name\n        value: \"m_%s\"\n" % k
    elif kind == "Gen":
        s += "    processor: GenerateResponse\n    parameters:\n      - key: status\n        value: %d\n      - key: body\n        value: %s\n" % (status[k], k)
    elif kind == "Lim":
        s += "    processor: Limiter\n    parameters:\n      - key: quota_id\n        value: %s\n" % limq[k]
    return s


def flow_yaml(fl, limq, status):
    s = "name: %s\nfilter:\n  url: %s\nprocessors:\n" % (fl["name"], json.dumps(fl["url"]))
    for p in fl["procs"]:
        s += proc_yaml(p, limq, status)
    s += "flow:\n"
    for d, key in (("request", "req"), ("response", "res")):
        if not fl[key]:
            s += "  %s: []\n" % d
            continue
        s += "  %s:\n" % d
        for c in fl[key]:
            s += "    - from:\n" + fg._end_yaml(c["f"], 8) + "      to:\n" + fg._end_yaml(c["t"], 8)
    return s


def quota_yaml(quotas):
    s = "quotas:\n"
    for q in quotas:
        s += "  - id: %s\n    filter:\n      url: %s\n    strategy:\n" % (q["id"], json.dumps(q["url"]))
        if q["kind"] == "fixed":
            s += "      fixed_window:\n        max: %d\n        interval: %d\n        interval_unit: second\n" % (q["max"], q["w"] // 2)
        else:
            s += "      concurrent:\n        max_request_count: %d\n" % q["max"]
    return s


def rand_config(rng, n):
    """1-3 user flows over a few URL patterns, 1-2 quotas (fixed window / concurrency) whose filters cover the host or one URL,
    flows built from templates: Limiter with answering above-limit branch, conditional answer, plain processors."""
    quotas = []
    for i in range(rng.randint(1, 2)):
        # at most one concurrency quota per configuration (ConcurrencyP judges one Request per transaction)
        kind = rng.choice(["fixed", "conc"]) if not any(q["kind"] == "conc" for q in quotas) else "fixed"
        # a concurrency quota covers the whole host: a Limiter that refers to a concurrency quota from a flow outside the quota's
        # filter takes slots that no response releases (the releasing system flow hangs on the quota's filter) - they come
        # back only by expiry, which these histories do not reach
        quotas.append({"id": "q%d%d" % (n, i), "kind": kind, "url": WILD if kind == "conc" else rng.choice([WILD, WILD, URLS[0]]),
                       "max": rng.randint(1, 3), "w": rng.choice([4, 6, 8])})
    flows, limq, status, st = [], {}, {}, 430
    used_urls = set()
    for i in range(rng.randint(1, 3)):
        url = rng.choice([u for u in URLS + [WILD] if u not in used_urls] or [WILD])
        used_urls.add(url)
        name = "F%d%d" % (n, i)
        k = lambda s: "%s%s" % (s, name)
        tpl = rng.choice(["lim", "cond", "plain", "limcond", "random", "random"])
        if tpl == "random":
            # a random graph over 2-4 processors of all four kinds: fan-out, several answering processors, shared targets
            keys = [k(c) for c in "ABCD"[: rng.randint(2, 4)]]
            fl = fg.random_flow(rng, name, url, keys, True)
            procs = [(p["key"], p["kind"]) for p in fl["procs"]]
            for key, kind in procs:
                if kind == "Lim":
                    limq[key] = rng.choice(quotas)["id"]
            req, res = fl["req"], fl["res"]
        elif tpl == "lim":
            q = rng.choice(quotas)["id"]
            procs = [(k("L"), "Lim"), (k("G"), "Gen")]
            limq[k("L")] = q
            req = [fg.conn(fg.S("start"), fg.P(k("L"))), fg.conn(fg.P(k("L"), "above_limit"), fg.P(k("G"))),
                   fg.conn(fg.P(k("L"), "below_limit"), fg.S("end"))]
            res = [fg.conn(fg.P(k("G")), fg.S("end"))]
        elif tpl == "cond":
            procs = [(k("C"), "Cond"), (k("G"), "Gen")]
            req = [fg.conn(fg.S("start"), fg.P(k("C"))), fg.conn(fg.P(k("C"), "hit"), fg.P(k("G"))),
                   fg.conn(fg.P(k("C"), "miss"), fg.S("end"))]
            res = [fg.conn(fg.P(k("G")), fg.S("end"))]
        elif tpl == "plain":
            procs = [(k("P"), "Plain"), (k("R"), "Plain")]
            req = [fg.conn(fg.S("start"), fg.P(k("P"))), fg.conn(fg.P(k("P")), fg.S("end"))]
            res = [fg.conn(fg.S("start"), fg.P(k("R"))), fg.conn(fg.P(k("R")), fg.S("end"))]
        else:
            q = rng.choice(quotas)["id"]
            procs = [(k("L"), "Lim"), (k("C"), "Cond"), (k("G"), "Gen"), (k("H"), "Gen")]
            limq[k("L")] = q
            req = [fg.conn(fg.S("start"), fg.P(k("L"))), fg.conn(fg.P(k("L"), "above_limit"), fg.P(k("H"))),
                   fg.conn(fg.P(k("L"), "below_limit"), fg.P(k("C"))), fg.conn(fg.P(k("C"), "hit"), fg.P(k("G"))),
                   fg.conn(fg.P(k("C"), "miss"), fg.S("end"))]
            res = [fg.conn(fg.P(k("G")), fg.S("end")), fg.conn(fg.P(k("H")), fg.S("end"))]
        for key, kind in procs:
            if kind == "Gen":
                st += 1
                status[key] = st
        flows.append(fg.flow(name, procs, req, res, url=url))
    cfg = {"flows": flows, "quotas": [{"id": q["id"], "kind": q["kind"], "url": q["url"]} for q in quotas]}
    model = {"cfg": cfg, "QKind": {q["id"]: q["kind"] for q in quotas}, "QMax": {q["id"]: q["max"] for q in quotas},
             "QW": {q["id"]: q["w"] for q in quotas}, "QUrl": {q["id"]: q["url"] for q in quotas},
             "LimQ": limq or {"-": "-none-"}, "GenStatus": status or {"-": 0}, "HostWild": WILD}
    files = {"quotas/quotas.yaml": quota_yaml(quotas)}
    for fl in flows:
        files["flows/%s.yaml" % fl["name"]] = flow_yaml(fl, limq, status)
    conds = [p["key"] for fl in flows for p in fl["procs"] if p["kind"] == "Cond"]
    return model, files, conds


def rand_history(rng, conds, n, hid):
    now = rng.randint(2, 9)
    h = [{"ev": "reset", "now": now}]
    open_tx, k = [], 0
    for _ in range(n):
        x = rng.random()
        if x < 0.15:
            h.append({"ev": "adv", "d": rng.choice([1, 2, 3, 4, 8])})
        elif x < 0.70 or not open_tx:
            k += 1
            tid = "t%s_%d" % (hid, k)
            hdr = {"x-%s" % c.lower(): "1" for c in conds if rng.random() < 0.4}
            url = rng.choice(URLS)
            h.append({"ev": "req", "id": tid, "url": url, "hdr": hdr})
            open_tx.append((tid, url))
        elif x < 0.92:
            tid, url = open_tx.pop(rng.randrange(len(open_tx)))
            h.append({"ev": "res", "id": tid, "url": url, "status": 200})
        else:
            tid, url = open_tx.pop(rng.randrange(len(open_tx)))
            h.append({"ev": "err", "id": tid})
    return h


def fix_history(h, recorded):
    """responses / errors are only meaningful for transactions that went to the provider: the recorder answers all events of the
    script, so events for transactions that were answered early are dropped from the *script* on a second pass (bookkeeping)."""
    early = {e["id"] for e in recorded if e.get("ev") == "tx" and e.get("dir") == "req" and e.get("status", 0) != 0}
    return [e for e in h if not (e["ev"] in ("res", "err") and e["id"] in early)]


def spec_dir(ctx):
    """specs/gateway plus the modules it instantiates from the property directories"""
    d = os.path.join(ctx.scratch, "spec-gateway")
    if not os.path.isdir(d):
        os.makedirs(d)
        for sub in ("gateway", "common"):
            for f in os.listdir(os.path.join(VERIF, "specs", sub)):
                shutil.copy(os.path.join(VERIF, "specs", sub, f), d)
        for rel in ("c04_flow_graph/FlowGraphP.tla", "c01_fixed_window/FixedWindowP.tla", "c02_concurrency/ConcurrencyP.tla"):
            shutil.copy(os.path.join(VERIF, "specs", rel), d)
    return d


def execute(ctx, binary, scripts, tag):
    d = ctx.sub("run-" + tag)
    sp = os.path.join(d, "scripts.json")
    json.dump(scripts, open(sp, "w"))
    ctx.run_harness(binary, ["run", sp, d], timeout=900)
    return [read_ndjson(os.path.join(d, "trace-%03d.ndjson" % i)) for i in range(len(scripts))]


def validate(ctx, events, tag, max_rounds=6):
    return validate_history_trace(ctx, SPEC, "GatewayTrace", events, tag=tag, deque=True, max_rounds=max_rounds, timeout=900)


def run(ctx):
    T = ctx.thorough
    binary = ctx.build_harness("gateway")
    sd = spec_dir(ctx)
    ctx.spec_dir = lambda name, fresh=False: sd       # validate_history_trace copies the spec directory it is given
    ctx.cov["rule"] = ("seeded random configurations (1-3 flows over exact URLs and the host wildcard built from Limiter / conditional / plain "
                       "templates, 1-2 fixed-window or concurrency quotas) x seeded random histories of requests, responses, proxy errors and "
                       "clock advances on one engine; non-trivial = a history in which a Limiter refused and a transaction was answered early")
    ctx.cov["checker_cmd"] = "tlc -config GatewayTrace.cfg GatewayTrace.tla (StateDeque)"
    ctx.cov["trusted_base"] = ["TLC 1.8", "the property specifications FlowGraphP / FixedWindowP / ConcurrencyP as checked by C04 / C01 / C02",
                               "harness/cmd/gateway projection of generated system-flow names"]
    ctx.assumptions += ["selection restricted to exact URLs and the host wildcard", "one tick = 500 ms; fixed windows 2-4 s; no concurrency-slot expiry within a history",
                        "sequential histories (concurrency is C18's subject)", "at most one concurrency quota per configuration"]
    ncfg, nh, hl = (24, 10, 24) if not T else (160, 24, 40)
    scripts, conds_of = [], []
    for n in range(ncfg):
        model, files, conds = rand_config(ctx.rng, n)
        hs = [rand_history(ctx.rng, conds, hl, "%d_%d" % (n, i)) for i in range(nh)]
        scripts.append({"config": model, "files": files, "histories": hs})
    first = execute(ctx, binary, scripts, "probe")
    # second pass without responses for transactions the engine answered itself
    for sc, tr in zip(scripts, first):
        if any(e.get("ev") == "loadfail" for e in tr):
            continue
        cfg, rec = split_histories(tr)
        sc["histories"] = [fix_history(h, r) for h, r in zip(sc["histories"], rec)]
    traces = execute(ctx, binary, scripts, "rand")
    keep = [i for i, t in enumerate(traces) if not any(e.get("ev") == "loadfail" for e in t)]
    ctx.notes.append("%d of %d random configurations were rejected by the loader and skipped" % (len(traces) - len(keep), len(traces)))
    traces, scripts = [traces[i] for i in keep], [scripts[i] for i in keep]
    if len(traces) < 3:
        raise Broken("only %d configurations loaded" % len(traces))
    ctx.sample({"kind": "whole-engine history", "events": split_histories(traces[0])[1][0][:6]})

    def one(it):
        i, ev = it
        return validate(ctx, ev, "g%d" % i)
    res = parallel(one, list(enumerate(traces)), n=6)
    ctx.cov["states"] = max(1, ctx.cov["states"])
    for (acc, rejected, rounds), ev, sc in zip(res, traces, scripts):
        cfg, hs = split_histories(ev)
        ctx.cov["traces_validated_against_impl"] += acc
        for h in hs:
            txs = [e for e in h if e["ev"] == "tx"]
            ctx.cov["evaluations"] += len(txs)
            refused = any(s.get("out") == "above_limit" for e in txs for s in e.get("seq", []))
            early = any(e.get("status", 0) for e in txs)
            if refused and early:
                ctx.cov["distinct_nontrivial"] += 1
        for rej in rejected:
            e = rej["hist"][min(rej["at"], len(rej["hist"]) - 1)]
            w = {"class": "whole-engine-history-rejected-by-composition", "event": {k: v for k, v in e.items() if k != "seq"},
                 "seq": [(s.get("flow"), s.get("key"), s.get("dir"), s.get("out")) for s in e.get("seq", [])][:12], "invariant": rej.get("invariant")}
            script = {"config": sc["config"], "files": sc["files"], "histories": [script_of(rej["hist"])]}
            t2 = execute(ctx, binary, [script], "repro")[0]
            _, r2, _ = validate(ctx, t2, "repro", max_rounds=1)
            if not r2:
                raise Broken("rejection not reproduced: %s" % json.dumps(w)[:800])
            ctx.violation(w, {"script": script, "trace": [rej["config"]] + rej["hist"], "rejected_at": rej["at"]})
    ctx.cov["transitions"] = max(1, ctx.cov["evaluations"])
    ctx.cov["states"] = max(1, ctx.cov["traces_validated_against_impl"])
    ctx.notes.append("states/transitions here are trace-validation counts (histories / transactions), no exhaustive run belongs to the composition itself")


def script_of(hist):
    out = []
    for e in hist:
        if e["ev"] == "reset":
            out.append({"ev": "reset", "now": e["now"]})
        elif e["ev"] == "adv":
            out.append({"ev": "adv", "d": e["d"]})
        elif e["ev"] == "tx" and e["dir"] == "req":
            out.append({"ev": "req", "id": e["id"], "url": e["url"], "hdr": e.get("hdr", {})})
        elif e["ev"] == "tx":
            out.append({"ev": "res", "id": e["id"], "url": e["url"], "status": 200})
        elif e["ev"] == "err":
            out.append({"ev": "err", "id": e["id"]})
    return out


def replay(ctx, path):
    obj = json.load(open(path))
    binary = ctx.build_harness("gateway")
    sd = spec_dir(ctx)
    ctx.spec_dir = lambda name, fresh=False: sd
    t = execute(ctx, binary, [obj["replay"]["script"]], "replay")[0]
    _, rej, _ = validate(ctx, t, "replay", max_rounds=1)
    if rej:
        print("VIOLATION property=GATEWAY replay=%s" % path)
        return 1
    print("replay accepted by the specification")
    return 0
