"""C10 - policy-mode delayed queue releases waiters in order and never strands one.

spec:     specs/c10_delayed_queue  DpqP (property), DpqI (PlusCal, implementation-shaped), DpqTrace, GenC10, MC_C10
binding:  harness/cmd/c10 drives the real queue.NewInMemoryDelayedPriorityQueue (Enqueue) and StrategyBasedQueuePlugin.OnRequest
          on the lock-step clock; yield point dpq.before_park holds a goroutine between mutex.Unlock() and its select
"""
import json, os, re
from c12 import witnesses, coverage
from vlib import Broken, read_ndjson, validate_history_trace, parallel, tlc_vh_lines, split_histories

SPEC = "c10_delayed_queue"
# constants of the exhaustive / generation instances (MC_C10.tla, GenC10.tla): needed to replay their behaviours
def F(*v):
    return {"q%d" % (i + 1): x for i, x in enumerate(v)}
MC = {"MC_dpq_overtake": {"prio": F(1, 0, 1), "ttl": F(3, 3, 5), "quota": 1, "w": 2, "qsize": 2},
      "MC_dpq_peek": {"prio": F(1, 0, 1), "ttl": F(3, 2, 3), "quota": 1, "w": 2, "qsize": 2},
      "MC_dpq_kf": {"prio": F(1, 0, 1), "ttl": F(3, 3, 5), "quota": 1, "w": 2, "qsize": 2},
      "MC_dpq_kf_strand": {"prio": F(1, 0, 1), "ttl": F(3, 3, 5), "quota": 1, "w": 2, "qsize": 2}}
GENS = {"GenC10_a": {"prio": F(1, 0, 1, 2, 0, 1), "ttl": F(3, 4, 6, 2, 5, 8), "quota": 1, "w": 2, "qsize": 2},
        "GenC10_b": {"prio": F(0, 0, 0, 0, 0, 0), "ttl": F(2, 4, 6, 4, 2, 8), "quota": 2, "w": 4, "qsize": 3},
        "GenC10_c": {"prio": F(2, 1, 0, 2, 1, 0), "ttl": F(4, 4, 2, 6, 6, 2), "quota": 1, "w": 4, "qsize": 2}}


UNREPRODUCED = []


def conf(c, mode):
    return {"quota": c["quota"], "w": c["w"], "qsize": c["qsize"], "mode": mode}


def hist_to_script(hist, c):
    """driver-level step history of DpqI -> executor events: arrivals (held at the yield point or not; "early" = right after
    a tick, before any timer of the new instant is delivered), releases of held goroutines, ticks with the delivery order
    of the timers due at that instant, and the roll-over goroutine held inside its critical section while the other timers
    of the instant are delivered"""
    out, ops = [], {}
    for e in hist:
        if e["ev"] == "arrive":
            o = {"ev": "enq", "id": e["i"], "prio": c["prio"][e["i"]], "ttl": c["ttl"][e["i"]], "gate": False}
            ops[e["i"]] = o
            if e["early"]:                  # the tick before it becomes "tick, then these arrivals, then the timers"
                k = max(i for i, x in enumerate(out) if x["ev"] in ("tick", "race"))
                if out[k]["ev"] == "tick":
                    out[k] = dict(out[k], ev="race", ops=[])
                out[k]["ops"].append(o)
            else:
                out.append(o)
        elif e["ev"] == "enq":
            ops[e["i"]]["gate"] = bool(e["gate"])
        elif e["ev"] == "park":
            out.append({"ev": "park", "id": e["i"]})
        elif e["ev"] == "tick":
            out.append({"ev": "tick", "rev": bool(e.get("rev"))})
        elif e["ev"] == "hold":             # decided when the roll-over runs: a property of the tick that woke it
            k = max(i for i, x in enumerate(out) if x["ev"] in ("tick", "race"))
            out[k]["hold"] = True
        elif e["ev"] == "unhold":
            out.append({"ev": "unhold"})
    while out and out[-1]["ev"] == "tick" and not out[-1].get("hold"):      # the executor runs the history out by itself
        out.pop()
    return out


def rand_history(rng, cfg, n):
    even = cfg["mode"] == "plugin"
    h = [{"ev": "reset", "now": rng.randint(0, 5)}]
    held = []

    used = set()

    def enq(gate_ok=True):
        # the id names priority and time-to-live (DpqITrace reads them as constants of the whole trace)
        while True:
            ttl = rng.choice([2, 3, 4, 5, 6]) if even else rng.choice([1, 2, 3, 4, 5, 7])     # plugin: also x.5 seconds
            prio = rng.choice([0, 0, 1, 2])
            free = [c for c in "abcdefgh" if "p%dt%d%s" % (prio, ttl, c) not in used]
            if free:
                break
        rid = "p%dt%d%s" % (prio, ttl, free[0])
        used.add(rid)
        o = {"ev": "enq", "id": rid, "prio": prio, "ttl": ttl}
        if gate_ok and rng.random() < 0.3:
            o["gate"] = True
            held.append(o["id"])
        return o

    for _ in range(n):
        x = rng.random()
        if even and x < 0.05:               # the remedy is re-applied under the same name with another strategy / queue size
            h.append({"ev": "reconf", "quota": rng.choice([1, 2, 3]), "w": rng.choice([2, 4]), "qsize": cfg["qsize"]})
        elif x < 0.34:
            # timers due at this instant are delivered oldest or youngest first; now and then the roll-over goroutine
            # is held inside its critical section while the TTL timers of the instant are delivered
            hold = rng.random() < 0.15
            h.append({"ev": "tick", "rev": rng.random() < 0.4, "hold": hold})
            if hold:
                h.append({"ev": "unhold"})
        elif x < 0.42 and held:
            h.append({"ev": "park", "id": held.pop(rng.randrange(len(held)))})
        elif x < 0.52:
            h.append({"ev": "conc", "ops": [enq(False) for _ in range(rng.randint(2, 3))]})
        elif x < 0.60:
            # arrivals just after the tick, before the roll-over goroutine and the TTL timers of the new instant run
            h.append({"ev": "race", "ops": [enq(False) for _ in range(rng.randint(1, 3))], "rev": rng.random() < 0.4,
                      "together": rng.random() < 0.5})
        else:
            h.append(enq())
    return h


def storm_script(rng, n):
    """first use of per-remedy state in the plugin: n storms of 2-8 simultaneous FIRST requests, each on a remedy name
    nobody has used yet or - policies re-applied - on a used name with a strategy it never had"""
    ops, seen = [], {}
    for i in range(n):
        if seen and rng.random() < 0.2:
            name = rng.choice(sorted(seen))
        else:
            name = "s%d" % i
        free = [(q, w) for q in (1, 2, 3) for w in (2, 4) if (q, w) not in seen.setdefault(name, set())]
        if not free:
            name = "s%d" % i
            free = [(q, w) for q in (1, 2, 3) for w in (2, 4)]
            seen[name] = set()
        q, w = rng.choice([f for f in free if f[0] == 1] * 2 + free)
        seen[name].add((q, w))
        ops.append({"id": name, "n": rng.randint(2, 8), "quota": q, "w": w})
    hs = [[{"ev": "reset", "now": 0}, {"ev": "storm", "ops": ops[k:k + 250]}] for k in range(0, n, 250)]
    return {"config": {"quota": 1, "w": 2, "qsize": 0, "mode": "plugin"}, "histories": hs}


def execute(ctx, binary, scripts, tag):
    """one executor process per script (configuration), several at a time: the background goroutines an instance of
    the code under test leaves behind stay within their process"""
    d = ctx.sub("run-" + tag)
    def one(it):
        i, sc = it
        sd = os.path.join(d, "s%03d" % i)
        os.makedirs(sd, exist_ok=True)
        sp = os.path.join(sd, "scripts.json")
        json.dump([sc], open(sp, "w"))
        ctx.run_harness(binary, ["run", sp, sd], timeout=900, cwd=sd)
        return read_ndjson(os.path.join(sd, "trace-000.ndjson"))
    return parallel(one, list(enumerate(scripts)), n=6)


def results(h):
    return {e["id"]: e["ok"] for e in h if e["ev"] == "end"}


def nontrivial(h):
    """some request waited across a clock advance and was then let through, and some request was refused"""
    begun, waited = {}, set()
    rel = rej = False
    for e in h:
        if e["ev"] == "begin":
            begun[e["id"]] = True
        elif e["ev"] == "end":
            if e["id"] in waited and e["ok"]:
                rel = True
            if not e["ok"]:
                rej = True
            begun.pop(e["id"], None)
        elif e["ev"] == "adv":
            waited.update(begun)
    return rel and rej


def witness_of(rej):
    h, at, cfg = rej["hist"], rej["at"], rej["config"]
    e = h[at]
    now, arr, pops, cnt = 0, {}, {}, {}
    for x in h[: at + 1]:
        if x["ev"] == "reset":
            now = x["now"]
        elif x["ev"] == "adv":
            now += x["d"]
        elif x["ev"] == "begin":
            arr[x["id"]] = (now, x)
        elif x["ev"] == "pop":
            pops.setdefault(x["id"], []).append((now, x["delivered"]))
        elif x["ev"] == "end" and x["ok"] and x is not e:
            cnt[now // cfg["w"]] = cnt.get(now // cfg["w"], 0) + 1
    w = {"class": "outcome-not-permitted-by-spec", "mode": cfg.get("mode"), "reconfigured": any(x["ev"] == "reconf" for x in rej.get("script", [])),
         "config": {k: cfg[k] for k in ("quota", "w", "qsize")}, "event": e, "now": now, "invariant": rej.get("invariant"),
         "concurrent": any(x["ev"] in ("conc", "race", "storm") for x in rej.get("script", []))}
    if e["ev"] == "batch":
        w["class"] = "first-use-race" if e["rel"] > e["quota"] else "batch-not-permitted"
    if e["ev"] == "end" and e["id"] in arr:
        t0, b = arr[e["id"]]
        waited = now > t0
        w.update({"arrived": t0, "prio": b["prio"], "ttl": b["ttl"], "waited": waited})
        if waited and not e["ok"]:
            free = [k for k in range(t0 // cfg["w"], (t0 + b["ttl"] - 1) // cfg["w"] + 1) if cnt.get(k, 0) < cfg["quota"]]
            w["class"] = "strand" if now >= t0 + b["ttl"] else "rejected-before-ttl"
            w["windows_with_free_quota"] = free
            w["popped_while_unparked"] = any(not d and t < t0 + b["ttl"] for t, d in pops.get(e["id"], []))
        elif waited and e["ok"]:
            w["class"] = "per-window" if cnt.get(now // cfg["w"], 0) >= cfg["quota"] else "order-inversion"
        elif e["ok"]:
            w["class"] = "per-window"
        else:
            w["class"] = "rejected-though-room"
    return w


def epochs_of(trace):
    """A recording of the plugin may contain reconfigurations (same remedy name, new strategy / queue size).  Every
    configuration epoch has a queue of its own, so the property is a statement about each epoch's requests on their own:
    the recording is split into one trace per configuration, holding for every history the clock events and the calls
    made under that configuration.  Returns [(config line, [(history index, projected history), ...]), ...]"""
    cfg, hs = split_histories(trace)
    groups = {}
    for hi, h in enumerate(hs):
        confs = {0: cfg}
        for e in h:
            if e["ev"] == "reconf":
                confs[e["ep"]] = dict(cfg, quota=e["quota"], w=e["w"], qsize=e["qsize"])
        # the queue belongs to (remedy name, quota, window): epochs with the same strategy are one queue (the queue size
        # is an argument of every call; the drivers keep it fixed per strategy)
        strat = {}
        for ep, c in confs.items():
            strat.setdefault((c["quota"], c["w"]), (c, set()))[1].add(ep)
        for c, eps in strat.values():
            ids = {e["id"] for e in h if e["ev"] == "begin" and e.get("ep", 0) in eps}
            if len(strat) > 1 and not ids:
                continue
            ph = [e for e in h if e["ev"] in ("reset", "adv", "quiet", "batch") or (e["ev"] in ("begin", "end", "pop") and e["id"] in ids)]
            groups.setdefault(json.dumps(c, sort_keys=True), []).append((hi, ph))
    return [(json.loads(k), v) for k, v in groups.items()]


def validate_p(ctx, trace, tag):
    """TLC validation against DpqP of every configuration epoch of a recording -> (accepted histories, rejections)"""
    acc, rejected = 0, []
    for n, (c, items) in enumerate(epochs_of(trace)):
        ev = [c] + [e for _, ph in items for e in ph]
        a, rej, _ = validate_history_trace(ctx, SPEC, "DpqTrace", ev, tag="%s-e%d" % (tag, n), deque=True)
        acc += a
        for r in rej:
            r["hi"] = next(hi for hi, ph in items if ph == r["hist"])
            rejected.append(r)
    return acc, rejected


def judge(ctx, binary, scripts, traces, tag, seen):
    res = parallel(lambda it: validate_p(ctx, it[1], "%s%d" % (tag, it[0])), list(enumerate(traces)), n=6)
    ctx.log("%s: %d traces (%d events) validated against DpqP" % (tag, len(traces), sum(len(t) for t in traces)))
    for (acc, rejected), ev, sc in zip(res, traces, scripts):
        cfg, hs = split_histories(ev)
        ctx.cov["traces_validated_against_impl"] += acc
        for h in hs:
            ctx.cov["evaluations"] += sum(1 if e["ev"] == "begin" else e["n"] if e["ev"] == "batch" else 0 for e in h)
            key = json.dumps([cfg, h], sort_keys=True)
            if key not in seen:
                seen.add(key)
                if nontrivial(h):
                    ctx.cov["distinct_nontrivial"] += 1
        for rej in rejected:
            if len(ctx.violations) >= 12:       # enough confirmed witnesses: do not spend the budget on more of the same
                break
            hi = rej["hi"]
            rej["script"] = sc["histories"][hi]
            w = witness_of(rej)
            script = [{"config": sc["config"], "histories": [sc["histories"][hi]]}]
            reproduced = False
            for attempt in range(20 if w["concurrent"] else 2):       # goroutine scheduling inside one instant is not under the driver's control
                t2 = execute(ctx, binary, script, "%s-repro" % tag)[0]
                a2, r2 = validate_p(ctx, t2, "%s-repro" % tag)
                if r2:
                    reproduced = True
                    break
            if not reproduced:
                # schedule-dependent and not reproducible: never reported as a violation; the run is broken (exit 2)
                # unless other, reproducible violations are reported
                ctx.notes.append("UNREPRODUCED (%s): %s" % (tag, json.dumps(w)[:400]))
                UNREPRODUCED.append(w)
                continue
            ctx.violation(w, {"script": script, "trace": [rej["config"]] + rej["hist"], "rejected_at": rej["at"]})
    # conformance of the implementation-shaped model (never a verdict): repaired hand-off first, then the pinned one
    def drift(it):
        i, ev = it
        rej = None
        for kf in (0, 1):
            e2 = [dict(ev[0], kf=kf)] + ev[1:]
            try:
                acc, rej, _ = validate_history_trace(ctx, SPEC, "DpqITrace", e2, tag="%s-i%d-%d" % (tag, i, kf), max_rounds=1, timeout=400 if ctx.thorough else 60, deque=True)
            except Broken as b:          # the search ran out of time or memory: no statement about this recording
                return "inconclusive"
            if not rej:
                return None
        return rej[0]
    sel = [(i, t) for i, t in enumerate(traces) if not any(e["ev"] in ("reconf", "batch") for e in t)]   # DpqI models one queue
    if tag != "cx":                      # every other recording in the quick tier, every fourth of the random ones in the thorough tier
        sel = sel[::2] if not ctx.thorough or tag == "gen" else sel[::4]
    drifts = parallel(drift, sel, n=4)
    inconclusive = sum(1 for d in drifts if d == "inconclusive")
    ctx.log("%s: %d traces validated against DpqI (%d inconclusive)" % (tag, len(sel), inconclusive))
    if sel and inconclusive == len(sel) and not ctx.violations:
        raise Broken("conformance of DpqI to the code could not be established for any %s recording (search timed out)" % tag)
    if inconclusive:
        ctx.notes.append("%s: %d of %d DpqI validations ran out of time (no statement)" % (tag, inconclusive, len(sel)))
    drifts = [d for d in drifts if d != "inconclusive"]
    for d in drifts:
        if d is not None:
            ctx.cov["model_drift"] = True
            if len([n for n in ctx.notes if n.startswith("MODEL-DRIFT")]) < 5:
                ctx.notes.append("MODEL-DRIFT (%s): the code does not behave like DpqI at %s" % (tag, json.dumps(d["hist"][d["at"]])[:300]))


def cx_of(r):
    out = []
    for line in r.out.splitlines():
        if line.startswith('<<"CX", "') and line.endswith('">>'):
            out.append(json.loads(line[len('<<"CX", "'):-3].replace('\\"', '"').replace('\\\\', '\\')))
    return out


def run(ctx):
    T = ctx.thorough
    binary = ctx.build_harness("c10")
    sd = ctx.spec_dir(SPEC)
    ctx.cov["rule"] = ("histories = counterexample schedules of the pinned hand-off model forced through the yield point + TLC -simulate walks "
                       "of DpqI restricted to driver-forceable schedules (arrivals, held goroutines, ticks) + seeded random scripts (priorities, "
                       "TTLs around window ends, held goroutines, arrivals started together, arrivals racing the roll-over goroutine; storms "
                       "of 2-8 simultaneous first requests on thousands of fresh remedies / re-applied strategies as compact batch events), through "
                       "Enqueue and through StrategyBasedQueuePlugin.OnRequest; a history is non-trivial when a request waited across a clock "
                       "advance and was let through and some request was refused; distinct by (config, events)")
    ctx.cov["checker_cmd"] = "tlc -config MC_dpq_a.cfg MC_C10.tla (and MC_dpq_b); tlc -config DpqTrace.cfg DpqTrace.tla; tlc -config DpqITrace.cfg DpqITrace.tla"
    ctx.cov["trusted_base"] = ["TLC 1.8 / PlusCal translator", "CommunityModules Json", "Go toolchain", "harness/internal/vh StepClock",
                               "harness/internal/c12q goroutine-dump quiescence test", "harness/cmd/c10 projection (Enqueue true / NoOp = let through, "
                               "false / EarlyResponse = refused)"]
    ctx.assumptions += ["1 tick = 500 ms; windows and TTLs are whole ticks (whole seconds through the plugin)",
                        "bounded lag: a goroutine woken by a timer reacts before the clock moves again (the driver waits until every goroutine is "
                        "blocked before each tick); only a goroutine held at the yield point is overtaken by ticks",
                        "arrival instant of a request = instant of the Enqueue call (NewRequest and Enqueue are not separated by a tick)"]
    seen = set()

    # (1) exhaustive: the repaired hand-off refines P; the pinned hand-off (KF_C10_LostHandoff) must be refuted and its
    #     counterexamples become directed schedules for the real code
    good = [("MC_dpq_a", "I=>P 3 requests, quota 1, window 2, queue 2"), ("MC_dpq_b", "I=>P 3 requests equal priority, quota 1, queue 1 (full queue reached)")]
    if T:
        good.append(("MC_dpq_large", "I=>P 4 requests, quota 2, queue 2"))
    bad = [("MC_dpq_kf", "pinned hand-off must violate P"), ("MC_dpq_kf_strand", "pinned hand-off must strand a popped request"),
           ("MC_dpq_peek", "looking at the hand-over channel before re-taking the mutex must violate P"),
           ("MC_dpq_overtake", "an arrival that overtakes the waiters at a window boundary must violate P")]
    def mc(it):
        if it in good:
            return ctx.tlc_exhaustive(sd, "MC_C10", it[0] + ".cfg", workers=4 if not T else 8, timeout=3000, label=it[1],
                                      extra=["-coverage", "1"] if T else [])
        return ctx.tlc(sd, "MC_C10", it[0] + ".cfg", workers=1, timeout=300, label="non-vacuity: " + it[1])
    rs = parallel(mc, good + bad, n=4)
    # first use of per-remedy state in the plugin: one lookup-create-store critical section refines P, the racy variant must not
    ctx.tlc_exhaustive(sd, "DpqCreateI", "MC_create.cfg", workers=1, timeout=300, label="I=>P first use of a remedy's queue, 3 callers")
    if ctx.tlc(sd, "DpqCreateI", "MC_create_kf.cfg", workers=1, timeout=300, label="non-vacuity: racy first use must violate P").violated is None:
        raise Broken("the first-use model cannot tell the create race from the property (vacuous check)")
    if T:
        witnesses(ctx, sd, "MC_C10", "MC_dpq_wit.cfg", ["WitRelease", "WitTtl", "WitFull", "WitBuffered", "WitTtlVsSignal", "WitSkipGone"])
        coverage(ctx, [r for it, r in zip(good + bad, rs) if it in good], ["e1", "e2", "e3", "e4", "r0", "r1", "r2", "r3", "c0"])
    scripts, names = [], []
    for it, r in zip(good + bad, rs):
        if it in bad:
            cxs = cx_of(r)
            if r.violated is None or not cxs:
                raise Broken("the model cannot tell the pinned hand-off from the property (vacuous check): %r" % r)
            for mode in ("dpq", "plugin"):
                c = dict(MC[it[0]])
                if mode == "plugin":       # whole seconds: the same schedule with every duration doubled
                    c = dict(c, w=c["w"] * 2, ttl={k: v * 2 for k, v in c["ttl"].items()})
                evs = hist_to_script(cxs[0], c)
                if mode == "plugin":
                    # a tick of the model = two ticks (one second); what happens at it happens at the second one
                    evs = [x for e in evs for x in ([{"ev": "tick"}, e] if e["ev"] in ("tick", "race") else [e])]
                scripts.append({"config": conf(c, mode), "histories": [[{"ev": "reset", "now": 0}] + evs]})
                names.append(it[0] + "/" + mode)
    # arrivals exactly at / just after a window boundary racing the roll-over goroutine, both orders, quota 2
    def B(i, prio, ttl):
        return {"ev": "enq", "id": i, "prio": prio, "ttl": ttl}
    for mode, k in (("dpq", 1), ("plugin", 2)):
        w = 2 * k
        pre = [{"ev": "reset", "now": 0}, B("a", 0, 3 * k), B("b", 0, 3 * k), B("c", 1, 3 * k), B("d", 1, 5 * k)] + [{"ev": "tick"}] * (w - 1)
        scripts.append({"config": {"quota": 2, "w": w, "qsize": 3, "mode": mode}, "histories": [
            pre + [{"ev": "race", "ops": [B("e", 0, 3 * k)]}, {"ev": "tick"}, {"ev": "tick"}],                       # arrival first, then the roll-over
            pre + [{"ev": "tick"}, B("e", 0, 3 * k), {"ev": "tick"}, {"ev": "tick"}],                                # roll-over first
            pre + [{"ev": "race", "ops": [B("e", 2, 3 * k), B("f", 0, 3 * k)], "together": True}, {"ev": "tick"}, {"ev": "tick"}]]})
        names.append("boundary/" + mode)
    # the queue-size bookkeeping after expired entries were skipped by the roll-over: the bound must still hold
    for mode, k in (("dpq", 1), ("plugin", 2)):
        tk = [{"ev": "tick"}] * k
        scripts.append({"config": {"quota": 1, "w": 2 * k, "qsize": 1, "mode": mode}, "histories": [
            [{"ev": "reset", "now": 0}, B("a", 0, 3 * k), B("b", 0, 1 * k)] + tk + tk + [B("c", 0, 3 * k), B("d", 0, 3 * k), B("e", 0, 3 * k), B("f", 0, 3 * k)] + tk + tk + [B("g", 0, 3 * k), B("h", 0, 3 * k)] + tk]})
        names.append("size-after-expiry/" + mode)
    # reconfiguration at plugin level: the remedy is re-applied under the same name with the quota raised / lowered
    def E(i, ttl):
        return {"ev": "enq", "id": i, "prio": 0, "ttl": ttl}
    TK = {"ev": "tick"}
    scripts.append({"config": {"quota": 1, "w": 4, "qsize": 2, "mode": "plugin"}, "histories": [
        [{"ev": "reset", "now": 0}, E("a", 4), E("b", 4), {"ev": "reconf", "quota": 3, "w": 4, "qsize": 2}, E("c", 2), E("d", 2), TK, TK, TK, TK, E("e", 2), TK],
        [{"ev": "reset", "now": 0}, E("a", 4), {"ev": "reconf", "quota": 1, "w": 2, "qsize": 1}, E("b", 2), E("c", 2), E("d", 2), TK, TK, E("e", 2), E("f", 4), TK, TK]]})
    names.append("reconfiguration/plugin")
    scripts.append({"config": {"quota": 3, "w": 4, "qsize": 2, "mode": "plugin"}, "histories": [
        [{"ev": "reset", "now": 1}, E("a", 4), {"ev": "reconf", "quota": 1, "w": 4, "qsize": 2}, E("b", 4), E("c", 4), E("d", 6), E("e", 2), TK, TK, TK, TK, TK, TK, TK]]})
    names.append("reconfiguration-lowered/plugin")
    # (2) forced on the real code, judged by P
    traces = execute(ctx, binary, scripts, "cx")
    ctx.sample({"kind": "forced-counterexample-schedule", "model": names[0], "events": traces[0][:16]})
    for nm, tr in zip(names, traces):
        held = [e for e in tr if e["ev"] == "pop"]
        ctx.notes.append("%s: roll-over popped %s" % (nm, ", ".join("%s delivered=%s" % (e["id"], e["delivered"]) for e in held) or "nothing"))
    judge(ctx, binary, scripts, traces, "cx", seen)

    # (3) spec -> code: TLC-generated driver schedules of DpqI, replayed; judged by P, compared with I's prediction
    n = 30 if not T else 300
    def gen(name):
        return ctx.tlc(sd, "GenC10", name + ".cfg", workers=1, simulate="num=%d" % n, depth=400,
                       extra=["-seed", str(ctx.seed)], timeout=900, label="behaviour generation " + name)
    gens = parallel(gen, sorted(GENS), n=3)
    scripts, preds = [], []
    for name, g in zip(sorted(GENS), gens):
        bs = tlc_vh_lines(g.out)
        if len(bs) < n // 2:
            raise Broken("behaviour generation (%s) produced %d walks: %s" % (name, len(bs), g.out[-1500:]))
        c = GENS[name]
        for mode in ("dpq", "plugin"):
            if mode == "plugin" and (c["w"] % 2 or any(v % 2 for v in c["ttl"].values())):
                continue
            scripts.append({"config": conf(c, mode), "histories": [[{"ev": "reset", "now": 0}] + hist_to_script(b["hist"], c) for b in bs]})
            preds.append([b["res"] for b in bs])
    traces = execute(ctx, binary, scripts, "gen")
    mism = tot = 0
    for tr, ps in zip(traces, preds):
        _, real = split_histories(tr)
        for h, p in zip(real, ps):
            got = results(h)
            tot += 1
            mism += any(p[i] != "none" and (p[i] == "ok") != got.get(i) for i in p if i in got)
    ctx.log("replayed %d TLC behaviours, %d differ from the model's prediction" % (tot, mism))
    if mism:
        ctx.notes.append("%d of %d replayed behaviours end differently from the walk TLC chose (DpqI is nondeterministic on equal (priority, arrival) "
                         "and on a TTL firing at a window end); every recording is validated against DpqI and DpqP below" % (mism, tot))
    ctx.sample({"kind": "tlc-behaviour-replayed", "config": scripts[0]["config"], "events": traces[0][1:16]})
    judge(ctx, binary, scripts, traces, "gen", seen)

    # (4) code -> spec: random scripts incl. arrivals started together and arrivals racing the roll-over
    ncfg, nh, hl = (8, 14, 24) if not T else (32, 60, 30)
    scripts = []
    for c in range(ncfg):
        cfg = {"quota": ctx.rng.choice([1, 1, 2, 3]), "w": ctx.rng.choice([2, 4]), "qsize": ctx.rng.choice([1, 2, 3]),
               "mode": "plugin" if c % 2 else "dpq"}
        scripts.append({"config": cfg, "histories": [rand_history(ctx.rng, cfg, hl) for _ in range(nh)]})
    # storms of simultaneous first requests on fresh remedies / re-applied strategies, through the real plugin
    for _ in range(2 if not T else 8):
        scripts.append(storm_script(ctx.rng, 2500))
    traces = execute(ctx, binary, scripts, "rand")
    ctx.sample({"kind": "recorded-trace", "events": traces[0][:16]})
    ctx.sample({"kind": "first-use storms", "events": traces[-1][:6]}, limit=4)
    judge(ctx, binary, scripts, traces, "rand", seen)
    if UNREPRODUCED and not ctx.violations:
        raise Broken("%d rejection(s) by the specification could not be reproduced: %s" % (len(UNREPRODUCED), json.dumps(UNREPRODUCED[0])[:600]))
    if ctx.cov["distinct_nontrivial"] < 20 and not ctx.violations:
        raise Broken("only %d non-trivial histories: the run does not exercise the property" % ctx.cov["distinct_nontrivial"])

    # (5) binding self-test (thorough): corrupted recordings must be rejected
    if T:
        ev = traces[0]
        ids = {e["id"] for e in ev if e["ev"] == "end" and not e["ok"]}
        bad1 = [dict(e) for e in ev]
        for e in bad1:                      # refusals recorded as releases -> more releases than the quota, or out of order
            if e.get("id") in ids and e["ev"] in ("begin", "end"):
                e["ok"] = True
        # a request that waited for the next window and was let through: without the clock advances in between it
        # would have been let through in the window that was already used up when it arrived
        k = k2 = None
        for i, e in enumerate(ev):
            if e["ev"] == "begin" and e["ok"]:
                j = next(x for x in range(i + 1, len(ev)) if ev[x]["ev"] == "end" and ev[x]["id"] == e["id"])
                if any(x["ev"] == "adv" for x in ev[i:j]) and not any(x["ev"] == "reset" for x in ev[i:j]):
                    k, k2 = i, j
                    break
        if k is None:
            raise Broken("self-test: no request that waited across a clock advance in the first recording")
        bad2 = [e for i, e in enumerate(ev) if not (e["ev"] == "adv" and k < i < k2)]
        for nm, b in (("refusals-flipped", bad1), ("advances-dropped", bad2)):
            _, rej, _ = validate_history_trace(ctx, SPEC, "DpqTrace", b, tag="self-" + nm, max_rounds=1, deque=True)
            if not rej:
                raise Broken("self-test: corrupted trace (%s) accepted" % nm)
        ctx.notes.append("self-test: refusals recorded as releases and dropped clock advances were both rejected")


def replay(ctx, path):
    obj = json.load(open(path))
    binary = ctx.build_harness("c10")
    rc = 0
    for attempt in range(20):
        t = execute(ctx, binary, obj["replay"]["script"], "replay")[0]
        acc, rej = validate_p(ctx, t, "replay")
        if rej:
            rc = 1
            break
    for e in t:
        print(json.dumps(e))
    if rc:
        print("VIOLATION property=C10 replay=%s" % path)
        print("   rejected at event %d: %s" % (rej[0]["at"], json.dumps(rej[0]["hist"][rej[0]["at"]])))
        return 1
    print("replay accepted by the specification (20 attempts)")
    return 0
