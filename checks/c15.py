"""C15 - discovery statistics are independent of batching and lose no traffic.

spec:     specs/c15_discovery  DiscoveryP (the laws on the history: Conserve, StatusSum, Extremes, Means, RoundTrip, BatchIndep),
          DiscoveryI (implementation-shaped: URL-tree convergence, extract, combine, re-key, persist/restart), MC_C15, GenC15, DiscoveryTrace
binding:  harness/cmd/c15 drives the real discovery.Run (filter + GetUpdatedAggregations + State.UpdateAggregation) batch by batch on a
          temp state file with the real common URL tree (production threshold read from the plugin's main.go), restart = InitializeState
"""
import json, os, re, shutil
from vlib import Broken, REPO, read_ndjson, write_ndjson, parallel

SPEC = "c15_discovery"
PLUGIN_MAIN = os.path.join(REPO, "proxy/src/services/aggregation-output-plugin/main.go")


def production_threshold():
    m = re.search(r"urlTreeMaxSplitThreshold\s*=\s*(\d+)", open(PLUGIN_MAIN).read())
    if not m:
        raise Broken("cannot find urlTreeMaxSplitThreshold in the plugin's main.go")
    return int(m.group(1))


def workdir(ctx, tag):
    sd = ctx.spec_dir(SPEC)
    wd = os.path.join(ctx.scratch, "tv-" + tag)
    if not os.path.isdir(wd):
        shutil.copytree(sd, wd)
    return wd


# ------------------------------------------------------------------------------------------ case construction
def mkrec(letter, ts):
    r = dict(letter)
    r["ts"] = ts
    return r


def enumerated_families(ctx, space, threshold_small):
    """streams / runs enumerated by TLC (GenC15).  quick: a seeded sample of the streams, every run of each."""
    T = ctx.thorough
    letters, ts, runs = space["letters"], space["ts"], space["runs"]
    streams = space["streams"]
    by_len = {}
    for s in streams:
        by_len.setdefault(len(s), []).append(s)
    chosen = []
    quota = {1: 7, 2: 30, 3: 60, 4: 80, 5: 30} if not T else {1: 7, 2: 49, 3: 343, 4: 1200, 5: 500}
    for n, ss in sorted(by_len.items()):
        ss = sorted(ss)
        k = min(quota.get(n, 0), len(ss))
        chosen += ss if k == len(ss) else ctx.rng.sample(ss, k)
    fams = []
    for s in chosen:
        rs = sorted(runs[len(s) - 1], key=lambda r: (len(r["split"]) != 1 or bool(r["restart"]), r["split"], r["restart"]))
        fams.append({"threshold": threshold_small, "known": [], "recs": [mkrec(letters[i - 1], ts[k]) for k, i in enumerate(s)],
                     "runs": rs, "kind": "enumerated", "word": s})
    return fams


def compositions(n):
    if n == 0:
        return [[]]
    return [[k] + c for k in range(1, n + 1) for c in compositions(n - k)]


def production_families(ctx, space, threshold):
    """the production threshold is crossed by a prelude of distinct sibling URLs followed by an enumerated word."""
    T = ctx.thorough
    letters, ts = space["letters"], space["ts"]
    words = [s for s in space["streams"] if 2 <= len(s) <= (3 if not T else 4) and len({letters[i - 1]["u"] for i in s}) >= 2]
    words = ctx.rng.sample(sorted(words), 6 if not T else 40)
    fams = []
    for w in words:
        k = ctx.rng.choice([threshold - 2, threshold - 1, threshold - 1, threshold])
        pre = [{"m": "GET", "u": "h.com/u/p%02d" % j, "s": 200 if j % 7 else 503, "d": 5 + 3 * j, "t": 6 + 3 * j, "ts": 100 + 37 * j,
                "c": "P" if j % 3 else "", "ity": "py", "iver": "1", "internal": False} for j in range(k)]
        tail = [mkrec(letters[i - 1], 2000 + ts[q]) for q, i in enumerate(w)]
        n = len(tail)
        runs = [{"split": [k + n], "restart": []}]
        for c in compositions(n):
            runs.append({"split": [k] + c, "restart": []})
            runs.append({"split": [k] + c, "restart": [1]})
            runs.append({"split": [k + c[0]] + c[1:], "restart": [] if len(c) == 1 else [1]})
            runs.append({"split": [k // 2, k - k // 2] + c, "restart": [ctx.rng.randint(1, len(c) + 1)]})
        fams.append({"threshold": threshold, "known": [], "recs": pre + tail, "runs": runs[: (10 if not T else 24)], "kind": "production-threshold"})
    return fams


def random_families(ctx, threshold):
    T = ctx.thorough
    rng = ctx.rng
    fams = []
    for f in range(8 if not T else 40):
        n = rng.randint(40, 90 if not T else 160)
        wide = rng.choice([threshold + 5, threshold + 1, threshold, threshold - 3])       # siblings under h.com/u
        pool = ["h.com/u/k%02d" % j for j in range(wide)] + ["h.com/a/%d/b" % j for j in range(rng.choice([3, threshold + 2]))] + \
               ["api.io/v1/items", "api.io/v1/items/%d" % rng.randint(1, 9), "h.com/d/7", "h.com/w/x/y"]
        known = rng.choice([[], ["h.com/d/{id}"], ["h.com/d/{id}", "h.com/w/*"]])
        recs = []
        for k in range(n):
            u = rng.choice(pool) if rng.random() < 0.8 else rng.choice(pool[:3] + pool[-4:])
            recs.append({"m": rng.choice(["GET", "GET", "POST", "PUT"]), "u": u, "s": rng.choice([200, 200, 201, 404, 500, 503]),
                         "d": rng.choice([0, 1, 7, 30, 999, 2000, rng.randint(0, 2000)]), "t": rng.randint(0, 2048),
                         "ts": rng.randint(0, 90000), "c": rng.choice(["", "A", "B", "team-x"]),
                         "ity": rng.choice(["", "py", "py", "ts"]), "iver": rng.choice(["1", "2.0.1"]), "internal": rng.random() < 0.06})
        runs = [{"split": [n], "restart": []}]
        for _ in range(4 if not T else 8):
            split, left = [], n
            while left:
                b = min(left, rng.choice([1, 1, 2, 3, 5, 8, 13, 40]))
                split.append(b)
                left -= b
            rs = sorted(rng.sample(range(1, len(split) + 1), min(len(split), rng.choice([0, 1, 2, 3]))))
            runs.append({"split": split, "restart": rs})
        fams.append({"threshold": threshold, "known": known, "recs": recs, "runs": runs, "kind": "random"})
    return fams


def f32(x):
    import struct
    return struct.unpack("f", struct.pack("f", x))[0]


def means_families(ctx, threshold):
    """one endpoint, many records, several merges: a first batch of n >= 7 records whose total T is such that the stored float32
    average times n does not give T back exactly (float32(T/n)*n != T, in either direction), followed by single-record and small
    batches, with restarts.  The float32 emulation only *chooses inputs*; the verdict is the Means law with Eps(count)."""
    T = ctx.thorough
    rng = ctx.rng
    fams = []
    want = 8 if not T else 60
    tries = 0
    while len(fams) < want and tries < 100000:
        tries += 1
        n = rng.randint(7, 40)
        tot = rng.randint(n, n * 60)
        back = f32(f32(f32(tot) / f32(n)) * f32(n))
        below = back < tot
        if back == tot or (len(fams) % 4 != 3 and not below):       # mostly the case where the reconstructed total falls short
            continue
        # n durations adding up to tot (second duration field: another inexact total)
        base, extra = divmod(tot, n)
        ds = [base + (1 if i < extra else 0) for i in range(n)]
        rng.shuffle(ds)
        tail = rng.randint(3, 9)
        recs = []
        for k in range(n + tail):
            d = ds[k] if k < n else rng.choice([0, 1, base, base + 1, 2 * base + 1])
            recs.append({"m": "GET", "u": "h.com/m/one", "s": rng.choice([200, 200, 500]), "d": d, "t": min(2048, d + (k % 3)),
                         "ts": 500 + 777 * k, "c": "A" if k % 5 else "B", "ity": "py", "iver": "1", "internal": False})
        runs = [{"split": [n + tail], "restart": []},
                {"split": [n] + [1] * tail, "restart": []},
                {"split": [n] + [1] * tail, "restart": [1, 1 + tail // 2]},
                {"split": [n // 2, n - n // 2] + [1] * tail, "restart": [2]},
                {"split": [1] * (n + tail), "restart": []}]
        b, left, split = 0, n + tail, []
        while left:
            b = min(left, rng.choice([1, 2, 3, 7]))
            split.append(b)
            left -= b
        runs.append({"split": split, "restart": [rng.randint(1, len(split))]})
        fams.append({"threshold": threshold, "known": [], "recs": recs, "runs": runs, "kind": "means"})
    return fams


def nested_families(ctx):
    """multi-level convergence: URLs with two variable positions h.com/t/<a>/<b>[/leaf] whose levels cross the threshold at different
    times, in both orders (inner first: an inferred parameter under several sibling constants, then the siblings converge and the
    inner parameter is renamed; outer first), over several batches - judged by the batching-independence law."""
    T = ctx.thorough
    rng = ctx.rng
    fams = []
    for f in range(10 if not T else 80):
        thr = rng.choice([2, 2, 3])
        na, nb = thr + rng.choice([1, 2]), thr + rng.choice([1, 2])
        leaf = rng.choice(["", "", "/items"])
        mode = ["inner-first", "outer-first", "mixed"][f % 3]
        urls = []
        if mode == "inner-first":
            for a in range(1, na + 1):
                for b in range(1, nb + 1):
                    urls.append((a, b))
        elif mode == "outer-first":
            for b in range(1, nb + 1):
                for a in range(1, na + 1):
                    urls.append((a, b))
        else:
            urls = [(a, b) for a in range(1, na + 1) for b in range(1, nb + 1)]
            rng.shuffle(urls)
        urls = urls[: rng.randint(max(4, len(urls) - 4), len(urls))]
        extra = [rng.choice(urls) for _ in range(rng.randint(0, 4))]          # repeated traffic after the tree changed
        seq = urls + extra
        recs = [{"m": rng.choice(["GET", "GET", "POST"]), "u": "h.com/t/%d/x%d%s" % (a, b, leaf), "s": rng.choice([200, 404]),
                 "d": rng.randint(1, 300), "t": rng.randint(1, 400), "ts": 100 + 613 * k, "c": rng.choice(["", "A"]),
                 "ity": "py", "iver": "1", "internal": False} for k, (a, b) in enumerate(seq)]
        n = len(recs)
        runs = [{"split": [n], "restart": []}, {"split": [1] * n, "restart": []}]
        for _ in range(4 if not T else 8):
            split, left = [], n
            while left:
                b = min(left, rng.choice([1, 1, 2, 3, 4, nb, nb + 1]))
                split.append(b)
                left -= b
            rs = sorted(rng.sample(range(1, len(split) + 1), min(len(split), rng.choice([0, 0, 1, 2]))))
            runs.append({"split": split, "restart": rs})
        fams.append({"threshold": thr, "known": [], "recs": recs, "runs": runs, "kind": "nested-" + mode})
    return fams


# ------------------------------------------------------------------------------------------ execution / judgement
def execute(ctx, binary, fams, tag, chunks):
    d = ctx.sub("run-" + tag)
    for i, f in enumerate(fams):
        f["id"] = i
    json.dump({"families": [{k: f[k] for k in ("id", "threshold", "known", "recs", "runs")} for f in fams], "chunks": chunks},
              open(os.path.join(d, "cases.json"), "w"))
    ctx.run_harness(binary, ["run", os.path.join(d, "cases.json"), d], timeout=900)
    return [os.path.join(d, "trace-%03d.ndjson" % i) for i in range(chunks)]


def split_runs(events):
    """[config, (stream, [run, ...]) ...] - a run = the events from its reset to its final."""
    fams = []
    for e in events[1:]:
        if e["ev"] == "stream":
            fams.append((e, []))
        elif e["ev"] == "reset":
            fams[-1][1].append([e])
        else:
            fams[-1][1][-1].append(e)
    return events[0], fams


def validate(ctx, events, tag, max_rounds=8):
    """TLC-validate one trace file against DiscoveryTrace.  Returns (accepted runs, rejected) with rejected =
    [{stream, run (events), at (index in run), law}]; a rejected run is removed and the rest validated again."""
    cfg, fams = split_runs(events)
    wd = workdir(ctx, tag)
    rejected = []
    for rnd in range(max_rounds):
        flat, index = [cfg], []
        for fi, (s, runs) in enumerate(fams):
            flat.append(s)
            index.append(None)
            for ri, r in enumerate(runs):
                for k, e in enumerate(r):
                    flat.append(e)
                    index.append((fi, ri, k))
        write_ndjson(os.path.join(wd, "trace.ndjson"), flat)
        ok, hwm, r = ctx.tlc_trace(wd, "DiscoveryTrace", os.path.join(wd, "trace.ndjson"), cfg="DiscoveryTrace.cfg", timeout=1500)
        if ok and not r.violated:
            return sum(len(runs) for _, runs in fams), rejected
        if not r.violated or hwm < 2:
            raise Broken("trace validation %s stopped without a verdict at line %d: %r\n%s" % (tag, hwm, r, r.out[-2500:]))
        laws = re.findall(r'verdict = "([^"]*)"', r.out)
        law = laws[-1] if laws else "?"
        loc = index[hwm - 2]            # line hwm (1-based) is the event whose observation broke a law
        if loc is None:
            raise Broken("rejection at a stream line (%s line %d)" % (tag, hwm))
        fi, ri, k = loc
        rejected.append({"stream": fams[fi][0], "run": fams[fi][1][ri], "at": k, "law": law, "first_run_of_stream": ri == 0})
        del fams[fi][1][ri]
    # more rejections than rounds: the runs after the last rejected one were not judged - they are not counted as accepted
    return 0, rejected


def model_conformance(ctx, events, tag):
    """the same recording followed by the implementation-shaped model (DiscoveryTraceI).  Returns None or a description of the drift."""
    wd = workdir(ctx, "drift-" + tag)
    write_ndjson(os.path.join(wd, "trace.ndjson"), events)
    ok, hwm, r = ctx.tlc_trace(wd, "DiscoveryTraceI", os.path.join(wd, "trace.ndjson"), cfg="DiscoveryTraceI.cfg", timeout=1500)
    if ok and not r.violated:
        return None
    if not r.violated:
        raise Broken("model conformance %s stopped at line %d without a verdict: %r\n%s" % (tag, hwm, r, r.out[-2000:]))
    d = re.findall(r'drift = "([^"]*)"', r.out)
    return "line %d: %s" % (hwm, d[-1] if d else "?")


def script_of(fam_meta, stream, run):
    split = [e["n"] for e in run if e["ev"] == "batch"]
    restart, b = [], 0
    for e in run:
        if e["ev"] == "batch":
            b += 1
        elif e["ev"] == "restart":
            restart.append(b)
    return {"threshold": fam_meta["threshold"], "known": fam_meta["known"], "recs": stream["recs"],
            "runs": [{"split": [len(stream["recs"])], "restart": []}, {"split": split, "restart": restart}]}


def tree_facts(run, upto):
    """bookkeeping for the witness (classification only): how the attribution read from the real tree moved during the run.
    respecialised: a URL seen earlier moved from a key with an inferred parameter at some position to a key with a constant
    at that position (the merged tree node kept constant children beside the parametric one);
    orphan / missing keys at the last batch: endpoint keys no seen URL is attributed to / attributed keys without an entry;
    tree_class: "none" | "respecialised" | "inner-stale" | "respecialised+inner-stale" | "other" (see the shapes below)."""
    batches = [e for e in run[: upto + 1] if e["ev"] == "batch"]
    resp = False
    prev = {}
    for b in batches:
        cur = {a["u"]: a["n"] for a in b["attr"]}
        for u, n in cur.items():
            if u in prev and prev[u] != n:
                ps, ns = prev[u].split("/"), n.split("/")
                if len(ps) == len(ns) and any(x.startswith("{") and not y.startswith("{") for x, y in zip(ps, ns)):
                    resp = True
        prev = cur
    orphan = missing = 0
    shapes = set()
    if batches:
        image = set(prev.values())
        keys = {e["u"] for e in batches[-1]["agg"]["eps"]}
        orphan, missing = len(keys - image), len(image - keys)
        isp = lambda x: x.startswith("{")
        for k in keys - image:
            ks = k.split("/")
            shape = "other"
            for c in image:
                cs = c.split("/")
                if len(cs) != len(ks) or any(not (a == b or isp(b)) for a, b in zip(ks, cs) if not isp(a)) or \
                        any(isp(a) and not isp(b) for a, b in zip(ks, cs)):
                    continue
                stale = [i for i, (a, b) in enumerate(zip(ks, cs)) if not isp(a) and isp(b)]
                params = [i for i, a in enumerate(ks) if isp(a)]
                # the stale constant is the innermost variable position (every parameter of the key is to its left): the level
                # converged while the stored keys were being normalised; a parameter to its right = an outer level not renamed
                shape = "inner-stale" if stale and all(p < min(stale) for p in params) else "outer-stale"
                break
            shapes.add(shape)
    if missing or "other" in shapes or "outer-stale" in shapes:
        cls = "other"
    else:
        cls = "+".join(x for x in (["respecialised"] if resp else []) + (["inner-stale"] if shapes else [])) or "none"
    return resp, orphan, missing, cls


def witness_of(rej, fam_meta):
    run = rej["run"]
    e = run[rej["at"]]
    resp, orphan, missing, cls = tree_facts(run, rej["at"])
    fam = "attribution" if rej["law"].replace("Consumer-", "") in ("Conserve", "BatchIndep", "BatchIndep-Keys") else "values"
    return {"class": "law-" + rej["law"], "law": rej["law"], "event": e["ev"], "batches": [x["n"] for x in run if x["ev"] == "batch"],
            "restarted_before": any(x["ev"] == "restart" for x in run[: rej["at"]]), "records": len(rej["stream"]["recs"]),
            "threshold": fam_meta["threshold"], "kind": fam_meta.get("kind", ""), "error": e.get("err", "")[:200],
            "respecialised_after_merge": resp, "orphan_keys": orphan, "missing_keys": missing, "tree_class": cls, "law_family": fam}


def judge(ctx, binary, fams, tag, chunks, model_chunks=0):
    paths = execute(ctx, binary, fams, tag, chunks)
    traces = [read_ndjson(p) for p in paths]

    def one(it):
        i, ev = it
        if i >= chunks:
            return model_conformance(ctx, traces[i - chunks], "%s%d" % (tag, i - chunks))
        return validate(ctx, ev, "%s%d" % (tag, i))
    allres = parallel(one, list(enumerate(traces + traces[:model_chunks])), n=chunks + model_chunks)
    res, drifts = allres[:chunks], [d for d in allres[chunks:] if d]
    meta = {f["id"]: f for f in fams}
    nruns = nbatches = nontrivial = accepted = 0
    viol = []
    for (acc, rejected), ev in zip(res, traces):
        accepted += acc
        for e in ev:
            if e["ev"] == "batch":
                nbatches += 1
        _, fs = split_runs(ev)
        for s, runs in fs:
            for r in runs:
                nruns += 1
                b = [x for x in r if x["ev"] == "batch"]
                # non-trivial: >= 2 batches and the URL tree converged during the run (some URL attributed to another key than itself)
                if len(b) >= 2 and any(a["u"] != a["n"] for a in b[-1]["attr"]):
                    nontrivial += 1
        for rej in rejected[:3]:
            fm = meta[rej["stream"]["id"]]
            w = witness_of(rej, fm)
            sc = script_of(fm, rej["stream"], rej["run"])
            # reproduce: the reference run + this run again on the real code, judged again by the specification
            # (the order in which the code merges entries follows Go's randomised map iteration, so a behaviour that depends on
            # the merge order need not recur on the first re-execution: up to 20 attempts, as for concurrent recordings)
            rej2 = None
            for attempt in range(20):
                p2 = execute(ctx, binary, [dict(sc)], tag + "-repro", 1)
                _, rej2 = validate(ctx, read_ndjson(p2[0]), tag + "-repro", max_rounds=1)
                if rej2:
                    break
            if not rej2:
                raise Broken("rejection not reproduced in 20 attempts (%s): %s" % (tag, json.dumps(w)))
            w["reproduced_at_attempt"] = attempt + 1
            viol.append((w, {"script": sc, "recorded_run": rej["run"], "rejected_at": rej["at"], "law": rej["law"]}))
    return {"runs": nruns, "batches": nbatches, "nontrivial": nontrivial, "accepted": accepted, "viol": viol, "traces": traces, "fams": len(fams),
            "drifts": drifts, "model_chunks": model_chunks}


def apply(ctx, r, label):
    ctx.cov["traces_validated_against_impl"] += r["accepted"]
    ctx.cov["evaluations"] += r["batches"]
    ctx.cov["distinct_nontrivial"] += r["nontrivial"]
    for w, obj in r["viol"]:
        ctx.violation(w, obj)
    if r["drifts"]:
        ctx.cov["model_drift"] = True
        ctx.notes.append("MODEL-DRIFT (%s): the recorded aggregates differ from DiscoveryI's: %s" % (label, "; ".join(r["drifts"][:3])))
    elif r["model_chunks"]:
        ctx.notes.append("%s: %d of the recorded trace files were also followed step by step by the model DiscoveryI without a difference" % (label, r["model_chunks"]))
    ctx.log("%s: %d streams, %d runs, %d batches on the real code (%d runs with convergence across batches), %d rejected" % (
        label, r["fams"], r["runs"], r["batches"], r["nontrivial"], len(r["viol"])))


def run(ctx):
    T = ctx.thorough
    binary = ctx.build_harness("c15")
    thr = production_threshold()
    ctx.cov["rule"] = ("runs = one way of batching (and restarting in) one stream, executed on the real plugin code and validated step by step by "
                       "DiscoveryTrace; streams: TLC-enumerated words of <=5 records over a 7-letter alphabet (threshold 2, every composition "
                       "into batches x restart after any one batch), words behind a prelude that brings the production threshold (%d) within "
                       "reach, seeded random streams of 40-160 records; non-trivial = run of >= 2 batches during which the URL tree converged "
                       "(statistics had to be re-keyed or attributed to an inferred path parameter)" % thr)
    ctx.cov["checker_cmd"] = "tlc -config MC_small.cfg MC_C15.tla ; tlc -config DiscoveryTrace.cfg DiscoveryTrace.tla"
    ctx.cov["trusted_base"] = ["TLC 1.8", "CommunityModules (Json, FiniteSetsExt, SequencesExt)", "Go toolchain",
                               "harness/cmd/c15 projection (timestamps as offsets from a second-aligned instant, averages rounded to 1/1000, "
                               "attribution read from the real tree by lookup)", "export_verif.go: State.VerifAggregation"]
    ctx.assumptions += ["durations <= 2048 ms (explicit float32 rounding bound Eps(count) = count + 1 thousandths)",
                        "a restart re-reads the state file; the URL tree object is kept (attribution is a property of the tree)",
                        "gateway-internal records are not discovered traffic", "timestamps are persisted with a resolution of one second"]
    sd = ctx.spec_dir(SPEC)

    # case generation by TLC first (cheap), then everything else side by side
    g = ctx.tlc(workdir(ctx, "mc-gen"), "GenC15", "GenC15.cfg", workers=1, timeout=600, label="case generation")
    if not g.ok:
        raise Broken("case generation failed: %r\n%s" % (g, g.out[-2000:]))
    space = json.load(open(os.path.join(workdir(ctx, "mc-gen"), "c15_space.json")))
    for l in space["letters"]:
        l.pop("ts", None)
    fams = enumerated_families(ctx, space, 2)
    pf = production_families(ctx, space, thr)
    rf = random_families(ctx, thr)
    mf = means_families(ctx, thr)
    nf = nested_families(ctx)

    # (1) exhaustive: every reachable state of the implementation-shaped model satisfies the laws; broken variants are refuted
    def mc(job):
        cfg, label, tag = job
        return ctx.tlc(workdir(ctx, "mc-" + tag), "MC_C15", cfg, workers=4 if not T else 12, timeout=1700, label=label, count=False)
    jobs = [("MC_small.cfg" if not T else "MC_large.cfg", "laws of P on every reachable state of I", "main"),
            ("MC_unweighted.cfg", "non-vacuity: unweighted average must be refuted", "unw"),
            ("MC_nostatus.cfg", "non-vacuity: status maps not merged must be refuted", "nos"),
            ("MC_overwrite.cfg", "non-vacuity: converge overwriting instead of combining must be refuted", "ovw")]
    if T:
        jobs += [("MC_W_NoConvergence.cfg", "witness: convergence is reached (expected to be violated)", "w1"),
                 ("MC_W_NoRekeyMerge.cfg", "witness: re-keying after convergence is reached (expected to be violated)", "w2")]

    def part(name):
        if name == "mc":
            return parallel(mc, jobs, n=2 if not T else 3)
        if name == "enum":      # (2) spec -> code: TLC-enumerated streams x compositions x restart points
            return judge(ctx, binary, fams, "enum", 6 if not T else 10, model_chunks=3 if not T else 10)
        if name == "prod":      # (3) production threshold behind a prelude
            return judge(ctx, binary, pf, "prod", 2 if not T else 4)
        if name == "means":     # (5) one endpoint, inexact float32 averages, many merges
            return judge(ctx, binary, mf, "means", 2 if not T else 4)
        if name == "nested":    # (6) multi-level convergence
            return judge(ctx, binary, nf, "nested", 2 if not T else 4)
        return judge(ctx, binary, rf, "rand", 3 if not T else 4)      # (4) seeded random long streams (code -> spec)
    def timed(name):
        import time
        t = time.time()
        r = part(name)
        ctx.log("part %s took %.0fs" % (name, time.time() - t))
        return r
    if T:
        out = [timed("mc")] + parallel(timed, ["enum", "prod", "rand", "means", "nested"], n=3)
    else:
        out = parallel(timed, ["mc", "enum", "prod", "rand", "means", "nested"], n=4)
    res, r_enum, r_prod, r_rand, r_means, r_nested = out
    for (cfg, label, tag), r in zip(jobs, res):
        ctx.cov["tlc_runs"].append({"module": "MC_C15", "cfg": cfg, "generated": r.generated, "distinct": r.distinct,
                                    "depth": r.depth, "wall_s": round(r.wall, 1), "result": "ok" if r.ok else (r.violated or "error"), "label": label})
        if "must be refuted" in label or "expected to be violated" in label:
            if r.violated is None:
                raise Broken("vacuous: MC_C15/%s was not refuted: %r\n%s" % (cfg, r, r.out[-1500:]))
        elif not r.ok:
            raise Broken("TLC %s: %r\n%s" % (cfg, r, r.out[-3000:]))
        else:
            if r.distinct <= 1:
                raise Broken("trivial state space")
            ctx.cov["states"] += r.distinct
            ctx.cov["transitions"] += r.generated
            ctx.log("TLC MC_C15 %s: %d generated / %d distinct, %.1fs" % (cfg, r.generated, r.distinct, r.wall))
    apply(ctx, r_enum, "enumerated (threshold 2)")
    apply(ctx, r_prod, "production threshold %d behind a prelude" % thr)
    apply(ctx, r_rand, "random")
    apply(ctx, r_means, "one endpoint, inexact averages, many merges")
    apply(ctx, r_nested, "multi-level convergence")
    ctx.sample({"kind": "enumerated-run", "stream": [(r["m"], r["u"], r["s"], r["d"]) for r in fams[-1]["recs"]], "run": fams[-1]["runs"][-1]})
    ev = r_rand["traces"][0]
    bi = next(i for i, e in enumerate(ev) if e["ev"] == "batch")
    ctx.sample({"kind": "recorded-batch", "n": ev[bi]["n"], "endpoints": ev[bi]["agg"]["eps"][:2]})

    # (5) binding self-test (thorough): corrupted recordings must be rejected, each by the law it breaks
    if T:
        selftest(ctx, r_enum["traces"][0])


def selftest(ctx, ev):
    import copy
    checks = []
    # (a) one count off by one
    t = copy.deepcopy(ev)
    k = next(i for i, e in enumerate(t) if e["ev"] == "batch" and e["agg"]["eps"])
    t[k]["agg"]["eps"][0]["count"] += 1
    checks.append(("count+1", t, "Conserve"))
    # (b) an average off by more than the rounding bound
    t = copy.deepcopy(ev)
    k = next(i for i, e in enumerate(t) if e["ev"] == "batch" and e["agg"]["eps"] and e["agg"]["eps"][0]["count"] >= 2)
    t[k]["agg"]["eps"][0]["ad"] += 50
    checks.append(("avg+0.05", t, "Means"))
    # (c) a batch event dropped (the next aggregate then counts records the history does not have)
    t = copy.deepcopy(ev)
    k = next(i for i, e in enumerate(t) if e["ev"] == "batch" and t[i + 1]["ev"] == "batch")
    del t[k]
    checks.append(("dropped batch", t, None))
    # (d) a status count moved to another code
    t = copy.deepcopy(ev)
    k = next(i for i, e in enumerate(t) if e["ev"] == "batch" and e["agg"]["eps"])
    t[k]["agg"]["eps"][0]["st"][0]["code"] += 1
    checks.append(("status code", t, "StatusSum"))
    for name, t, law in checks:
        _, rej = validate(ctx, t, "self-" + name.replace(" ", "").replace("+", "").replace(".", ""), max_rounds=1)
        if not rej or (law and rej[0]["law"] != law):
            raise Broken("self-test '%s': corrupted recording %s" % (name, "accepted" if not rej else "rejected by %s instead of %s" % (rej[0]["law"], law)))
    ctx.notes.append("self-test: count+1 -> Conserve, avg+0.05 -> Means, status code changed -> StatusSum, dropped batch event -> rejected")


def replay(ctx, path):
    obj = json.load(open(path))
    binary = ctx.build_harness("c15")
    sc = obj["replay"]["script"]
    p = execute(ctx, binary, [dict(sc)], "replay", 1)
    ev = read_ndjson(p[0])
    for e in ev:
        print(json.dumps(e)[:400])
    _, rej = validate(ctx, ev, "replay", max_rounds=1)
    if rej:
        print("VIOLATION property=C15 replay=%s" % path)
        print("   law %s broken at event %d of the run" % (rej[0]["law"], rej[0]["at"]))
        return 1
    print("replay accepted by the specification")
    return 0
